#!/bin/sh
# run every check (quick) against every seeded change and own mutant; results go into each meta.json
cd "$(dirname "$0")/.." || exit 2
for d in seeded/*/; do
  n=$(basename "$d"); pid=${n%-*}; k=${n#*-}
  python3 tools/ingest_seed.py "$pid" "$k" --props all 2>&1 | head -1
done
