#!/usr/bin/env python3
"""Fill title / needs_to_manifest of seeded/*/meta.json from notes.md and print the DESIGN.md section 12 table."""
import json
import os
import re
import sys

ROOT = os.path.dirname(os.path.dirname(os.path.abspath(__file__)))
SEEDED = os.path.join(ROOT, "seeded")

OUTSIDE = {
    "C03-4": "two threads sharing one SCSIDevice: C03 quantifies over inputs and configurations, not schedules",
    "C07-4": "two threads sharing one SCSIDevice with overlapping CHECK CONDITIONs: C07 quantifies over fault sequences, configurations and inputs, not schedules",
    "C08-5": "first-use race between two threads formatting a condition: C08 quantifies over inputs only",
    "C19-5": "first-use race in init_device between two threads: C19 quantifies over configurations and inputs",
    "C05-4": "the ambiguous table name 'Block' (shared by five device type codes) resolves to another of its codes; the standard assigns no code to that name, so no generated dictionary uses it (unique descriptions are generated and checked)",
    "C14-4": "thread race on a shared stand-in object: outside C14's quantifier (configurations, inputs); it is a C09 violation and C09 catches it",
    "C01-3": "thread race on a shared stand-in object: outside C01's quantifier (inputs, configurations); it is a C09 violation and C09 catches it",
    # observed at another property's observation point (that check catches them; the seed's own check looks elsewhere by design)
    "C02-11": "the Inquiry *constructor* replaces the caller's allocation length before the encoder is reached: C02's oracle is 'decode returns what build_cdb was given', which still holds; arguments -> CDB is C01's statement, and C01 catches it (every value of every <=8-bit field with defaults)",
    "C06-11": "stale result after re-executing one command *object* (SCSICommand.unmarshall, the instance path): C06 is stated over the build/parse functions; 'the result is the decode of what the device left' is C13's statement, and C13 catches it",
    "C07-10": "only the *text* of the condition quotes a folded ASC/ASCQ; status handling, exception and .asc/.ascq are right: the text is C08's statement, and C08 catches it",
    "C02-14": "the iSCSI transport pads the command's own CDB to 16 bytes while sending it: the encode/decode functions C02 speaks of are untouched; the CDB that reaches the binding (and the one the returned command holds) is C01's and C13's observation point, and both catch it",
    "C04-14": "stale keys after re-executing one command *object* (SCSICommand.unmarshall merges results): the parsers C04 speaks of are untouched; 'the result is the decode of what the device left' on the instance path is C13's statement, and C13 catches it",
    "C01-15": "native-endian struct.pack in ATA PASS-THROUGH(12): byte-identical to the hand-written shifts on every little-endian host, wrong only on a big-endian one; no execution this sandbox can produce distinguishes the two (runtime monitoring observes executions on this host only)",
    "C02-15": "the ATAPassThrough16 *constructor* folds LBA(27:24) into DEVICE before the encoder is reached: C02's oracle 'decode returns what build_cdb was given' still holds; arguments -> CDB is C01's statement, and C01 catches it (28-bit commands with 48-bit values, DEVICE bit 6)",
    "C02-16": "SCSI.write10/12/16 replace the caller's TRANSFER LENGTH when the data buffer is larger: the command classes and their encode/decode functions are untouched; 'all documented arguments reach the CDB' through the facade is C13's statement, and C13 catches it (write buffers larger than the blocks asked for)",
    "C02-17": "the SG_IO transport sets CK_COND in the command's own CDB while sending it: the encode/decode functions C02 speaks of are untouched; the CDB that reaches the binding and the one the returned command holds are C01's and C13's observation point, and C01 catches it",
    "C10-17": "needs a dict subclass whose __getitem__ answers something else than its items(): such an object breaks the Mapping contract the codec's own type annotation names, so no law of C10 says which of the two answers is 'the value'; real dicts, UserDict, OrderedDict and ChainMap are generated and agree",
    "C12-15": "a second build_cdb on the same command object XORs into the old CDB: nothing in the transports or the target interaction C12 speaks of changes, the wrong bytes come from CDB construction; 'building again from the same fields gives the same CDB' is monitored by C02 (and C01 after an in-place rebuild), and both catch it",
    "C12-17": "SCSIDevice.__exit__ / SCSI.__exit__ return True and swallow the exception leaving a with block: every command that is issued still round-trips; 'a device error surfaces to the caller' is C07's statement, and C07 catches it",
    "C14-16": "the iSCSI transport masks the status byte with 3Eh so that TASK ABORTED (40h) is treated as GOOD: every value the library *exposes* under a name is still T10's (C14's statement); acting on a completion status is C07's statement, and C07 catches it",
    "C16-16": "SCSIDevice records the new inode before the re-open after a replug has succeeded: command-set selection is untouched; handles and replug detection under failing re-opens are C15's statement, and C15 catches it",
    "C02-18": "SCSI.reportluns() issues a second, larger REPORT LUNS when the list did not fit: the command classes and their encode/decode functions are untouched; 'hands that command to the device exactly once' is C13's statement, and C13 catches it (replies announcing more than fits)",
    "C02-20": "SCSI.modesense10() forces DBD=1 on CD/DVD devices: constructor and encoders untouched; arguments -> CDB through the attached facade is C01's / C13's observation point, and both catch it (facade attached to units of every device type)",
    "C04-19": "SCSICommand.unmarshall() skips the parser while a CRC of the data-in buffer is unchanged: no parser C04 speaks of is touched; 'the result is the decode of what the device left' on the instance path is C13's statement, and C13 catches it (result edited, command executed and decoded again)",
    "C06-20": "the ModeSelect6/10 *constructors* clear the PS bits when SP=1: the build/parse functions C06 pairs (marshall_datain / unmarshall_datain) are untouched; the parameter list a command carries is C05's statement, and C05 catches it",
    "C07-18": "a hidden READ CAPACITY probe behind SCSI.blocksize swallows its own CHECK CONDITION: the command the caller asked for is refused as before; 'no command reaches the device' for a transfer without block size is C17's statement (and the extra command C13's), and both catch it",
    "C08-18": "the ASC/ASCQ table is read from a data file with open(dirname(__file__)): from a source tree, an installed copy and for every sense buffer nothing changes; the module cannot be imported from a zip archive, which is C19's statement ('every module of the library imports'), and C19 catches it (built copy packed into an archive)",
    "C12-18": "SCSIDevice.open() records the new inode before the re-open after a replug succeeded: every history without a failing re-open round-trips; handles under failing re-opens are C15's statement, and C15 catches it",
    "C14-18": "get_opcode() remembers matches per id(table): every shipped table and every value exposed under a name is unchanged; a *caller-built* table that lands on the address of a dead one gets the dead table's entries - 'the operation code the attached device's command set assigns' is C13's statement, and C13 catches it (a quirk table used, dropped and collected, then a standard one)",
    "C14-19": "OpCode builds its service-action enumeration lazily from the caller's dictionary object: the shipped tables are unaffected; 'an enumeration built from a mapping exposes exactly the supplied names' (the caller reuses his dictionary) is C18's statement, and C18 catches it",
    "C14-20": "SCSI.modeselect6() answers ILLEGAL REQUEST/20h/00h by sending operation code 5Ah: every table value is T10's; a failed command that is followed by another command instead of reaching the caller is C07's statement, and C07 catches it (well-known conditions on every facade method)",
    "C02-21": "the codec tells the two layout notations apart by container type, so a legacy field written as a (mask, offset) tuple in a user's _cdb_bits is dropped: every shipped layout round-trips; 'masks written as tuples' is the codec's own law (C10), and C10 catches it",
    "C02-23": "the WriteSame16 *constructor* sets NDOB when no block is given: C02's oracle 'decode returns what build_cdb was given' still holds; arguments -> CDB is C01's statement, and C01 catches it (WRITE SAME prepared without its block)",
    "C03-22": "scsi_int_to_ba() hands out a shared, cached bytearray: every buffer the library itself builds still matches its CDB; 'the result does not depend on what a caller did with an earlier result' is monitored at the codec (C10), and C10 catches it",
    "C03-23": "the facade remembers a block size from READ CAPACITY(16) (the physical one) when none was configured: a facade *with* a block size is unaffected; a block transfer without block size must be refused whatever was asked before - C17's statement, and C17 catches it",
    "C06-21": "the MODE SENSE(10) *parser* steps over twice the block descriptor area when LONGLBA=1: nothing the library can build carries block descriptors, so no build/parse pair C06 speaks of is affected; decoding a well-formed response is C04's statement, and C04 catches it",
    "C09-22": "the facade keeps the command in flight in an attribute of itself: commands built by their classes stay isolated (what C09 speaks of); a device wrapper that issues a command of its own through the same facade makes the outer call return the other command - 'the command it sent is the one it returns' is C13's statement, and C13 catches it",
    "C12-22": "replug detection compares device numbers for special files: histories on the nodes C12 drives (and every replug that changes the number) round-trip; a replaced character node with the same number is C15's statement (and observed at C13's binding boundary), and both catch it",
    "C12-23": "the block methods bypass an execute() that an application subclass of the facade overrides: with the plain facade every history round-trips; 'every method hands its command over through the one documented path, once' is observed by C13 (facade subclass), and C13 catches it",
    "C13-22": "the shipped tables share one service-action enumeration per dictionary: every facade call sends the right command until somebody edits such an enumeration; 'one enumeration never affects another' is C18's statement (and the shared entries are seen by C14's walk), and both catch it",
    "C14-21": "assigning cmd.opcode XORs the operation code into the built CDB: tables, lengths and every construction path are unchanged; 'the CDB keeps decoding to the values it was built from' is C02's statement, and C02 catches it (opcode re-assigned, CDB compared after each assignment)",
    "C14-22": "the SG_IO transport pads short CDBs to 12 bytes for CD/DVD devices: every table value and every CDB length the library *derives* is unchanged; the CDB that reaches the binding is C13's observation point, and C13 catches it (the device type an attach stored)",
    "C15-22": "init_device() runs the path through abspath(), which cancels 'link/..' textually: handles of a device that was opened on the requested path behave as before; 'opened on exactly the requested path' is C19's statement (and C16 routes units by the inode behind the handle), and both catch it",
    "C16-21": "an attach to a unit reporting MCHNGR adds entries to the shared module-level command set: the table object selected for each device type is still the right one; 'every name a set exposes is T10's and stays so while the library is used' is C14's statement, and C14 catches it (tables walked again after a usage phase with all INQUIRY flag patterns)",
    "C09-11": "copy.deepcopy(command) shares the decoded result: no other command is created or used, the CDBs and buffers C09 speaks of stay independent; the returned command and its result are C13's observation point, and C13 catches it",
    "C01-24": "the facade falls back to MODE SENSE(10)'s operation code when the device's table (MMC) has no MODE_SENSE_6: every command built from a table that defines it is unchanged; which operation code a facade method uses on a table that does not list its command is C14's statement (every name a set exposes is T10's, the CDB length is the group's) and C14 catches it (facade calls on every table, the CDB at the binding judged by the reference)",
    "C01-26": "SCSIDevice pads six and ten byte CDBs to twelve bytes when the node's name is sr<N> / scd<N>: cmd.cdb, C01's observation point, stays right; the bytes that reach the binding of a device opened on a given path are C19's observation (the first command reaches the binding unaltered, on every node name), and C19 catches it",
    "C02-25": "EXTENDED COPY takes its PARAMETER LIST LENGTH from a table of descriptor lengths instead of from the list it built: the CDB still decodes to the value build_cdb was given; 'the CDB's parameter list length equals the length of the list' is C05's statement, and C05 catches it",
    "C08-26": "ISCSIDevice.__exit__ / SCSI.__exit__ return the status of the logout, so a failed logout makes the with block swallow the CheckCondition: the condition itself is built, printed and carries the right triple; 'a non-GOOD outcome reaches the caller' is C07's statement, and C07 catches it (logouts that fail at the end of a with block)",
    "C09-26": "OpCode builds its service-action enumeration on first use, from the caller's dict as it is then: commands do not share state with each other; 'an enumeration is the snapshot of the dictionary it was made from' is C18's statement, and C18 catches it",
    "C12-24": "the replug check reads descriptor 0 as 'no descriptor': data written and read back is unchanged in every history C12 plays; following a replaced node is C15's statement, and C15 catches it (a process without standard input)",
    "C12-26": "the facade returns normally after CHECK CONDITION / RECOVERED ERROR, also for deferred errors: the target model's data is read back intact in every history without injected conditions; 'every non-GOOD status raises' is C07's statement, and C07 catches it",
    "C14-25": "the SG_IO transport sends a home-made REQUEST SENSE whose operation code byte is never written: every table value and derived length is unchanged; 'one execute reaches the binding once' is C07's observation, and C07 catches it",
    "C14-26": "the iSCSI transport re-sends after BUSY / TASK SET FULL and judges the first task: the status table is unchanged; the outcome reported for a status history is C07's statement, and C07 catches it",
    "C16-25": "ISCSIDevice keeps its url without the CHAP secret and logs in with that: the command set selected for the INQUIRY data that comes back is right; 'the device is opened on exactly the url the caller gave' is C19's statement, and C19 catches it",
    "C02-24": "ATA PASS-THROUGH(12) with an lba of 2**24 or more: the lba field of that CDB has 24 bits, C02 quantifies over in-range assignments (the unchanged library drops the upper bits, the changed one adds them into a neighbour; neither is a value the CDB can decode to)",
    "C05-25": "superseded by the repair e4bbb63 it led to: the change needs iSCSI names of at most 15 bytes, for which the unchanged library itself built TransportIDs below SPC's minimum length; since the repair every TransportID has at least 24 bytes, the padding the change adds never happens and the library's output with and without it is identical (C05 generates such names now)",
    "C08-25": "asc / ascq as read-only properties: every condition built, copied, printed or pickled by this version is unchanged; what fails is loading a pickle stream written by the previous release, and C08 quantifies over sense buffers, not over releases",
    "C12-25": "a failed re-attach s(dev) leaves the facade on the previous device instead of the new one: no property states which device a facade is on after an attach that raised (C16 speaks of the command set after an attach, C13 of 'the attached device'), both answers are defensible, so a monitor demanding one of them could raise an alarm on correct code",
    "C14-24": "a new command class and facade method (REPORT SUPPORTED OPERATION CODES) with one field laid out in the wrong byte: no existing table, function or class changes; C14 quantifies over the named table entries and the 256 operation codes, C01/C13 over the commands and the 38 facade methods the library has, and the reference has no statement about a command that does not exist in the unchanged tree",
    "C02-27": "decode_bits converts the bytes at an offset once and reuses a wider number for a narrower field listed after it: no shipped command class lists its fields in that order, so every CDB of every command class decodes as before; layouts of any shape and order are C10's quantifier, and C10 catches it",
    "C02-28": "the facade's writesame10/16 stop sending UNMAP / ANCHOR after the unit rejected one WRITE SAME with ILLEGAL REQUEST 24h: the command classes encode and decode as before; 'all documented arguments reach the CDB' on a facade with a history is C13's statement, and C13 catches it (application sessions against the target model)",
    "C02-29": "the facade's read10/12/16 shorten a transfer that runs past the capacity an earlier READ CAPACITY reported: the command classes are untouched; 'all documented arguments reach the CDB' is C13's statement, and C13 catches it (arguments derived from the unit's answers)",
    "C04-28": "the facade's getlbastatus clips the first descriptor to the block asked for after decoding: the decoder returns what the device sent; 'decodes the data-in buffer as the device left it into the result' is C13's statement, and C13 catches it (extents that contain the block asked for)",
    "C05-28": "the iSCSI transport pads a data-out buffer to a multiple of four bytes before sending: the parameter list the command composes is unchanged; 'the buffers match the transfer the CDB announces, on both transports' is C03's statement, and C03 catches it",
    "C05-29": "MODE SELECT pages are cut or filled to the PAGE LENGTH an earlier MODE SENSE of any device reported: every parameter dictionary on its own builds the standard layout; 'what a class encodes depends on its own arguments only' is C09's statement, and C09 catches it (builds repeated after odd and well-formed responses were decoded)",
    "C08-27": "SCSIDevice swallows the next POWER ON / RESET unit attention after a replug and re-issues the command: conditions that are raised are built and printed as before; 'CHECK CONDITION surfaces' is C07's and 'one command through the current handle' C15's statement, and both catch it",
    "C08-28": "with en_raw_sense the iSCSI transport returns normally (sense attached to the command) when the sense data begins with an ATA status return descriptor: C07 allows exactly that when the caller asked for raw sense (the unchanged SG_IO transport does it for every CHECK CONDITION), and C08 speaks of building and printing a condition, not of whether one is raised",
    "C08-29": "the facade re-issues INQUIRY inside the handler of a 06h/3Fh/03h condition: conditions are built and printed as before; 'one command per facade call, the error passed on' is C13's / C07's statement, and both catch it",
    "C09-29": "the five shipped command-set tables share one OpCode object per identical definition: commands do not share state with each other; 'one enumeration never affects another' is C18's statement and the tables' entries are C14's, and both catch it",
    "C12-28": "writesame10/16 with a count of zero send an explicit count computed from a remembered READ CAPACITY: data written and read back agrees in every history in which the unit is not resized; 'all documented arguments reach the CDB' is C13's statement, and C13 catches it",
    "C13-29": "SCSIDevice repeats the SG_IO call when the binding raises EINTR: each facade call still builds one command and decodes what came back; 'the binding's error reaches the caller, the binding is reached once' is C07's observation, and C07 catches it (every errno from the binding)",
    "C14-27": "scsi_int_to_ba hands out one remembered bytearray for one- and two-byte results: table values and CDB lengths are unchanged until an application edits such an array; 'the caller owns the result of a conversion' is C10's statement, and C10 catches it",
    "C14-29": "the facade picks the group entry of a service-action command by the service action it lists when a private table spells the entries with T10 names: every shipped table and every table built with the shipped keys gives the old result; which command a facade method sends on a caller-built table is C13's statement, and C13 catches it",
    "C17-28": "four shipped tables share one PERSISTENT RESERVE IN / OUT OpCode object: every request on an unedited table is refused or accepted as before; shared table entries are C14's and 'one enumeration never affects another' C18's statement, and both catch it",
    "C19-27": "SCSIDevice.close() forgets file and inode, so the first command on a *released* device re-opens the node: every lifecycle that uses a device between open and close is unchanged; use after release is outside C15's sequences (execute ... then close) and C19's requests, and the unchanged library does the same thing after a replug (a monitor demanding 'no descriptor after a command on a released device' raised an alarm on the unchanged tree and was withdrawn, section 11)",
    "C05-30": "build_cdb fills the CDB the constructor allocated instead of a new one, so a second build on the same command object XORs onto the first: every constructed command, for any parameter dictionary, is byte-identical; 'repeating a build on the same object gives the same bytes' is C02's observation (and C01 / C03 rebuild too), and all three catch it",
    "C08-30": "SCSI.raw_sense() is a context manager without try/finally, so an ATA pass-through that raised leaves raw-sense capture switched on for the facade: conditions that are built are built and printed as before; 'a CHECK CONDITION surfaces unless the caller asked for raw sense' is C07's statement, and C07 catches it (binding errors followed by conditions in one session)",
    "C12-30": "the iSCSI transport announces the transfer length the command was constructed with instead of the size of the buffer it carries: every history C12 plays writes blocks without protection information; 'the buffers match the transfer the CDB announces, on both transports' is C03's statement, and C03 catches it (WRITE with protection information)",
    "C13-30": "SCSIDevice resolves the device path once, at construction (realpath): each facade call still sends one command built from its arguments; 'commands go through a handle to the node that is at the path now' is C15's statement, and C15 catches it (links that are re-pointed)",
    "C14-30": "PERSISTENT RESERVE OUT with REGISTER AND IGNORE EXISTING KEY *and* SPEC_I_PT=1 *and* TransportIDs goes out with service action 00h: SPC-4 6.16.3 allows SPEC_I_PT with REGISTER only (any other service action is terminated with INVALID FIELD IN PARAMETER LIST), so the request is outside C05's valid dictionaries and C01's arguments; the table values C14 walks are unchanged",
    "C16-30": "SCSIDevice.open() returns at once when the device is open, so a caller who handles replugs himself (detection off) keeps the descriptor of the pulled unit: the command set selected for the INQUIRY data that comes back is the right one; 'the handle is on the node at the path' is C15's statement, and C15 catches it (the caller's own open())",
}


def bullets(text):
    out = []
    cur = None
    for line in text.splitlines():
        if re.match(r"^\s*[-*]\s+", line):
            if cur:
                out.append(cur)
            cur = re.sub(r"^\s*[-*]\s+", "", line).strip()
        elif cur is not None and line.strip() and not line.startswith("#"):
            cur += " " + line.strip()
        elif not line.strip():
            if cur:
                out.append(cur)
            cur = None
    if cur:
        out.append(cur)
    return out


def clean(s, n):
    s = re.sub(r"[*`]", "", s)
    s = re.sub(r"\s+", " ", s).strip()
    return s if len(s) <= n else s[: n - 1].rstrip() + "…"


def main():
    rows = []
    for name in sorted(os.listdir(SEEDED), key=lambda x: (x.split("-")[0], int(x.split("-")[1]))):
        d = os.path.join(SEEDED, name)
        mp = os.path.join(d, "meta.json")
        if not os.path.exists(mp):
            continue
        meta = json.load(open(mp))
        notes = open(os.path.join(d, "notes.md")).read() if os.path.exists(os.path.join(d, "notes.md")) else ""
        first = next((l for l in notes.splitlines() if l.strip()), "")
        title = clean(re.sub(r"^#+\s*", "", first), 160)
        title = re.sub(r"^C\d+\s*[/,-]?\s*(change|seeded change)?\s*\d*\s*[-:–—]*\s*", "", title, flags=re.I).strip() or title
        needs = ""
        for b in bullets(notes):
            if re.match(r"(\*\*)?(needed|needs|what is needed|trigger|manifest|requires)", b, re.I):
                needs = re.sub(r"^(\*\*)?[^:]{0,40}:(\*\*)?\s*", "", b)
                break
        if not needs:
            for b in bullets(notes):
                if re.search(r"manifest|trigger", b, re.I):
                    needs = b
                    break
        meta["title"] = title
        meta["needs_to_manifest"] = clean(needs, 600) or "see notes.md"
        if name in OUTSIDE:
            meta["outside_quantifier"] = OUTSIDE[name]
        json.dump(meta, open(mp, "w"), indent=1)
        own = meta.get("property")
        checks = meta.get("checks", {})
        caught = sorted(p for p, r in checks.items() if r.get("rc") == 1)
        inconc = sorted(p for p, r in checks.items() if r.get("rc") == 2)
        own_rc = checks.get(own, {}).get("rc")
        keys = checks.get(own, {}).get("keys", [])[:2]
        rows.append((name, own, title, meta["needs_to_manifest"], own_rc, caught, keys, name in OUTSIDE, len(checks), inconc))
    print("| seed | what was changed | needs, to manifest | own check | also fired | first keys |")
    print("|---|---|---|---|---|---|")
    n_own = n_out = 0
    for name, own, title, needs, own_rc, caught, keys, outside, ntested, inconc in rows:
        others = [p for p in caught if p != own]
        verdict = "caught" if own_rc == 1 else ("outside (see below)" if outside else "MISSED")
        n_own += own_rc == 1
        n_out += outside and own_rc != 1
        print("| %s | %s | %s | %s | %s | %s |" % (name, clean(title, 110), clean(needs, 170), verdict, ", ".join(others) or ("-" if ntested > 1 else "(not run)"),
                                                    "; ".join(k.split(":", 1)[1] if ":" in k else k for k in keys)))
    print()
    print("%d seeded changes; %d caught by the check of the property they were written against; %d judged outside that property's quantifier or statement (reasons below; where another property owns the behaviour, its check catches the change); %d missed."
          % (len(rows), n_own, n_out, len(rows) - n_own - n_out))
    for k, v in OUTSIDE.items():
        print("* %s: %s" % (k, v))


if __name__ == "__main__":
    sys.exit(main())
