#!/usr/bin/env python3
"""Regenerate /verif/MANIFEST.json from the property modules that exist."""
import json
import os

ROOT = os.path.dirname(os.path.dirname(os.path.abspath(__file__)))

BASELINE = ("cd /repo && /venv/bin/python -m pytest -ra -q -p no:cacheprovider --timeout=900 "
            "--continue-on-collection-errors")

P = {
    "C01": ("exploration", "reference-model monitor: independent T10 bit-level decode of every observed CDB",
            "Runs the 42 real constructors and the 38 facade methods (recording device, fake sgio/iscsi) over boundary/walking-bit/flag-product/random arguments, values congruent mod 2^61-1 in sequence, length-only huge buffers for the high bits of allocation/transfer lengths, with other commands built in between, on every opcode table that offers the command, and decodes each observed CDB with an independent (byte,msb,width) reference; held = no disagreement on the executions counted in the evidence. Also: positional calls, print/copy/deep-copy/shallow-copy paths, the facade attached for real to units with random INQUIRY data, write buffers larger than the transfer.",
            "vmon/spec/cdb.py is a correct transcription of SPC-4/SBC-3/SMC-3/MMC-6/SAT-3; arguments that would allocate >16 MiB buffers are clipped (listed in evidence)", "4 C01"),
    "C02": ("exploration", "round-trip monitor on the public static encode/decode with hooked build_cdb",
            "Hooks SCSICommand.build_cdb to capture the exact field values each constructor passes, then checks unmarshall_cdb(cdb)==values, marshall_cdb(unmarshall_cdb(b))==b for masked random byte strings, single-field perturbation independence, rebuilds on the same object (a CDB handed out earlier keeps its values), decoded values after the source buffer was reused, for all 42 classes, each also in a process where the generic base class was used first. Also: rebuilds with a sibling operation code equal the class-level encoder.",
            "round trips are taken right after constructing a command of the same class (C09 covers cross-talk)", "4 C02"),
    "C03": ("exploration", "reference-model monitor: buffers vs the transfer decoded from the wire CDB",
            "Decodes the observed CDB with the reference and compares len(datain)/dataout with the transfer the CDB announces (allocation length, tl x block size, SAT rules, parameter list length), at the command object and at the fake sgio / fake iscsi boundary. Also: replies announcing more than fits, first replies that are not GOOD, every further hand-off, the two-step fetch (allocation length edited in place).",
            "READ CD is checked for sufficiency (documented 3 KiB/sector over-allocation); buffers capped at 16 MiB", "4 C03"),
    "C04": ("exploration", "reference-model monitor: reference-encoded responses vs the library's decode",
            "Encodes value trees with an independent reference encoder for 27 response formats (with and without trailing garbage; list formats with 0..9000 descriptors; MODE SENSE with 0..4 pages; standard INQUIRY of 36..96 bytes) and requires every reference field in the library's result, directly and through the facade. Also: all-zero records, adjoining extent maps, the same response decoded again after the caller edited an earlier result, decoders called with immutable bytes and positional arguments.",
            "vmon/spec/datain.py transcribes the formats correctly; declared reference gaps are listed in the evidence", "4 C04"),
    "C05": ("exploration", "reference parser over library-built parameter lists",
            "Builds MODE SELECT 6/10, PERSISTENT RESERVE OUT and EXTENDED COPY LID1/LID4 commands from generated valid dictionaries and walks the produced list with a reference parser that fails on any length that over/under-runs; CDB parameter list length must equal len(dataout). Also: non-ASCII iSCSI names, LID1 lists beyond 65535 bytes, the TransportID-carrying lists once more in a non-UTF-8 locale.",
            "vmon/spec/dataout.py parsers are correct; MODE DATA LENGTH may be 0 (reserved in MODE SELECT) or honest", "4 C05"),
    "C06": ("exploration", "round-trip monitors (build/parse, parse/build, read-modify-write diff)",
            "unmarshall(marshall(d)) on library-vocabulary dictionaries, marshall(unmarshall(b)) on reference-encoded canonical responses, and single-field read-modify-write diffs confined to the field's reference bit set. Also: descriptor lists given as tuples / one-shot iterables, builds rejected part-way in between, built bytes edited in place.",
            "canonical byte strings come from the C04 reference encoders", "4 C06"),
    "C07": ("fault_enumeration", "fault injection at substituted sgio/iscsi + trace predicates",
            "Injects all 256 status bytes and unique sense buffers (fixed and descriptor format, with real descriptors incl. forwarded sense data of another command) at every position of command sequences (with node re-plugs, repeated UNIT ATTENTIONs, a binding that reuses one static sense buffer) on fake sgio / fake iscsi (with and without raw_sense), through device.execute, with-blocks of device and facade, the generic SCSI.execute over all 42 classes, every facade method and long sessions on one facade object, raw-sense on/off, and evaluates the trace predicates of DESIGN 4 C07 (plus: one binding call per execute, earlier errors unchanged by later commands). Also: errors inspected only after later commands, hand-built commands of every operation code, every assigned ASC/ASCQ, the 25 conditions initiators are tempted to handle themselves on every facade method, no decoding after a failure that returns (raw sense).",
            "the stand-ins model the Python-level API of cython-sgio / cython-iscsi as used by the library", "4 C07"),
    "C08": ("exploration", "reference sense parser vs SCSICheckCondition over enumerated sense buffers",
            "Constructs SCSICheckCondition for enumerated response codes x keys x ASC/ASCQ x lengths (every assigned code cut at every length with real descriptors / SKSV), requires construction/str/print not to raise, key/ASC/ASCQ at the SPC positions, T10 text for the referenced subset; the same for conditions as raised by SCSIDevice and ISCSIDevice over the binding stand-ins. Also: every buffer container type incl. signed chars and a ctypes pointer, copy/pickle, printing to absent/terminal stdout, all descriptor kinds incl. status-only forwarded sense.",
            "ASC/ASCQ reference subset in vmon/spec/sense.py", "4 C08"),
    "C09": ("exploration", "history monitor + deterministic line-level thread scheduler (sys.monitoring)",
            "Solo baselines per command compared inside sequential histories (all ordered pairs, sampled/all triples, base-class and user-derived-class use, reused argument objects, buffers of discarded commands) and inside enumerated single/double-preemption interleavings of 2-3 threads scheduled at library source lines, cold-start schedules each in a fresh interpreter (first-use races), plus free-running stress threads. Also: interpreters with nine different hash seeds print the same builds/decodes, checksum-colliding neighbour responses, fixed probe responses after hostile decodes, refusals in one living thread followed by every command in another.",
            "preemption only at source-line granularity; bounded preemption count", "4 C09"),
    "C10": ("exploration", "reference-model monitor: bit-by-bit reference codec vs converter functions",
            "Random non-overlapping layouts (1..72-bit masks at any alignment, blobs), exhaustive values for narrow fields, random prior buffer contents; encode_dict/decode_bits/scsi_int_to_ba/scsi_ba_to_int compared with vmon/refcodec.py, plus in-vivo replay of the library's own layouts. Also: integers up to 65536 bytes, any field-name spelling, stray entries, wide-item blob buffers, decoded blobs are snapshots.",
            "refcodec.py self-checked at start", "4 C10"),
    "C11": ("exploration", "step-budget monitor (sys.monitoring LINE events) over hostile buffers",
            "Every decoder (27 response formats, all 256 VPD page codes in SPC list shapes, sense data incl. nested forwarded sense) is run on mutated/truncated/byte-replaced/garbage buffers under (a) a logical step budget of 10000+1024*len library line events, (b) an opaque-CPU budget (process CPU time beyond 3us per counted line <= 0.5s+20us/byte) for work hidden inside one step, (c) a tracemalloc peak bound, (d) a proportionality monitor (16x-64x more descriptors may cost at most 2.5x the steps per byte) and (e) a retention monitor (memory left behind by a stream of distinct responses); exceeding a budget aborts the call and is the violation. Also: (f) processor time of the calling thread for responses of 1x and 4x the size up to 2 MiB (verdict beyond 2.2x proportional, three measurements), hostile response streams in (e), and the whole initiator against devices that answer hostilely for ever (also per-command mixes).",
            "bounded liveness: a decoder within budget is 'terminating'; budget slope is 4x the costliest terminating decoder", "4 C11"),
    "C12": ("exploration", "history + executable model (shadow disk) against a reference-decoding target",
            "Random write/write-same/read/sync/capacity/inquiry histories through the facade over SCSIDevice(fake sgio) and ISCSIDevice(fake iscsi) against a strict target that decodes CDBs with the reference only; reads are compared with the caller-side shadow disk; one facade touring several logical units (some without READ CAPACITY(16)); single transfers of 16-32 MiB. Also: prepared commands whose payload windows (memoryview/array/mmap) are filled after construction, units of unmapped block types, results edited by the caller.",
            "vmon/sim/target.py and the binding stand-ins", "4 C12"),
    "C13": ("exploration", "event-order and identity monitor on a recording device",
            "38 facade methods x opcode tables x every subset of optional keyword arguments: execute count, object identity of command and buffers, unmarshall-after-execute ordering, result equals decode of device-left bytes, opcode = table value = T10 value, arguments reach the CDB; device failures injected after the command was taken (9 exception types); long-lived facade sessions of 5-40 mixed calls with all returned commands held; facade attached for real and the device's table assigned afterwards; exactly-once and buffer identity at the binding boundary of both transports. Also: caller-built command sets changed with add()/remove(), devices from init_device used by several users in turn, several LUNs open at once, character special nodes, units with the identity strings of real hardware, write buffers larger than the transfer.",
            "FACADE argument table in vmon/spec/cdb.py fixed at the pinned commit", "4 C13"),
    "C14": ("exploration", "exhaustive walk of live enumerations against a T10 reference table",
            "All 249 opcode entries x 5 tables, all service-action tables, 9 status names, 256 opcode values through init_cdb; second witness /usr/include/scsi/scsi.h; the live tables are walked again after a usage phase (attaches, every command with every opcode object of its value, every facade method) and any entry that appeared/changed is reported; every T10 name is also looked up by attribute on every table; CDB lengths of reused OpCode objects and of build_cdb with another operation code. Also: the command sets as real transport devices present them (new, assigned, attached per device type).",
            "vmon/spec/opcodes.py; SCC-2 maintenance service actions are a declared gap", "4 C14"),
    "C15": ("fault_enumeration", "event-sequence enumeration over real device nodes + invariants at the sgio boundary",
            "All sequences up to a length bound over {exec, exec->CHECK CONDITION, both also with en_raw_sense, replug, unplug, replug+close failure, replug+re-open failure} + {close, with-exit, with-exit-by-exception, facade with-exit} x detect on/off x ro/rw x {regular file, symlink} on real nodes under /dev/shm, plus facade re-attach sequences; inode/closed/leak invariants evaluated inside the fake sgio.execute and at quiescent points via /proc/self/fd, also after the released objects were dropped. Also: character special nodes, nodes vanishing as dangling/self-referring links or with their directory, two users of one node, iSCSI re-open after release, the binding raising OSError, devices used and released in a forked child.",
            "replug = rename-over (new inode); TOCTOU windows inside one execute() are outside the quantifier", "4 C15"),
    "C16": ("exploration", "exhaustive attach enumeration against a simulated target",
            "32 device types x 8 qualifiers x 2 transports attaches, ordered pairs/triples of re-attach over fresh devices (iSCSI: LUNs of one target), a facade moved back and forth between live devices, attach under pending CHECK CONDITIONs; checks the recorded INQUIRY CDB, the selected opcode table, primary and service-action commands actually sent afterwards, and that no command goes through a closed handle. Also: every VERSION / RESPONSE DATA FORMAT, identity strings of real hardware, nodes named through directory links and '..', a device copy dropped before the attach.",
            "fake transports + target", "4 C16"),
    "C17": ("exploration", "refusal monitor with a recording device",
            "Invalid-class inputs for every refusal in the statement through constructors and facade; requires the specific exception class name, zero execute calls, no object returned; valid neighbours must not be refused. Also: a second facade on a device whose first facade has a block size, every command class/encoder/facade method with every lengthless operation code, device types outside the table, iSCSI names containing the ISID separator.",
            "class-name match (metaclass creates per-class exception types)", "4 C17"),
    "C18": ("exploration", "history + executable dict model in lock-step",
            "Random add/remove/lookup/reverse-lookup/keys sequences on several Enum objects alive at once vs a dict model. Also: the shipped enumerations (5 sets + every entry's service actions) do not affect one another; OpCode.serviceaction re-read at every comparison; reverse lookups of values 256 away, negative, huge, and of objects that carry a number.",
            "names colliding with the Enum/type API are excluded by construction", "4 C18"),
    "C19": ("exploration", "configuration enumeration in child interpreters with audit hooks",
            "4 binding-presence configurations x all modules x device strings (nodes as under /dev, symlinks, CHAP/IPv6 URLs, LUNs up to 65535, strings with formatting characters) x rw x initiator names; sys.addaudithook records open/socket events; NotImplementedError before any open/connect; path, access mode, connect arguments and command LUN as requested. Also: the library as built (setup.py build) and packed into a zip archive, six binding release strings, device objects that are false / sized / slotted / with unusual execute() signatures, every initiator name format, strings a URL parser would reject, opens the system refuses.",
            "stand-in modules model binding presence", "4 C19"),
}


COMMON_LATER = (" All generators also draw from the integer literals of the tree under test (vmon/srcdict.py; literals new against the recorded baseline are preferred and combined), "
                "codes that mean something to a device, and values related to one another (equal / adjacent / double).")
LATER = {
    "C01": " Rounds 9-10: ghost commands with other values, allocation lengths the process has no memory for, allocation lengths 0..40 x every small-field value.",
    "C03": " Rounds 9-10: units announcing the largest lengths, WRITE SAME blocks with protection information, all ATA protocol flags around new literals.",
    "C04": " Rounds 9-10: pages without a field table asked for alone, the power condition page, IDENTIFY data with valid / wrong integrity words.",
    "C05": " Rounds 9-10: iSCSI names of 13-15 bytes (led to fix e4bbb63), identification descriptors from decoded designator dictionaries, facades with their own block size.",
    "C06": " Rounds 9-10: user subclasses with own tables, dictionaries in any key order at every level.",
    "C07": " Rounds 9-10: the binding itself raising (every errno), CHECK CONDITION without sense data, failing logouts, polling loops, every facade method x every condition initiators act on x sense forms with field pointers.",
    "C08": " Rounds 9-10: conditions in boolean contexts; new literals as ASC/ASCQ pairs with every key, format and length.",
    "C09": " Rounds 9-10: re-entrant builds inside builds, shared argument objects under two preemptions, nine hash seeds, commands written directly on SCSICommand, odd responses decoded first in a fresh interpreter and again after well-formed ones, builds repeated after decodes.",
    "C10": " Rounds 9-10: layouts edited in place, records supplying some fields among up to 120 other entries, encode targets of five buffer kinds.",
    "C11": " Rounds 9-10: processor-time scaling up to 2 MiB and a factor of 16 for crafted orderings, format-hostile texts, structures for decoders of newly named codes on every enumerated page code.",
    "C12": " Rounds 9-10: LBAs uniform in magnitude, prepared READ CAPACITY / INQUIRY objects re-sent while the unit grows.",
    "C13": " Rounds 9-10: application sessions against the target model with arguments derived from the unit's answers and injected conditions; private tables with T10-named group entries.",
    "C14": " Rounds 9-10: OpCode subclasses whose value is computed.",
    "C15": " Rounds 9-10: a process without standard input, BaseException exits, commands with data phases, nodes moved aside / hard-linked, thousands of quiet commands before the event.",
    "C16": " Rounds 9-10: interrupted attaches, character special nodes, every type x qualifier x INQUIRY length x legacy flag bytes.",
    "C17": " Rounds 9-10: near-miss names, application subclasses with a mix-in first, texts of one EXTENDED COPY table used for another.",
    "C18": " Rounds 9-10: values whose __eq__/__hash__/__repr__ raise, parameter-like names, str names with attributes of their own, sibling-type lookups.",
    "C19": " Rounds 9-10: every import spelling in fresh interpreters, devices that are context managers of their own, pickled devices loaded without bindings.",
}


def main():
    checks = []
    na = []
    for pid in sorted(P):
        lvl, tech, text, note, ref = P[pid]
        text = text + LATER.get(pid, "") + COMMON_LATER
        if os.path.exists(os.path.join(ROOT, "vmon", "props", pid.lower() + ".py")):
            checks.append({
                "property_id": pid,
                "quick_cmd": "./check %s --tier quick" % pid,
                "thorough_cmd": "./check %s --tier thorough" % pid,
                "evidence_file": "/verif/evidence/%s.json" % pid,
                "replay_cmd_template": "./check %s --replay {path}" % pid,
                "engine": "vmon",
                "level_claimed": {"category": lvl, "text": text, "design_ref": "DESIGN.md section " + ref},
                "level_note": note,
                "technique": "runtime monitoring: " + tech,
            })
        else:
            na.append({"property_id": pid, "reason": "check not yet implemented at this commit (planned: DESIGN.md section %s)" % ref})
    m = {
        "version": 1,
        "setup_cmd": "/venv/bin/python -B -m vmon.cli --self-check",
        "hooks": {
            "guard": "PYSCSI_VERIF",
            "enable": "no instrumentation is added to /repo: monitors patch attributes at run time, substitute sys.modules['sgio'|'iscsi'], and use sys.monitoring / sys.addaudithook from /verif/vmon; the guard name is reserved and unused",
            "baseline_off_cmd": BASELINE,
            "source_commits": [],
            "add_only": True,
        },
        "engines": [{"name": "vmon", "path": "/verif/vmon", "serves_properties": [c["property_id"] for c in checks],
                     "kind_free_text": "runtime monitors (reference-model oracles, hooks with evaluation counters, fault-injecting binding stand-ins, sys.monitoring step counter and deterministic scheduler) driven by seeded workloads, sharded over 16 cores"}],
        "checks": checks,
        "not_applicable": na,
        "notes": "Known findings: /verif/KNOWN_FINDINGS.txt. Exit 0 held / 1 violation / 2 inconclusive. VERIF_SEED seeds all generators; VERIF_REPO selects the tree (default /repo).",
    }
    with open(os.path.join(ROOT, "MANIFEST.json"), "w") as f:
        json.dump(m, f, indent=1)
        f.write("\n")
    print("claimed:", [c["property_id"] for c in checks])


if __name__ == "__main__":
    main()
