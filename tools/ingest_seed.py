#!/usr/bin/env python3
"""tools/ingest_seed.py C08 1 [--props all]: copy /tmp/seed/out-C08/1 to /verif/seeded/C08-1, run the
checks against it on a scratch copy (tools/seedtest.py) and write meta.json."""
import json, os, shutil, subprocess, sys
ROOT = os.path.dirname(os.path.dirname(os.path.abspath(__file__)))
pid, k = sys.argv[1], sys.argv[2]
props = sys.argv[4] if len(sys.argv) > 4 and sys.argv[3] == "--props" else pid
src = "/tmp/seed/out-%s/%s" % (pid, k)
dst = os.path.join(ROOT, "seeded", "%s-%s" % (pid, k))
if os.path.isdir(src):
    os.makedirs(dst, exist_ok=True)
    for f in ("patch.diff", "demo.py", "notes.md"):
        if f == "patch.diff" and os.path.exists(os.path.join(dst, "patch.orig.diff")):
            continue  # rebased by hand onto a later fix: keep
        if f == "demo.py" and os.path.exists(os.path.join(dst, "demo.orig.py")):
            continue  # adapted by hand to a later fix of /repo: keep
        if os.path.exists(os.path.join(src, f)):
            shutil.copy(os.path.join(src, f), os.path.join(dst, f))
p = subprocess.run([sys.executable, os.path.join(ROOT, "tools", "seedtest.py"), dst, "--props", props], stdout=subprocess.PIPE, stderr=subprocess.STDOUT)
t = p.stdout.decode()
res = json.loads(t[t.index("{"):])
meta_path = os.path.join(dst, "meta.json")
meta = json.load(open(meta_path)) if os.path.exists(meta_path) else {}
notes = open(os.path.join(dst, "notes.md")).read() if os.path.exists(os.path.join(dst, "notes.md")) else ""
meta.update({
    "property": pid,
    "origin": "independent sub-agent given only the property text and a scratch worktree",
    "needs_to_manifest": meta.get("needs_to_manifest") or "see notes.md",
    "confirmed": {k2: res.get(k2) for k2 in ("applied", "tests_pass_with_change", "tests_summary", "demo_fails_with_change", "demo_passes_without")},
    "what_was_run": "tools/seedtest.py: patch applied to a scratch copy of /repo at %s, repository suite, demo.py on copy and on /repo, ./check <id> --tier quick with VERIF_REPO=<copy>" % subprocess.run(["git", "-C", "/repo", "rev-parse", "--short", "HEAD"], stdout=subprocess.PIPE).stdout.decode().strip(),
})
checks = meta.get("checks", {})
checks.update(res.get("checks", {}))
meta["checks"] = checks
meta["caught_by"] = sorted(p2 for p2, r in checks.items() if r.get("rc") == 1)
json.dump(meta, open(meta_path, "w"), indent=1)
print(pid, k, "tests_pass=%s demo_fails=%s demo_ok_clean=%s caught_by=%s" % (res.get("tests_pass_with_change"), res.get("demo_fails_with_change"), res.get("demo_passes_without"), meta["caught_by"]))
for p2, r in res.get("checks", {}).items():
    print("   ", p2, "rc=%s" % r["rc"], r["keys"][:4], r.get("inconclusive", "")[:1])
