#!/bin/sh
# tools/run_all.sh [tier] [props...]: run checks one after the other, print one line per check
cd "$(dirname "$0")/.." || exit 2
tier="${1:-quick}"; shift
props="${*:-C01 C02 C03 C04 C05 C06 C07 C08 C09 C10 C11 C12 C13 C14 C15 C16 C17 C18 C19}"
rc=0
for p in $props; do
  start=$(date +%s)
  out=$(./check "$p" --tier "$tier" 2>&1); r=$?
  end=$(date +%s)
  echo "== $p tier=$tier rc=$r wall=$((end-start))s"
  echo "$out" | grep -v "^KNOWN-FINDING" | grep -v "conda" | cut -c1-300
  [ $r -ne 0 ] && rc=1
done
exit $rc
