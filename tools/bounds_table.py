#!/usr/bin/env python3
"""Rewrite the 'cases, wall' columns of DESIGN.md section 9.2 from two run_all logs (quick, thorough).

    tools/bounds_table.py <quick log> <thorough log>
"""
import re
import sys


def parse(path):
    out = {}
    walls = {}
    for line in open(path, errors="replace"):
        m = re.match(r"== (C\d\d) tier=\w+ rc=(\d+) wall=(\d+)s", line)
        if m:
            walls[m.group(1)] = int(m.group(3))
        m = re.match(r"HELD property=(C\d\d) tier=\w+ seed=\d+ evaluations=(\d+) distinct_nontrivial=(\d+)", line)
        if m:
            out[m.group(1)] = [int(m.group(2)), int(m.group(3)), None]
    for k in out:
        out[k][2] = walls.get(k)
    return out


def fmt(n):
    if n >= 1000000:
        return "%.1f M" % (n / 1e6)
    if n >= 1000:
        return "%.0f k" % (n / 1e3)
    return str(n)


def main():
    q, t = parse(sys.argv[1]), parse(sys.argv[2])
    p = "/verif/DESIGN.md"
    lines = open(p).read().split("\n")
    for i, l in enumerate(lines):
        m = re.match(r"^\| (C\d\d) \| ([^|]*) \| ([^|]*) \| (.*) \|$", l)
        if m and m.group(1) in q and m.group(1) in t and "9.2" in "".join(lines[max(0, i - 30):i]):
            pid = m.group(1)
            qs = "%s cases (%s distinct non-trivial), %s s" % (fmt(q[pid][0]), fmt(q[pid][1]), q[pid][2])
            ts = "%s (%s), %s s" % (fmt(t[pid][0]), fmt(t[pid][1]), t[pid][2])
            lines[i] = "| %s | %s | %s | %s |" % (pid, qs, ts, m.group(4))
    open(p, "w").write("\n".join(lines))


if __name__ == "__main__":
    main()
