#!/usr/bin/env python3
"""tools/mkmut.py NAME PROP FILE OLD NEW [FILE OLD NEW ...]: write vmon/selftest/mutants/NAME/{patch.diff,meta.json}"""
import difflib, json, os, sys
ROOT = os.path.dirname(os.path.dirname(os.path.abspath(__file__)))
name, prop = sys.argv[1], sys.argv[2]
trip = sys.argv[3:]
out = os.path.join(ROOT, "vmon", "selftest", "mutants", name)
os.makedirs(out, exist_ok=True)
diff = ""
for i in range(0, len(trip), 3):
    f, old, new = trip[i:i + 3]
    old = old.encode().decode("unicode_escape"); new = new.encode().decode("unicode_escape")
    src = open(os.path.join("/repo", f)).read()
    assert src.count(old) == 1, (f, old, src.count(old))
    dst = src.replace(old, new)
    diff += "".join(difflib.unified_diff(src.splitlines(True), dst.splitlines(True), "a/" + f, "b/" + f))
open(os.path.join(out, "patch.diff"), "w").write(diff)
json.dump({"property": prop, "origin": "own mutant (DESIGN.md 6.3)", "edits": [trip[i] for i in range(0, len(trip), 3)]}, open(os.path.join(out, "meta.json"), "w"), indent=1)
print("wrote", out)
