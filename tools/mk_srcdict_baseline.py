#!/usr/bin/env python3
"""Record the integer and string literals of /repo's pyscsi package as the baseline of vmon/srcdict.py
(run after every commit to /repo that the machinery itself makes; literals a later working tree has in addition are 'novel')."""
import json
import os
import sys

sys.path.insert(0, os.path.join(os.path.dirname(os.path.abspath(__file__)), ".."))
from vmon import srcdict  # noqa: E402

root = sys.argv[1] if len(sys.argv) > 1 else "/repo"
data = srcdict.harvest(root)
with open(srcdict.BASELINE, "w") as f:
    json.dump(data, f, indent=0, sort_keys=True)
print("%d files, %d integer literals, %d strings" % (len(data), len({v for r in data.values() for v in r["ints"]}), len({v for r in data.values() for v in r["strs"]})))
