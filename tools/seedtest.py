#!/usr/bin/env python3
"""Run the checks against a seeded change on a scratch copy of /repo.

    tools/seedtest.py <dir with patch.diff [demo.py]> [--props C01,C02|all] [--tier quick]

Steps: copy /repo (without .git) to /dev/shm, apply patch.diff there, run the
repository's own test suite on the copy (must pass), run demo.py on the copy
(must fail) and on /repo (must pass), then run the named checks with
VERIF_REPO=<copy> and VERIF_OUT=<scratch> and report which fired.  The copy is
removed afterwards.  /repo itself is never modified.
"""
import argparse
import json
import os
import re
import shutil
import subprocess
import sys
import tempfile

ROOT = os.path.dirname(os.path.dirname(os.path.abspath(__file__)))
ALL = ["C%02d" % i for i in range(1, 20)]


def sh(cmd, cwd=None, env=None, timeout=1800):
    p = subprocess.run(cmd, cwd=cwd, env=env, stdout=subprocess.PIPE, stderr=subprocess.STDOUT, timeout=timeout)
    return p.returncode, p.stdout.decode(errors="replace")


def main():
    ap = argparse.ArgumentParser()
    ap.add_argument("seed")
    ap.add_argument("--props", default=None)
    ap.add_argument("--tier", default="quick")
    ap.add_argument("--keep", action="store_true")
    a = ap.parse_args()
    seed = os.path.abspath(a.seed)
    patch = os.path.join(seed, "patch.diff")
    demo = os.path.join(seed, "demo.py")
    meta = {}
    if os.path.exists(os.path.join(seed, "meta.json")):
        meta = json.load(open(os.path.join(seed, "meta.json")))
    props = ALL if a.props == "all" else (a.props.split(",") if a.props else [meta.get("property") or "C01"])
    scratch = tempfile.mkdtemp(prefix="vmon-mut-", dir="/dev/shm")
    copy = os.path.join(scratch, "repo")
    out = {"seed": seed, "props": props}
    try:
        shutil.copytree("/repo", copy, ignore=shutil.ignore_patterns(".git", "__pycache__", "*.egg-info", ".pytest_cache"))
        rc, txt = sh(["git", "apply", "--whitespace=nowarn", patch], cwd=copy)
        if rc != 0:
            rc, txt = sh(["patch", "-p1", "-i", patch], cwd=copy)
        out["applied"] = rc == 0
        if rc != 0:
            out["apply_output"] = txt[-800:]
            print(json.dumps(out, indent=1))
            return 2
        env = dict(os.environ, PYTHONPATH=copy, PYTHONDONTWRITEBYTECODE="1")
        rc, txt = sh(["/venv/bin/python", "-m", "pytest", "-q", "-p", "no:cacheprovider", "-x"], cwd=copy, env=env)
        out["tests_pass_with_change"] = rc == 0
        out["tests_summary"] = txt.strip().splitlines()[-1] if txt.strip() else ""
        m = re.search(r"(\d+) passed", txt)
        out["tests_passed"] = int(m.group(1)) if m else 0
        if os.path.exists(demo):
            rc1, t1 = sh(["/venv/bin/python", demo, copy], cwd=copy, env=env, timeout=300)
            rc0, t0 = sh(["/venv/bin/python", demo, "/repo"], cwd="/repo", env=dict(os.environ, PYTHONPATH="/repo", PYTHONDONTWRITEBYTECODE="1"), timeout=300)
            out["demo_fails_with_change"] = rc1 != 0
            out["demo_passes_without"] = rc0 == 0
            out["demo_output_with_change"] = t1.strip()[-300:]
        cenv = dict(os.environ, VERIF_REPO=copy, VERIF_OUT=os.path.join(scratch, "out"))
        fired = {}
        for p in props:
            rc, txt = sh([os.path.join(ROOT, "check"), p, "--tier", a.tier], cwd=ROOT, env=cenv, timeout=3600)
            keys = re.findall(r"key=(\S+?):? ", txt)
            keys = [k.rstrip(":") for k in keys]
            fired[p] = {"rc": rc, "violations": len(re.findall(r"^VIOLATION ", txt, re.M)), "keys": keys[:12]}
            if rc == 2:
                fired[p]["inconclusive"] = [l for l in txt.splitlines() if l.startswith("INCONCLUSIVE")][:3]
        out["checks"] = fired
        out["caught_by"] = [p for p, r in fired.items() if r["rc"] == 1]
    finally:
        if not a.keep:
            shutil.rmtree(scratch, ignore_errors=True)
    print(json.dumps(out, indent=1))
    return 0


if __name__ == "__main__":
    sys.exit(main())
