#!/usr/bin/env python3
"""Run the repository's own test suite with monitors active (DESIGN.md 6.2):
 - every real encode_dict/decode_bits call is replayed on the reference codec (C10 in-vivo oracle),
 - every CDB a constructor produces is decoded by the reference layout of its class (C01 oracle, fields only),
 - library LINE events are counted.
A monitor that fires here is either too strict or a defect the tests do not assert."""
import os
import sys

ROOT = os.path.dirname(os.path.dirname(os.path.abspath(__file__)))
sys.path.insert(0, ROOT)
from vmon import repo  # noqa: E402

repo.activate()
import importlib  # noqa: E402
import pkgutil  # noqa: E402

import pytest  # noqa: E402

import pyscsi.pyscsi  # noqa: E402
import pyscsi.utils.converter as conv  # noqa: E402
from vmon import refcodec as R  # noqa: E402
from vmon.ctx import Ctx  # noqa: E402
from vmon.props.c10 import field_of  # noqa: E402
from vmon.spec import cdb as S  # noqa: E402

ctx = Ctx("TESTS", "quick", 0, {"id": "repo-tests"})
real_enc, real_dec = conv.encode_dict, conv.decode_bits


def enc(data_dict, check_dict, result):
    before = bytearray(result)
    real_enc(data_dict, check_dict, result)
    ref = bytearray(before)
    ok = True
    for k, v in data_dict.items():
        c = check_dict.get(k)
        if c is None:
            continue
        if len(c) == 2:
            f = field_of(c[0], c[1])
            if f is None or not isinstance(v, int) or v < 0 or v >> f[2]:
                ok = False
                continue
            try:
                if R.get(before, *f):
                    ok = False
                    continue
                R.put(ref, f[0], f[1], f[2], v)
            except IndexError:
                ok = False
        else:
            ok = False
    ctx.count("encode_calls")
    if ok and bytes(ref) != bytes(result):
        ctx.fail("tests:invivo.encode", "encode_dict result differs from reference", {"data": dict(data_dict), "layout": {k: list(v) for k, v in check_dict.items()}})


def dec(data, check_dict, result_dict):
    real_dec(data, check_dict, result_dict)
    ctx.count("decode_calls")
    for k, c in check_dict.items():
        if len(c) == 2:
            f = field_of(c[0], c[1])
            if f is None or f[0] + (7 - f[1] + f[2] + 7) // 8 > len(data):
                continue
            if result_dict.get(k) != R.get(data, *f):
                ctx.fail("tests:invivo.decode", "decode_bits %s differs from reference" % k, {"field": k})


for mi in pkgutil.iter_modules(pyscsi.pyscsi.__path__):
    m = importlib.import_module("pyscsi.pyscsi." + mi.name)
    if getattr(m, "encode_dict", None) is real_enc:
        m.encode_dict = enc
    if getattr(m, "decode_bits", None) is real_dec:
        m.decode_bits = dec
conv.encode_dict, conv.decode_bits = enc, dec

from pyscsi.pyscsi.scsi_command import SCSICommand  # noqa: E402

BYCLS = {}
for c in S.COMMANDS.values():
    BYCLS[(c.module, c.cls)] = c
orig_init = {}


def watch_cdb(cmd):
    c = BYCLS.get((type(cmd).__module__, type(cmd).__name__))
    if c is None or cmd.cdb is None:
        return
    ctx.count("cdbs_seen")
    if len(cmd.cdb) != c.length or cmd.cdb[0] != c.op:
        ctx.fail("tests:cdb.length_or_opcode.%s" % c.name, "cdb %s" % bytes(cmd.cdb).hex(), {"cmd": c.name})
    m = R.mask_bytes(c.length, list(c.fields.values()) + [(0, 7, 8)])
    if len(cmd.cdb) == c.length and any(cmd.cdb[i] & ~m[i] & 0xFF for i in range(c.length)):
        ctx.fail("tests:cdb.residual.%s" % c.name, "bits outside every reference field: %s" % bytes(cmd.cdb).hex(), {"cmd": c.name})


orig_build = SCSICommand.build_cdb


def build(self, **kw):
    r = orig_build(self, **kw)
    self._cdb = r
    watch_cdb(self)
    return r


SCSICommand.build_cdb = build
from vmon.mon.steps import StepMonitor  # noqa: E402

sm = StepMonitor()
out, steps = sm.run(lambda: ctx.count("pytest_rc", pytest.main(["-q", "-p", "no:cacheprovider", os.path.join(repo.REPO, "tests")])), None)
print("pytest under monitors: outcome=%s library LINE events=%d" % (out, steps))
print("counters:", ctx.counters)
for k, f in ctx.failures.items():
    print("MONITOR FIRED:", k, f["text"], f["witness"])
sys.exit(1 if ctx.failures or ctx.counters.get("pytest_rc") else 0)
