"""Seeded generators: boundary sets, walking bits, flag products, byte strings."""
import itertools


def boundary(width):
    """{0,1,max,msb} + every single-bit value + every all-ones-minus-one-bit."""
    if width <= 0:
        return [0]
    full = (1 << width) - 1
    s = {0, 1, full, 1 << (width - 1)}
    for i in range(width):
        s.add(1 << i)
        s.add(full ^ (1 << i))
    return sorted(s)


def small_boundary(width):
    full = (1 << width) - 1
    return sorted({0, 1, full, 1 << (width - 1), full >> 1})


_burst = [0]


def source_value(rng, width, hi=None):
    """a literal of the library under test (or a neighbour) that fits `width` bits and `hi`, or None: values a defect with a
    narrow trigger has written down (see vmon/srcdict.py). Literals the recorded baseline does not have are preferred, and come
    in bursts so that several fields of one request take such values together."""
    if width <= 0:
        return None
    from vmon import srcdict

    nv = srcdict.novel(width)
    if hi is not None:
        nv = [v for v in nv if v <= hi]
    if nv:
        if _burst[0] > 0:
            _burst[0] -= 1
            if rng.random() < 0.8:
                return rng.choice(nv)
        elif rng.random() < 0.03:
            _burst[0] = 12
        if rng.random() < 0.2:
            return rng.choice(nv)
    if rng.random() < 0.06:
        c = srcdict.candidates(width)
        if hi is not None:
            c = [v for v in c if v <= hi]
        if c:
            return rng.choice(c)
    return None


def related_pool(rng):
    """values that stand in a relation to one another (equal, adjacent, double / half, complementary to a power of two): what
    the fields of real structures do - a source address that is the element's own, a last block right before the first aligned
    one, a count equal to a length - and what independent draws of wide fields never produce"""
    x = rng.choice([rng.randint(1, 40), rng.getrandbits(rng.randint(1, 16)) + 1, rng.getrandbits(rng.randint(17, 40)) + 0x10000, 1 << rng.randint(1, 40)])
    return [x - 1, x, x, x + 1, 2 * x, x // 2, x - 1, x + 1]


def related_value(rng, width, pool):
    full = (1 << width) - 1
    v = rng.choice(pool)
    if rng.random() < 0.25:
        # what is left of the field's range behind / in front of a value of the pool (a start so that start + count ends exactly at
        # the end of the address space)
        v = (full + 1 - v) if rng.random() < 0.7 else (full - v)
    return v if 0 <= v <= full else v & full


def rand_value(rng, width):
    """random value biased to interesting shapes"""
    v = source_value(rng, width)
    if v is not None:
        return v
    r = rng.random()
    full = (1 << width) - 1
    if r < 0.15:
        return rng.choice(boundary(width))
    if r < 0.25:
        # byte-pattern values make misplaced bytes visible
        v = 0
        for i in range((width + 7) // 8):
            v = (v << 8) | ((0x11 * (i + 1)) & 0xFF)
        return v & full
    if r < 0.45 and width > 8:
        # uniform in magnitude: interior ranges of a wide field (a 28-bit LBA in a 48-bit field) are as likely as its top range
        return rng.getrandbits(rng.randint(1, width))
    return rng.getrandbits(width) if width else 0


def distinct_bytes_value(width):
    """value whose bytes are all different and non-zero (0x01 0x02 0x03 ...),
    so a byte swap or shift shows up in the decoded field."""
    v = 0
    n = (width + 7) // 8
    for i in range(n):
        v = (v << 8) | (i + 1)
    return v & ((1 << width) - 1)


def flag_products(names, limit=256, rng=None):
    """all 0/1 assignments to `names` (<= limit), else pairwise + random."""
    n = len(names)
    if n == 0:
        yield {}
        return
    if 2**n <= limit:
        for bits in itertools.product((0, 1), repeat=n):
            yield dict(zip(names, bits))
        return
    yield {k: 0 for k in names}
    yield {k: 1 for k in names}
    for a, b in itertools.combinations(names, 2):
        for va, vb in ((0, 1), (1, 0), (1, 1)):
            d = {k: 0 for k in names}
            d[a], d[b] = va, vb
            yield d
    if rng is not None:
        for _ in range(limit):
            yield {k: rng.getrandbits(1) for k in names}


def byte_string(rng, n, kind=None):
    kind = kind or rng.choice(["zero", "ff", "asc", "rand", "rand", "text", "hex", "digits"])
    if kind in ("hex", "digits"):
        # binary fields whose bytes all happen to be characters of one class (hex digits, decimal digits): a name, a serial number
        alphabet = b"0123456789abcdefABCDEF" if kind == "hex" else b"0123456789"
        if kind == "hex" and rng.random() < 0.5:
            alphabet = b"0123456789abcdef"
        return bytes(rng.choice(alphabet) for _ in range(n))
    if kind == "zero":
        return bytes(n)
    if kind == "ff":
        return b"\xff" * n
    if kind == "asc":
        return bytes((i + 1) & 0xFF for i in range(n))
    if kind == "text":
        from vmon import srcdict

        lits = srcdict.novel_strings()
        if lits and n and rng.random() < 0.3:
            # a text the library's source spells out and the recorded baseline does not have, cut or padded to the field
            t = rng.choice(lits).encode("utf-8", "replace")[:n]
            return t + b" " * (n - len(t))
        return bytes(rng.choice(b"ABCDEFGHIJKLMNOPQRSTUVWXYZ0123456789-_.") for _ in range(n))
    return bytes(rng.getrandbits(8) for _ in range(n))


def nonzero(d):
    """at least one non-zero / non-empty leaf"""
    if isinstance(d, dict):
        return any(nonzero(v) for v in d.values())
    if isinstance(d, (list, tuple)):
        return any(nonzero(v) for v in d)
    if isinstance(d, (bytes, bytearray)):
        return any(d)
    if isinstance(d, str):
        return bool(d)
    return bool(d)


def count_nonzero(d):
    if isinstance(d, dict):
        return sum(count_nonzero(v) for v in d.values())
    if isinstance(d, (list, tuple)):
        return sum(count_nonzero(v) for v in d)
    if isinstance(d, (bytes, bytearray)):
        return 1 if any(d) else 0
    return 1 if d else 0
