"""One scheduled two-thread run in a *fresh interpreter* (nothing of pyscsi used before): exposes races that exist
only at first use (lazily built tables, caches published before they are filled).

    python -m vmon.cold '{"progs": ["ExtendedCopy5", "ExtendedCopy5"], "salts": [0, 1], "schedule": {"7": 1}}'
prints one JSON line: per-thread outcome compared with solo baselines computed *afterwards*.
"""
import json
import sys


def main():
    spec = json.loads(sys.argv[1])
    from vmon import repo

    repo.activate()
    from vmon.mon.sched import Scheduler
    from vmon.props.c09 import fixed_args, observe
    from vmon.spec import cdb as S

    progs = spec["progs"]
    if any(p.startswith("data:") for p in progs):
        return data_main(spec)
    cs = [S.COMMANDS[p] for p in progs]
    # modules are imported up front (imports define, they use nothing): a thread preempted inside an import would hold
    # the import lock and manufacture a deadlock the program cannot have
    import pyscsi.pyscsi.scsi_enum_command  # noqa: F401
    import pyscsi.utils.converter  # noqa: F401

    for c in cs:
        c.load()
    args = [fixed_args(c, salt) for c, salt in zip(cs, spec["salts"])]
    sch = Scheduler()
    try:
        r = sch.run([(lambda c=c, a=a: observe(c, a)[1]) for c, a in zip(cs, args)], {int(k): v for k, v in spec["schedule"].items()})
    finally:
        sch.close()
    out = {"steps": r["steps"], "per_thread": r["per_thread"], "interleaved": r["interleaved"], "hung": r["hung"], "threads": []}
    for i, c in enumerate(cs):
        if r["errors"][i] is not None:
            out["threads"].append({"prog": progs[i], "error": "%s: %s" % (type(r["errors"][i]).__name__, r["errors"][i])})
            continue
        try:
            solo = observe(c, args[i])[1]
        except Exception as e:  # noqa: BLE001
            out["threads"].append({"prog": progs[i], "baseline_error": repr(e)})
            continue
        got = r["results"][i]
        if got is None:
            out["threads"].append({"prog": progs[i], "unfinished": True})
            continue
        what = ["cdb", "datain_len", "dataout", "decode", "encode"]
        out["threads"].append({"prog": progs[i], "differs": [what[j] for j in range(5) if got[j] != solo[j]]})
    print(json.dumps(out))


def data_main(spec):
    """threads that decode a device response of their own ("data:<format>:<descriptors>"); judged against the *reference*
    expectation, not against a later solo run in this interpreter (first-use damage may be permanent)"""
    import random

    from vmon.mon.sched import Scheduler
    from vmon.spec import datain as D

    import pyscsi.pyscsi.scsi_enum_command  # noqa: F401
    import pyscsi.utils.converter  # noqa: F401

    jobs = []
    for p, salt in zip(spec["progs"], spec["salts"]):
        _d, fname, count = (p.split(":") + ["3"])[:3]
        f = D.FORMATS[fname]
        f.lib_cls()
        rng = random.Random("cold:%s:%s" % (p, salt))
        v = f.gen(rng, ("count", int(count), 0) if fname == "reporttargetportgroups" else ("count", int(count)))
        jobs.append((p, f, v, bytes(f.encode(v))))
    sch = Scheduler()
    try:
        r = sch.run([(lambda f=f, v=v, b=b: f.lib_decode(b, v)) for _p, f, v, b in jobs], {int(k): v for k, v in spec["schedule"].items()})
    finally:
        sch.close()
    out = {"steps": r["steps"], "per_thread": r["per_thread"], "interleaved": r["interleaved"], "hung": r["hung"], "threads": []}
    for i, (p, f, v, b) in enumerate(jobs):
        if r["errors"][i] is not None:
            out["threads"].append({"prog": p, "error": "%s: %s" % (type(r["errors"][i]).__name__, r["errors"][i])})
            continue
        diffs = D.subset_diff(f.expect(v), r["results"][i]) if r["results"][i] is not None else [("unfinished", "")]
        # and once more afterwards, single-threaded, with a fresh response of the same size: lasting damage shows here
        longest = max(int((q.split(":") + ["3"])[2]) for q in spec["progs"])
        v2 = f.gen(random.Random("cold-after:%s" % p), ("count", longest + 40, 0) if f.name == "reporttargetportgroups" else ("count", longest + 40))
        try:
            later = D.subset_diff(f.expect(v2), f.lib_decode(f.encode(v2), v2))
        except Exception as e:  # noqa: BLE001
            later = [("raises", repr(e))]
        out["threads"].append({"prog": p, "differs": (["decode:%s" % diffs[0][0]] if diffs else []) + (["decode_afterwards:%s" % later[0][0]] if later else [])})
    print(json.dumps(out))


if __name__ == "__main__":
    main()
