"""Launcher: tiers, seeds, sharding over the cores, verdict, evidence.

    python -m vmon.cli C07 --tier quick
    python -m vmon.cli C07 --replay replays/C07-....json
    python -m vmon.cli --self-check

Exit codes: 0 held on everything observed (known findings are printed as
KNOWN-FINDING lines), 1 violation (a line `VIOLATION property=<id> replay=<path>`
per new mechanism-level key), 2 inconclusive (no verdict; never a VIOLATION).
"""
import argparse
import concurrent.futures
import importlib
import json
import os
import re
import subprocess
import sys
import tempfile
import time

HERE = os.path.dirname(os.path.abspath(__file__))
ROOT = os.path.dirname(HERE)
# VERIF_OUT redirects evidence and replay files (used by the mutation campaign so that
# runs against scratch copies never overwrite the evidence of the real tree)
_OUT = os.environ.get("VERIF_OUT") or ROOT
EVID = os.path.join(_OUT, "evidence")
REPLAYS = os.path.join(_OUT, "replays")
KNOWN = os.path.join(ROOT, "KNOWN_FINDINGS.txt")
PROPS = ["C%02d" % i for i in range(1, 20)]
NPROC = min(16, os.cpu_count() or 1)

SHARD_TIMEOUT = {"quick": 900, "thorough": 7200}


def load_prop(pid):
    return importlib.import_module("vmon.props.%s" % pid.lower())


def read_known(pid):
    """finding: property=C04 key=<key> ... | fixed: property=C04 <commit> key=<key> ..."""
    known = {}
    fixed = {}
    if not os.path.exists(KNOWN):
        return known, fixed
    for line in open(KNOWN, encoding="utf-8"):
        line = line.strip()
        if not line or line.startswith("#"):
            continue
        m = re.match(r"(finding|fixed):\s+property=(\S+)\s+(.*)$", line)
        if not m or m.group(2) != pid:
            continue
        km = re.search(r"key=(\S+)", m.group(3))
        if not km:
            continue
        rest = m.group(3)
        if m.group(1) == "finding":
            known[km.group(1)] = rest
        else:
            fixed[km.group(1)] = rest
    return known, fixed


def child_env():
    env = dict(os.environ)
    env["PYTHONPATH"] = ROOT + (
        os.pathsep + env["PYTHONPATH"] if env.get("PYTHONPATH") else ""
    )
    env["PYTHONDONTWRITEBYTECODE"] = "1"
    env.setdefault("PYTHONHASHSEED", "0")
    return env


def shard_env(over):
    """child environment with a shard's own settings: value None = the variable is not set at all"""
    env = child_env()
    for k, v in (over or {}).items():
        if v is None:
            env.pop(k, None)
        else:
            env[k] = v
    return env


PYOPT_FLAGS = ["-O", "-W", "error"]


def run_shard_child(pid, tier, seed, shard, scratch, timeout):
    tag = "%s%s" % (shard["id"], "@O" if shard.get("pyopt") else "")
    inp = os.path.join(scratch, "in-%s.json" % tag)
    outp = os.path.join(scratch, "out-%s.json" % tag)
    with open(inp, "w") as f:
        json.dump({"prop": pid, "tier": tier, "seed": seed, "shard": shard}, f)
    # pyopt: the same shard in an interpreter started with -O (assert statements and `if __debug__` blocks are not compiled)
    # and -W error (every warning is an exception, as under pytest's filterwarnings=error or PYTHONWARNINGS=error), with the
    # root logger at DEBUG (shard_main)
    cmd = [sys.executable, "-B"] + (PYOPT_FLAGS if shard.get("pyopt") else []) + ["-m", "vmon.cli", "--shard-run", inp, outp]
    t0 = time.time()
    try:
        p = subprocess.run(
            cmd,
            cwd=ROOT,
            env=shard_env(shard.get("env")),  # a shard may name an environment of its own (locale, variables that are absent ...)
            timeout=timeout,
            stdout=subprocess.PIPE,
            stderr=subprocess.PIPE,
        )
    except subprocess.TimeoutExpired:
        return {"_error": "watchdog: shard %s exceeded %ds" % (shard["id"], timeout)}
    if p.returncode != 0 or not os.path.exists(outp):
        return {
            "_error": "shard %s died rc=%s: %s"
            % (shard["id"], p.returncode, p.stderr.decode(errors="replace")[-1500:])
        }
    with open(outp) as f:
        d = json.load(f)
    d["child_wall_s"] = round(time.time() - t0, 3)
    return d


def shard_main(inp, outp):
    from vmon import repo
    from vmon.ctx import Ctx

    with open(inp) as f:
        spec = json.load(f)
    # a changed library may ask for absurd amounts of memory (a length field taken for a byte count): let such a request fail
    # inside the call that makes it (MemoryError, observed by the monitor) instead of taking the machine down
    try:
        import resource

        lim = int(os.environ.get("VERIF_SHARD_AS_LIMIT", 2 << 30))
        resource.setrlimit(resource.RLIMIT_AS, (lim, lim))
    except (ImportError, ValueError, OSError):
        pass
    repo.activate()
    mod = load_prop(spec["prop"])
    ctx = Ctx(spec["prop"], spec["tier"], spec["seed"], spec["shard"])
    if spec["shard"].get("pyopt"):
        if __debug__:
            ctx.inconclusive_because("shard marked pyopt but the interpreter is not running with -O")
        ctx.count("shards_run_with_python_O")
        # the application's side of the configuration: debug logging switched on for everything (records go nowhere)
        import logging

        logging.basicConfig(level=logging.DEBUG, handlers=[logging.NullHandler()])
        logging.getLogger().setLevel(logging.DEBUG)
    try:
        mod.run(spec["shard"], ctx)
    except repo.RepoUnusable as e:
        ctx.inconclusive_because("repository unusable: %s" % e)
    d = ctx.dump()
    with open(outp, "w") as f:
        json.dump(d, f)
    return 0


def sanitize(key):
    return re.sub(r"[^A-Za-z0-9_.-]+", "_", key)[:120]


def write_replay(pid, tier, seed, key, failure):
    os.makedirs(REPLAYS, exist_ok=True)
    path = os.path.join(REPLAYS, "%s-%s.json" % (pid, sanitize(key)))
    with open(path, "w") as f:
        json.dump(
            {
                "property": pid,
                "key": key,
                "tier": tier,
                "seed": seed,
                "shard": failure.get("shard"),
                "pyopt": bool(failure.get("pyopt")),
                "env": failure.get("env"),
                "text": failure.get("text"),
                "count": failure.get("count"),
                "witness": failure.get("witness"),
                "traceback": failure.get("traceback"),
            },
            f,
            indent=1,
        )
    return path


def write_evidence(pid, mod, tier, seed, merged, wall, violations, known_seen, extra):
    os.makedirs(EVID, exist_ok=True)
    cov = {
        "evaluations": merged["evaluations"],
        "distinct_nontrivial": merged["distinct"],
        "rule": mod.RULE,
        "samples": merged["samples"][:12] or ["(no case executed)"],
        "exhaustive": bool(extra.pop("exhaustive", False)),
        "counters": merged["counters"],
        "observed_sets": {
            k: {"n": len(v), "some": sorted(v)[:40]} for k, v in merged["sets"].items()
        },
        "maxima": merged["maxima"],
        "shards": merged["shards"],
        "known_findings_seen": known_seen,
        "inconclusive": merged["inconclusive"],
        "notes": merged["notes"],
    }
    try:
        from vmon import srcdict

        cov["source_literal_dictionary"] = srcdict.summary()  # what the generators took from the tree under test (vmon/srcdict.py)
    except Exception as e:  # noqa: BLE001
        cov["source_literal_dictionary"] = {"unavailable": repr(e)}
    cov.update(extra)
    ev = {
        "property_id": pid,
        "tier": tier,
        "seed": seed,
        "level": mod.LEVEL,
        "coverage": cov,
        "assumptions": list(getattr(mod, "ASSUMPTIONS", [])),
        "wall_s": round(wall, 3),
        "violations": violations,
    }
    with open(os.path.join(EVID, "%s.json" % pid), "w") as f:
        json.dump(ev, f, indent=1, sort_keys=False)
        f.write("\n")


def run_property(pid, tier, seed, only_shard=None):
    t0 = time.time()
    mod = load_prop(pid)
    if os.path.isdir(REPLAYS) and only_shard is None:
        for fn in os.listdir(REPLAYS):
            if fn.startswith(pid + "-") and fn.endswith(".json"):
                os.unlink(os.path.join(REPLAYS, fn))
    shards = mod.shards(tier, seed)
    if only_shard is not None:
        shards = [s for s in shards if str(s["id"]) == str(only_shard)]
    # interpreter configuration dimension: every shard (or every PYOPT-th, for the expensive properties) runs a second
    # time in an interpreter started with -O -W error
    stride = getattr(mod, "PYOPT", 1)
    if isinstance(stride, dict):
        stride = stride.get(tier, 1)
    if stride:
        shards = shards + [dict(s, pyopt=True) for s in shards[::stride]]
    scratch = tempfile.mkdtemp(
        prefix="vmon-%s-" % pid,
        dir="/dev/shm" if os.path.isdir("/dev/shm") else None,
    )
    dumps = []
    errors = []
    try:
        with concurrent.futures.ThreadPoolExecutor(max_workers=NPROC) as ex:
            futs = [
                ex.submit(
                    run_shard_child,
                    pid,
                    tier,
                    seed,
                    s,
                    scratch,
                    SHARD_TIMEOUT.get(tier, 900),
                )
                for s in shards
            ]
            for fu in futs:
                d = fu.result()
                if "_error" in d:
                    errors.append(d["_error"])
                else:
                    dumps.append(d)
    finally:
        subprocess.run(["rm", "-rf", scratch])
    from vmon.ctx import merge

    merged = merge(dumps)
    for e in errors:
        merged["inconclusive"].append(e)
    extra = {}
    if hasattr(mod, "finalize"):
        extra = mod.finalize(merged, tier) or {}
    if merged["evaluations"] == 0:
        merged["inconclusive"].append("no case was executed")

    known, _fixed = read_known(pid)
    known_seen = []
    new = []
    for key in sorted(merged["failures"]):
        f = merged["failures"][key]
        if key in known:
            known_seen.append(key)
            print(
                "KNOWN-FINDING: property=%s %s %s (seen %d times this run)"
                % (pid, key, f["text"], f["count"])
            )
        else:
            new.append(key)
    for key in new:
        path = write_replay(pid, tier, seed, key, merged["failures"][key])
        print("VIOLATION property=%s replay=%s" % (pid, path))
        print("  key=%s: %s" % (key, merged["failures"][key]["text"]))
    wall = time.time() - t0
    write_evidence(pid, mod, tier, seed, merged, wall, len(new), known_seen, extra)
    for r in merged["inconclusive"]:
        print("INCONCLUSIVE property=%s: %s" % (pid, r), file=sys.stderr)
    if new:
        return 1
    if merged["inconclusive"]:
        return 2
    print(
        "HELD property=%s tier=%s seed=%s evaluations=%d distinct_nontrivial=%d "
        "known_findings=%d wall=%.1fs"
        % (pid, tier, seed, merged["evaluations"], merged["distinct"], len(known_seen), wall)
    )
    return 0


def replay(pid, path):
    from vmon import repo
    from vmon.ctx import Ctx

    rec = json.load(open(path))
    if rec.get("env") and any(os.environ.get(k) != v for k, v in rec["env"].items()):  # (None: must be absent)
        # observed in an interpreter started in another environment (locale ...): replay it the same way
        return subprocess.call([sys.executable, "-B"] + (PYOPT_FLAGS if rec.get("pyopt") else []) + ["-m", "vmon.cli", pid, "--replay", path], cwd=ROOT, env=shard_env(rec["env"]))
    if rec.get("pyopt") and __debug__:
        # observed in an interpreter started with -O: replay it the same way
        return subprocess.call([sys.executable, "-B"] + PYOPT_FLAGS + ["-m", "vmon.cli", pid, "--replay", path], cwd=ROOT, env=child_env())
    repo.activate()
    mod = load_prop(pid)
    shard = {"id": rec.get("shard") or "replay", "replay": True}
    for s in mod.shards(rec.get("tier", "quick"), rec.get("seed", 0)):
        if str(s["id"]) == str(rec.get("shard")):
            shard = s
            break
    if rec.get("pyopt"):
        shard = dict(shard, pyopt=True)
    ctx = Ctx(pid, rec.get("tier", "quick"), rec.get("seed", 0), shard)
    if not hasattr(mod, "replay"):
        print("replay not supported for %s" % pid, file=sys.stderr)
        return 2
    mod.replay(rec, ctx)
    known, _ = read_known(pid)
    rc = 0
    for key, f in ctx.failures.items():
        print("replayed failure key=%s: %s" % (key, f["text"]))
        if f.get("traceback"):
            print(f["traceback"])
        if key in known:
            print("KNOWN-FINDING: property=%s %s %s" % (pid, key, f["text"]))
        else:
            print("VIOLATION property=%s replay=%s" % (pid, path))
            rc = 1
    if not ctx.failures:
        print("replay: no failure reproduced (%d evaluations)" % ctx.evaluations)
    return rc


def self_check():
    from vmon import repo

    repo.activate()
    import pyscsi  # noqa: F401

    repo.check_loaded()
    from vmon import selfcheck

    problems = selfcheck.run_all()
    for p in problems:
        print("SELF-CHECK FAILED: %s" % p, file=sys.stderr)
    if problems:
        return 2
    print("self-check ok: repo=%s python=%s" % (repo.REPO, sys.version.split()[0]))
    return 0


def main(argv=None):
    ap = argparse.ArgumentParser()
    ap.add_argument("prop", nargs="?")
    ap.add_argument("--tier", default=os.environ.get("VERIF_TIER") or "quick")
    ap.add_argument("--replay")
    ap.add_argument("--shard")
    ap.add_argument("--self-check", action="store_true")
    ap.add_argument("--shard-run", nargs=2)
    a = ap.parse_args(argv)
    if a.shard_run:
        return shard_main(*a.shard_run)
    if a.self_check:
        return self_check()
    if not a.prop:
        ap.error("property id required")
    pid = a.prop.upper()
    if os.environ.get("VERIF_TIER") in ("quick", "thorough") and "--tier" not in (
        argv or sys.argv
    ):
        a.tier = os.environ["VERIF_TIER"]
    try:
        seed = int(os.environ.get("VERIF_SEED", "0"))
    except ValueError:
        seed = 0
    if a.replay:
        return replay(pid, a.replay)
    return run_property(pid, a.tier, seed, a.shard)


if __name__ == "__main__":
    sys.exit(main())
