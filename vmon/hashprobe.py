"""What the library builds and decodes from fixed inputs, printed line by line: run in fresh interpreters started with different
PYTHONHASHSEED values, every line has to be the same in all of them (str hashes are salted per process; nothing the library
produces may depend on that).

    python -m vmon.hashprobe <seed text>
"""
import random
import sys


def sloppy(x):
    """text and blob values the way people type them: not padded to the width of their field"""
    if isinstance(x, dict):
        return {k: sloppy(v) for k, v in x.items()}
    if isinstance(x, list):
        return [sloppy(v) for v in x]
    if isinstance(x, (bytes, bytearray)) and len(x) > 1:
        y = bytes(x).rstrip(b" \0")
        return type(x)(y if y else x[:1])
    return x


def show(label, thunk):
    try:
        r = thunk()
        if isinstance(r, (bytes, bytearray)):
            r = bytes(r).hex()
        print("%s = %s" % (label, r if isinstance(r, str) else repr(r)))
    except Exception as e:  # noqa: BLE001
        print("%s raises %s" % (label, type(e).__name__))


def main():
    from vmon import repo

    repo.activate()
    import pyscsi.utils.converter as conv

    from vmon import harness
    from vmon.spec import cdb as S, dataout as DO, datain as D

    rng = random.Random("hashprobe:%s" % sys.argv[1])
    for c in S.COMMANDS.values():
        for i in range(2):
            a = DO.GEN[c.custom](rng)[0] if c.custom else harness.random_args(c, rng, cap=2048)

            def build(c=c, a=a):
                cmd = harness.construct(c, c.sets[0], DO.fresh(a) if c.custom else dict(a))
                return bytes(cmd.cdb).hex() + "/" + bytes(cmd.dataout).hex()

            show("cmd:%s:%d" % (c.name, i), build)
    for name, f in D.FORMATS.items():
        for i in range(3):
            v = f.gen(rng)
            b = f.encode(v)
            show("decode:%s:%d" % (name, i), lambda f=f, b=b, v=v: repr(f.lib_decode(b, v)))
            if f.builder:
                d = f.lib_input(v)
                show("build:%s:%d" % (name, i), lambda f=f, d=d: f.lib_build(d))
                show("build-unpadded:%s:%d" % (name, i), lambda f=f, d=d: f.lib_build(sloppy(d)))
    # layouts of the caller: two views of one byte range, blobs shorter and longer than their field, given in several orders
    layouts = [{"tag": ("b", 0, 4), "word": [0xFFFFFFFF, 0], "flags": [0xFF, 4]}, {"a": ("b", 0, 2), "b": ("b", 2, 2), "c": [0xFFFF, 4], "d": ("w", 6, 1)},
               {"name": ("b", 0, 8), "rev": ("b", 8, 4), "x": [0xF0, 12], "y": [0x0F, 12]}]
    values = [{"tag": b"\x10\x20\x30\x40", "word": 0x01020304, "flags": 7}, {"a": b"A", "b": b"BCD", "c": 0x1234, "d": b"\x01\x02"},
              {"name": b"ACME", "rev": b"1.0", "x": 9, "y": 6}]
    for li, (lay, val) in enumerate(zip(layouts, values)):
        for order in (list(val), list(reversed(list(val)))):
            def enc(lay=lay, val=val, order=order):
                buf = bytearray(16)
                conv.encode_dict({k: val[k] for k in order}, lay, buf)
                return buf

            show("layout:%d:%s" % (li, ",".join(order)), enc)
        show("layout-decode:%d" % li, lambda lay=lay: (lambda out: (conv.decode_bits(bytearray(range(16)), lay, out), sorted((k, bytes(v) if isinstance(v, (bytes, bytearray)) else v) for k, v in out.items()))[1])({}))


if __name__ == "__main__":
    main()
