"""Reference self-checks (run by setup_cmd and at the start of checks that use
the reference).  A failure here is a bug in the machinery: inconclusive, never
a violation."""
import random


def run_all():
    problems = []
    from . import refcodec as R

    rng = random.Random(12345)
    # codec: get(put(v)) == v, neighbours untouched
    for _ in range(2000):
        byte = rng.randrange(0, 6)
        msb = rng.randrange(0, 8)
        width = rng.randrange(1, 70)
        buf = bytearray(rng.getrandbits(8) for _ in range(20))
        before = bytes(buf)
        v = rng.getrandbits(width)
        R.put(buf, byte, msb, width, v)
        if R.get(buf, byte, msb, width) != v:
            problems.append("refcodec get/put mismatch")
            break
        bits = R.bitset(byte, msb, width)
        for pos in range(160):
            if pos in bits:
                continue
            B, b = divmod(pos, 8)
            if (buf[B] ^ before[B]) & (0x80 >> b):
                problems.append("refcodec put touched bit %d outside field" % pos)
                break
    # known picture: READ(10) lba 0x01020304 at bytes 2..5
    cdb = bytearray(10)
    R.put(cdb, 2, 7, 32, 0x01020304)
    if bytes(cdb[2:6]) != b"\x01\x02\x03\x04":
        problems.append("refcodec big-endian placement wrong")
    R.put(cdb, 1, 7, 3, 5)
    if cdb[1] != 0xA0:
        problems.append("refcodec sub-byte placement wrong")

    from .spec import datain as D

    for kind in D.DESIGNATOR_KINDS:
        for _ in range(20):
            dtype, v = D.gen_designator(rng, kind)
            b = D.encode_designator(dtype, v)
            back = D.parse_designator(dtype, b)
            if D.subset_diff(v, back) or D.subset_diff(back, v):
                problems.append("designator %s: parse(encode(v)) != v" % kind)
                break
    for kind in D.TID_KINDS:
        for _ in range(20):
            v = D.gen_transport_id(rng, kind)
            b = D.encode_transport_id(v)
            back, n = D.parse_transport_id(b)
            exp = D.expect_transport_id(v)
            if n != len(b) or D.subset_diff(exp, back):
                problems.append("transport id %s: parse(encode(v)) != v" % kind)
                break
    # every format can generate and encode
    for name, f in D.FORMATS.items():
        try:
            for _ in range(5):
                v = f.gen(rng)
                b = f.encode(v)
                f.expect(v)
                for off, n in f.length_sites(v, b):
                    if off + n > len(b) and len(b):
                        problems.append("format %s: length site outside buffer" % name)
        except Exception as e:  # noqa: BLE001
            problems.append("format %s: reference generator/encoder raised %r" % (name, e))

    from .spec import cdb as C

    for name, c in C.COMMANDS.items():
        seen = set(R.bitset(0, 7, 8))
        for f, (byte, msb, width) in c.fields.items():
            bits = R.bitset(byte, msb, width)
            if bits & seen:
                problems.append("cdb layout %s: field %s overlaps" % (name, f))
            if max(bits) >= 8 * c.length:
                problems.append("cdb layout %s: field %s beyond CDB" % (name, f))
            seen |= bits
    try:
        from .spec import dataout as DO

        problems.extend(DO.self_check(rng))
    except ImportError:
        pass
    return problems
