"""Logical step counter: sys.monitoring LINE events in library code objects,
with a budget that aborts the running call (how a non-terminating loop is
*observed and stopped*).  No verdict depends on wall-clock time."""
import signal
import sys
import threading
import time

from .. import repo

mon = sys.monitoring
TOOL = 3


class BudgetExceeded(BaseException):
    pass


class StepMonitor:
    def __init__(self):
        self.count = 0
        self.budget = None
        self.active = False
        try:
            mon.use_tool_id(TOOL, "vmon-steps")
        except ValueError:
            pass
        mon.register_callback(TOOL, mon.events.LINE, self._line)

    def _line(self, code, lineno):
        if not repo.is_lib_file(code.co_filename):
            return mon.DISABLE
        if not self.active:
            return None
        self.count += 1
        if self.budget is not None and self.count > self.budget:
            self.active = False
            raise BudgetExceeded()
        return None

    PER_LINE = 3e-6  # generous CPU allowance per counted library line (measured: 0.4-1 us under the monitor)

    def run(self, fn, budget, opaque_cpu=None):
        """returns (outcome, steps): outcome in 'returned' | 'raised:<Type>' | 'budget' | 'opaque'.

        opaque_cpu (seconds): CPU time the call may spend *beyond* what its counted lines account for.  It bounds work
        hidden inside one step (a C-level loop such as a backtracking regular expression), which no line count can see.
        It is measured in process CPU time (ITIMER_VIRTUAL), not wall-clock time, and only decides when the excess is
        seconds large; main thread only."""
        self.count = 0
        self.budget = budget
        self.active = True
        self.opaque_hit = None
        use_timer = opaque_cpu is not None and threading.current_thread() is threading.main_thread()
        t0 = time.process_time()
        if use_timer:
            def on_timer(sig, frm):
                excess = (time.process_time() - t0) - self.count * self.PER_LINE
                if excess > opaque_cpu and self.active:
                    self.active = False
                    self.opaque_hit = excess
                    raise BudgetExceeded()

            old = signal.signal(signal.SIGVTALRM, on_timer)
            signal.setitimer(signal.ITIMER_VIRTUAL, 0.2, 0.2)
        mon.set_events(TOOL, mon.events.LINE)
        try:
            try:
                fn()
                out = "returned"
            except BudgetExceeded:
                out = "opaque" if self.opaque_hit is not None else "budget"
            except Exception as e:  # noqa: BLE001
                out = "raised:" + type(e).__name__
        finally:
            self.active = False
            mon.set_events(TOOL, 0)
            if use_timer:
                signal.setitimer(signal.ITIMER_VIRTUAL, 0, 0)
                signal.signal(signal.SIGVTALRM, old)
        self.cpu = time.process_time() - t0
        return out, self.count

    def close(self):
        mon.set_events(TOOL, 0)
        mon.register_callback(TOOL, mon.events.LINE, None)
        try:
            mon.free_tool_id(TOOL)
        except ValueError:
            pass
