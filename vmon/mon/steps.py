"""Logical step counter: sys.monitoring LINE events in library code objects,
with a budget that aborts the running call (how a non-terminating loop is
*observed and stopped*).  No verdict depends on wall-clock time."""
import sys

from .. import repo

mon = sys.monitoring
TOOL = 3


class BudgetExceeded(BaseException):
    pass


class StepMonitor:
    def __init__(self):
        self.count = 0
        self.budget = None
        self.active = False
        try:
            mon.use_tool_id(TOOL, "vmon-steps")
        except ValueError:
            pass
        mon.register_callback(TOOL, mon.events.LINE, self._line)

    def _line(self, code, lineno):
        if not repo.is_lib_file(code.co_filename):
            return mon.DISABLE
        if not self.active:
            return None
        self.count += 1
        if self.budget is not None and self.count > self.budget:
            self.active = False
            raise BudgetExceeded()
        return None

    def run(self, fn, budget):
        """returns (outcome, steps): outcome in 'returned' | 'raised:<Type>' | 'budget'"""
        self.count = 0
        self.budget = budget
        self.active = True
        mon.set_events(TOOL, mon.events.LINE)
        try:
            try:
                fn()
                out = "returned"
            except BudgetExceeded:
                out = "budget"
            except Exception as e:  # noqa: BLE001
                out = "raised:" + type(e).__name__
        finally:
            self.active = False
            mon.set_events(TOOL, 0)
        return out, self.count

    def close(self):
        mon.set_events(TOOL, 0)
        mon.register_callback(TOOL, mon.events.LINE, None)
        try:
            mon.free_tool_id(TOOL)
        except ValueError:
            pass
