"""Deterministic thread scheduler on sys.monitoring LINE events.

Each program runs in its own thread, but exactly one thread executes library
lines at a time.  At every LINE event inside pyscsi the running thread asks the
schedule whether it is preempted here; if so it hands the token to the
designated thread and blocks on its own Event.  A schedule is a dict
{global step index: thread to run next}; it is deterministic, replayable and
enumerable.  The scheduler's own state is touched only by the token holder.
"""
import sys
import threading

from .. import repo

mon = sys.monitoring
TOOL = 4


class Scheduler:
    def __init__(self):
        try:
            mon.use_tool_id(TOOL, "vmon-sched")
        except ValueError:
            pass
        mon.register_callback(TOOL, mon.events.LINE, self._line)
        self.active = False
        self.idx = {}

    def close(self):
        mon.set_events(TOOL, 0)
        mon.register_callback(TOOL, mon.events.LINE, None)
        try:
            mon.free_tool_id(TOOL)
        except ValueError:
            pass

    # -- callback ---------------------------------------------------------
    def _line(self, code, lineno):
        if not repo.is_lib_file(code.co_filename):
            return mon.DISABLE
        if not self.active:
            return None
        me = self.idx.get(threading.get_ident())
        if me is None:
            return None
        self.step += 1
        self.per_thread[me] += 1
        self.order.append(me)
        nxt = self.schedule.get(self.step)
        if nxt is not None and nxt != me and not self.done[nxt]:
            self.switches += 1
            self._handoff(me, nxt)
        return None

    def _handoff(self, me, nxt):
        self.current = nxt
        self.go[nxt].set()
        self.go[me].wait()
        self.go[me].clear()

    # -- running ----------------------------------------------------------
    def run(self, programs, schedule, timeout=20.0):
        """programs: list of zero-arg callables; schedule: {step: thread index}.
        returns dict(results, errors, steps, per_thread, order_hash, switches, hung)"""
        n = len(programs)
        self.schedule = dict(schedule)
        self.step = 0
        self.switches = 0
        self.per_thread = [0] * n
        self.order = []
        self.done = [False] * n
        self.go = [threading.Event() for _ in range(n)]
        self.idx = {}
        results = [None] * n
        errors = [None] * n
        started = threading.Barrier(n + 1)

        def wrap(i):
            self.idx[threading.get_ident()] = i
            started.wait()
            self.go[i].wait()
            self.go[i].clear()
            try:
                results[i] = programs[i]()
            except BaseException as e:  # noqa: BLE001
                errors[i] = e
            finally:
                self.done[i] = True
                # hand the token to the lowest-numbered unfinished thread
                for j in range(n):
                    if not self.done[j]:
                        self.current = j
                        self.go[j].set()
                        break

        threads = [threading.Thread(target=wrap, args=(i,), daemon=True) for i in range(n)]
        for t in threads:
            t.start()
        started.wait()
        self.active = True
        mon.set_events(TOOL, mon.events.LINE)
        self.current = 0
        self.go[0].set()
        hung = False
        for t in threads:
            t.join(timeout)
            if t.is_alive():
                hung = True
        self.active = False
        mon.set_events(TOOL, 0)
        if hung:
            for g in self.go:
                g.set()
        return {
            "results": results,
            "errors": errors,
            "steps": self.step,
            "per_thread": list(self.per_thread),
            "order_hash": hash(tuple(self.order)),
            "interleaved": self._interleaved(),
            "switches": self.switches,
            "hung": hung,
        }

    def _interleaved(self):
        """did the executed step order differ from every serial order?"""
        seen = []
        for t in self.order:
            if not seen or seen[-1] != t:
                seen.append(t)
        return len(seen) > len(set(seen))
