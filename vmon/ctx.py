"""Per-shard observation context and the merge of shard results.

Everything that ends up in an evidence file is counted here, by the code that
executed the case; nothing is a constant.
"""
import json
import random
import time
import traceback

MAX_SAMPLES = 6
MAX_SET = 4000


def _repr(o):
    """repr() that cannot fail (values under test may refuse to be printed)"""
    try:
        return repr(o)[:200]
    except Exception:  # noqa: BLE001
        return "<%s that cannot be printed>" % type(o).__name__


def jsonable(o, depth=0):
    """Stable, JSON-able rendering of arbitrary case data (bytes -> hex)."""
    if depth > 8:
        return _repr(o)
    if isinstance(o, (bytes, bytearray, memoryview)):
        b = bytes(o)
        if len(b) > 96:
            return "hex:%s..(%d bytes)" % (b[:96].hex(), len(b))
        return "hex:" + b.hex()
    if isinstance(o, bool) or o is None or isinstance(o, (int, float, str)):
        return o
    if isinstance(o, dict):
        return {(k if isinstance(k, str) else _repr(k)): jsonable(v, depth + 1) for k, v in o.items()}
    if isinstance(o, (list, tuple, set, frozenset)):
        return [jsonable(v, depth + 1) for v in o]
    return _repr(o)


class Ctx:
    def __init__(self, prop, tier, seed, shard):
        self.prop = prop
        self.tier = tier
        self.seed = seed
        self.shard = shard
        self.evaluations = 0
        self._distinct = set()
        self.counters = {}
        self.sets = {}
        self.maxima = {}
        self.samples = []
        self._nsampled = 0
        self.failures = {}
        self.inconclusive = []
        self.notes = []
        self.t0 = time.time()
        self._srng = random.Random("sample:%s:%s" % (prop, shard.get("id")))

    # -- randomness -------------------------------------------------------
    def rng(self, tag=""):
        return random.Random(
            "%s:%s:%s%s:%s" % (self.prop, self.seed, self.shard.get("id"), "@O" if self.shard.get("pyopt") else "", tag)
        )

    # -- counting ---------------------------------------------------------
    def case(self, rep, nontrivial=True, sample=None):
        """One executed case. rep: hashable/str identifying it; nontrivial by
        the property's stated rule; sample: JSON-able description (optional)."""
        self.evaluations += 1
        if nontrivial:
            self._distinct.add(hash(rep))
        if sample is not None:
            self._nsampled += 1
            if len(self.samples) < MAX_SAMPLES:
                self.samples.append(jsonable(sample))
            elif self._srng.random() < MAX_SAMPLES / self._nsampled:
                self.samples[self._srng.randrange(MAX_SAMPLES)] = jsonable(sample)

    def want_sample(self):
        """cheap test so callers can avoid building sample objects every time"""
        return len(self.samples) < MAX_SAMPLES or self._srng.random() < 0.002

    def count(self, name, n=1):
        self.counters[name] = self.counters.get(name, 0) + n

    def add(self, name, item):
        s = self.sets.setdefault(name, set())
        if len(s) < MAX_SET:
            s.add(item)

    def maximum(self, name, value, what=None):
        cur = self.maxima.get(name)
        if cur is None or value > cur[0]:
            self.maxima[name] = (value, jsonable(what))

    def note(self, text):
        if text not in self.notes and len(self.notes) < 50:
            self.notes.append(text)

    # -- verdict material -------------------------------------------------
    def fail(self, key, text, witness=None, exc=None):
        """An oracle failure under mechanism-level key `key`."""
        f = self.failures.get(key)
        if f is None:
            w = jsonable(witness) if witness is not None else None
            tb = None
            if exc is not None:
                tb = "".join(
                    traceback.format_exception(type(exc), exc, exc.__traceback__)
                )[-3000:]
            self.failures[key] = {
                "count": 1,
                "text": text,
                "witness": w,
                "traceback": tb,
                "shard": self.shard.get("id"),
                "pyopt": bool(self.shard.get("pyopt")),
                "env": self.shard.get("env"),
            }
        else:
            f["count"] += 1

    def inconclusive_because(self, reason):
        if reason not in self.inconclusive:
            self.inconclusive.append(reason)

    # -- transport --------------------------------------------------------
    def dump(self):
        return {
            "prop": self.prop,
            "shard": self.shard.get("id"),
            "evaluations": self.evaluations,
            "distinct": len(self._distinct),
            "counters": self.counters,
            "sets": {k: sorted(map(str, v)) for k, v in self.sets.items()},
            "maxima": {k: [v[0], v[1]] for k, v in self.maxima.items()},
            "samples": self.samples,
            "failures": self.failures,
            "inconclusive": self.inconclusive,
            "notes": self.notes,
            "wall_s": round(time.time() - self.t0, 3),
        }


def merge(dumps):
    out = {
        "evaluations": 0,
        "distinct": 0,
        "counters": {},
        "sets": {},
        "maxima": {},
        "samples": [],
        "failures": {},
        "inconclusive": [],
        "notes": [],
        "shards": len(dumps),
        "shard_wall_s": 0.0,
    }
    for d in dumps:
        out["evaluations"] += d["evaluations"]
        out["distinct"] += d["distinct"]
        for k, v in d["counters"].items():
            out["counters"][k] = out["counters"].get(k, 0) + v
        for k, v in d["sets"].items():
            out["sets"].setdefault(k, set()).update(v)
        for k, v in d["maxima"].items():
            cur = out["maxima"].get(k)
            if cur is None or v[0] > cur[0]:
                out["maxima"][k] = v
        out["samples"].extend(d["samples"][:2])
        for k, f in d["failures"].items():
            cur = out["failures"].get(k)
            if cur is None:
                out["failures"][k] = dict(f)
            else:
                cur["count"] += f["count"]
        for r in d["inconclusive"]:
            if r not in out["inconclusive"]:
                out["inconclusive"].append(r)
        for n in d["notes"]:
            if n not in out["notes"]:
                out["notes"].append(n)
        out["shard_wall_s"] += d.get("wall_s", 0)
    return out
