"""Select the tree under test.

$VERIF_REPO (default /repo) is put first on sys.path.  /repo is an editable
install whose finder sits at the *end* of sys.meta_path, so a path entry wins;
that lets the mutation campaign point the same monitors at a scratch copy.
Importing pyscsi from anywhere else is refused (inconclusive, never a verdict).
"""
import os
import sys

REPO = os.path.realpath(os.environ.get("VERIF_REPO", "/repo"))
PKG = os.path.join(REPO, "pyscsi")


class RepoUnusable(Exception):
    pass


def activate():
    if not os.path.isdir(PKG):
        raise RepoUnusable("no pyscsi package under %s" % REPO)
    sys.dont_write_bytecode = True
    if not sys.path or sys.path[0] != REPO:
        sys.path.insert(0, REPO)
    return REPO


def check_loaded():
    import pyscsi

    f = os.path.realpath(pyscsi.__file__)
    if not f.startswith(REPO + os.sep):
        raise RepoUnusable("pyscsi imported from %s, not from %s" % (f, REPO))
    return f


def is_lib_file(filename):
    return filename.startswith(PKG + os.sep)
