"""Reference response formats (DESIGN.md Appendix B): encoders written from
SPC-4/SBC-3/SMC-3/MMC-6/SAT-3, in (byte, msb, width) notation.

Each Format produces value trees V (in the library's key vocabulary, so that
"expected subset of the library's result" needs no second mapping), encodes
them with the reference codec, and says which library entry point decodes them.
The *positions* are the independent part; names are only labels.
"""
from .. import gen
from ..refcodec import Struct, be, from_be, put

# ---------------------------------------------------------------------------
# designators (SPC-4 7.8.6 Device Identification VPD page)

NAA2 = Struct([("naa", 0, 7, 4), ("vendor_specific_identifier_a", 0, 3, 12), ("ieee_company_id", 2, 7, 24),
               ("vendor_specific_identifier_b", 5, 7, 24)], 8)
NAA3 = Struct([("naa", 0, 7, 4), ("locally_administered_value", 0, 3, 60)], 8)
NAA5 = Struct([("naa", 0, 7, 4), ("ieee_company_id", 0, 3, 24), ("vendor_specific_identifier", 3, 3, 36)], 8)
NAA6 = Struct([("naa", 0, 7, 4), ("ieee_company_id", 0, 3, 24), ("vendor_specific_identifier", 3, 3, 36),
               ("vendor_specific_identifier_extension", 8, 7, 64)], 16)
NAA = {2: NAA2, 3: NAA3, 5: NAA5, 6: NAA6}

DESIG_HDR = Struct([("protocol_identifier", 0, 7, 4), ("code_set", 0, 3, 4), ("piv", 1, 7, 1),
                    ("association", 1, 5, 2), ("designator_type", 1, 3, 4), ("designator_length", 3, 7, 8)], 4)

DESIGNATOR_KINDS = ["vendor", "t10", "eui8", "eui12", "eui16", "naa2", "naa3", "naa5", "naa6",
                    "relport", "tpg", "lug", "md5", "name", "pcie"]


def gen_struct(st, rng, skip=()):
    v = {}
    # a record all of whose fields are zero is a record like any other (the empty element at address 0, LUN 0, an extent at LBA 0)
    zero = rng.random() < 0.05
    # ... and a record whose fields stand in a relation to one another (equal, adjacent, double / half)
    pool = gen.related_pool(rng) if not zero and rng.random() < 0.12 else None
    for name, byte, a, w in st.fields:
        if name in skip:
            continue
        if a == "b":
            v[name] = bytes(w) if zero else gen.byte_string(rng, w)
        elif pool is not None and w >= 3 and rng.random() < 0.8:
            v[name] = gen.related_value(rng, w, pool)
        else:
            v[name] = 0 if zero else gen.rand_value(rng, w)
    return v


def gen_designator(rng, kind, maxlen=255):
    """returns (designator_type, value dict in library vocabulary)"""
    if kind == "vendor":
        # every length a short (CSCD descriptor) designator may have, or the byte-boundary lengths of a long one
        return 0, {"vendor_specific": gen.byte_string(rng, rng.choice([0, 1, 4, 8, 20, 127, 128, 255]) if maxlen >= 255 else rng.randint(1, min(maxlen, 20)))}
    if kind == "t10":
        n = rng.choice([0, 1, 8, 12, 24, 100]) if maxlen >= 255 else rng.randint(0, max(0, min(maxlen, 20) - 8))
        return 1, {"t10_vendor_id": gen.byte_string(rng, 8, "text"), "vendor_specific_id": gen.byte_string(rng, n)}
    if kind == "eui8":
        return 2, {"ieee_company_id": gen.rand_value(rng, 24), "vendor_specific_extension_id": gen.byte_string(rng, 5)}
    if kind == "eui12":
        return 2, {"ieee_company_id": gen.rand_value(rng, 24), "vendor_specific_extension_id": gen.byte_string(rng, 5),
                   "directory_id": gen.byte_string(rng, 4)}
    if kind == "eui16":
        return 2, {"identifier_extension": gen.byte_string(rng, 8), "ieee_company_id": gen.rand_value(rng, 24),
                   "vendor_specific_extension_id": gen.byte_string(rng, 5)}
    if kind.startswith("naa"):
        n = int(kind[3])
        v = gen_struct(NAA[n], rng, skip=("naa",))
        v["naa"] = n
        return 3, v
    if kind == "relport":
        return 4, {"relative_port": gen.rand_value(rng, 16)}
    if kind == "tpg":
        return 5, {"target_portal_group": gen.rand_value(rng, 16)}
    if kind == "lug":
        return 6, {"logical_unit_group": gen.rand_value(rng, 16)}
    if kind == "md5":
        return 7, {"md5_logical_identifier": gen.byte_string(rng, 16)}
    if kind == "name":
        n = rng.choice([4, 8, 16, 20, 64, 252]) if maxlen >= 255 else rng.choice([k for k in (4, 8, 12, 16, 20) if k <= maxlen])
        s = gen.byte_string(rng, n - 1, "text") + b"\0"
        if rng.random() < 0.5:
            # names as SPC writes them (eui. / naa. / iqn. ...), of any length: terminated and padded to a multiple of four, or just
            # as the caller has them -- the designator carries the bytes it is given
            lim = maxlen if maxlen < 255 else 252
            body = rng.choice([b"eui.", b"naa.", b"iqn.", b"EUI.", b"iqn.1993-08.org.debian:01:", b"naa.6001405"]) + bytes(rng.choice(b"0123456789abcdef") for _ in range(rng.choice([1, 2, 3, 5, 12, 16, 17, 32])))
            if rng.random() < 0.4:
                # the names iSCSI ports report (SAM-5 / iSCSI): target ports "<name>,t,0x<portal group tag>", initiator ports
                # "<name>,i,0x<ISID>", also with odd tags
                body += rng.choice([b",t,0x0001", b",t,0x0101", b",t,0x1", b",i,0x00023d000001", b",t,0x", b",t,0xFFFF", b",T,0x0001", b",t,0x0001,t,0x0002"])
            body = body[: lim]
            if rng.random() < 0.5 and len(body) < lim:
                body += b"\0"
                while len(body) % 4 and len(body) < lim:
                    body += b"\0"
            s = body
        return 8, {"scsi_name_string": s}
    if kind == "pcie":
        return 9, {"pci_express_routing_id": gen.rand_value(rng, 16)}
    raise KeyError(kind)


def encode_designator(dtype, v):
    if dtype == 0:
        return bytes(v["vendor_specific"])
    if dtype == 1:
        return bytes(v["t10_vendor_id"]) + bytes(v["vendor_specific_id"])
    if dtype == 2:
        if "identifier_extension" in v:
            return bytes(v["identifier_extension"]) + bytes(be(v["ieee_company_id"], 3)) + bytes(v["vendor_specific_extension_id"])
        out = bytes(be(v["ieee_company_id"], 3)) + bytes(v["vendor_specific_extension_id"])
        if "directory_id" in v:
            out += bytes(v["directory_id"])
        return out
    if dtype == 3:
        return bytes(NAA[v["naa"]].encode(v))
    if dtype in (4, 5, 6):
        key = {4: "relative_port", 5: "target_portal_group", 6: "logical_unit_group"}[dtype]
        return bytes(2) + bytes(be(v[key], 2))
    if dtype == 7:
        return bytes(v["md5_logical_identifier"])
    if dtype == 8:
        return bytes(v["scsi_name_string"])
    if dtype == 9:
        return bytes(be(v["pci_express_routing_id"], 2)) + bytes(6)
    raise KeyError(dtype)


def parse_designator(dtype, b):
    """reference parser (used on library-built parameter lists)"""
    b = bytes(b)
    if dtype == 0:
        return {"vendor_specific": b}
    if dtype == 1:
        return {"t10_vendor_id": b[:8], "vendor_specific_id": b[8:]}
    if dtype == 2:
        if len(b) == 8:
            return {"ieee_company_id": from_be(b[:3]), "vendor_specific_extension_id": b[3:8]}
        if len(b) == 12:
            return {"ieee_company_id": from_be(b[:3]), "vendor_specific_extension_id": b[3:8], "directory_id": b[8:12]}
        if len(b) == 16:
            return {"identifier_extension": b[:8], "ieee_company_id": from_be(b[8:11]), "vendor_specific_extension_id": b[11:16]}
        raise ValueError("EUI-64 designator of %d bytes" % len(b))
    if dtype == 3:
        n = b[0] >> 4
        if n not in NAA or len(b) < NAA[n].size:
            raise ValueError("NAA %d designator of %d bytes" % (n, len(b)))
        return NAA[n].decode(b)
    if dtype in (4, 5, 6):
        key = {4: "relative_port", 5: "target_portal_group", 6: "logical_unit_group"}[dtype]
        if len(b) != 4:
            raise ValueError("designator type %d of %d bytes" % (dtype, len(b)))
        return {key: from_be(b[2:4])}
    if dtype == 7:
        return {"md5_logical_identifier": b[:16]}
    if dtype == 8:
        return {"scsi_name_string": b}
    if dtype == 9:
        return {"pci_express_routing_id": from_be(b[:2])}
    raise ValueError("designator type %d" % dtype)


def gen_designation_descriptor(rng, kind=None, maxlen=255):
    kind = kind or rng.choice(DESIGNATOR_KINDS)
    dtype, dv = gen_designator(rng, kind, maxlen)
    body = encode_designator(dtype, dv)
    piv = rng.getrandbits(1)
    assoc = rng.choice([0, 1, 2])
    d = {
        "code_set": 2 if kind in ("t10",) else (3 if kind == "name" else 1),
        "piv": piv,
        "association": assoc,
        "designator_type": dtype,
        "designator_length": len(body),
        "designator": dv,
        "_kind": kind,
    }
    d["protocol_identifier"] = rng.choice([0, 5, 6, 0xA]) if (piv and assoc in (1, 2)) else 0
    return d


def encode_designation_descriptor(d):
    body = encode_designator(d["designator_type"], d["designator"])
    hdr = DESIG_HDR.encode({k: d[k] for k in ("protocol_identifier", "code_set", "piv", "association", "designator_type")})
    hdr[3] = len(body)
    return bytes(hdr) + body


def expect_designation_descriptor(d):
    e = {k: d[k] for k in ("code_set", "piv", "association", "designator_type", "designator_length", "designator")}
    if d["piv"] and d["association"] in (1, 2):
        e["protocol_identifier"] = d["protocol_identifier"]
    return e


# ---------------------------------------------------------------------------
# TransportIDs (SPC-4 7.6.4)

TID_KINDS = ["fcp", "sbp", "srp", "iscsi0", "iscsi1", "sas", "sop"]
TID_PROTO = {"fcp": 0, "sbp": 3, "srp": 4, "iscsi0": 5, "iscsi1": 5, "sas": 6, "sop": 0xA}
IQN_CHARS = "abcdefghijklmnopqrstuvwxyz0123456789.-:"


def gen_iscsi_name(rng, n=None):
    if n is None:
        n = rng.choice([13, 14, 15, 16, 16, 17, 18, 19, 20, 21, 22, 23, 24, 31, 32, 33, 64, 100, 200, 223])
    # (the shortest names of the iqn. form have a one-label naming authority: iqn.2001-04.a)
    base = "iqn.2001-04.com." if n > 16 else "iqn.2001-04."
    n = max(n, len(base) + 1)
    name = base + "".join(rng.choice(IQN_CHARS[:36]) for _ in range(n - len(base)))
    if rng.random() < 0.15 and n < 100:
        # iSCSI names are UTF-8 (RFC 3722): a few characters outside ASCII, the length in characters unchanged
        chars = list(name)
        for _ in range(rng.randint(1, 3)):
            # precomposed letters, CJK, Greek -- and characters a Unicode normalisation would replace (a combining mark after its
            # base letter, OHM / KELVIN / ANGSTROM signs, a compatibility ideograph, the micro sign, a ligature): the name is sent
            # and reported as the caller gave it
            chars[rng.randrange(len(base), len(chars))] = rng.choice(["\u00e9", "\u00fc", "\u00f8", "\u0142", "\u65e5", "\u672c", "\u03b1", "e\u0301", "u\u0308", "\u2126", "\u212a", "\u212b",
                                                                      "\uf900", "\u00b5", "\ufb01", "\u1100\u1161", "\u00df", "\u0130"])
        name = "".join(chars)
    return name


def gen_transport_id(rng, kind=None, namelen=None):
    kind = kind or rng.choice(TID_KINDS)
    v = {"protocol_id": TID_PROTO[kind], "tpid_format": 0, "_kind": kind}
    if kind == "fcp":
        v["n_port_name"] = gen.byte_string(rng, 8)
    elif kind == "sbp":
        v["eui64_name"] = gen.byte_string(rng, 8)
    elif kind == "srp":
        v["initiator_port_identifier"] = gen.byte_string(rng, 16)
    elif kind == "iscsi0":
        v["iscsi_name"] = gen_iscsi_name(rng, namelen)
    elif kind == "iscsi1":
        v["tpid_format"] = 1
        v["iscsi_name"] = gen_iscsi_name(rng, namelen)
        v["iscsi_initiator_session_id"] = rng.choice(["%012x", "%012X", "%x", "%X"]) % rng.getrandbits(48)
    elif kind == "sas":
        v["sas_address"] = gen.byte_string(rng, 8)
    elif kind == "sop":
        v["routing_id"] = gen.byte_string(rng, 8)
    return v


def encode_transport_id(v):
    kind = v["_kind"]
    if kind in ("iscsi0", "iscsi1"):
        s = v["iscsi_name"]
        if kind == "iscsi1":
            s += ",i,0x" + v["iscsi_initiator_session_id"]
        body = s.encode("utf-8") + b"\0"
        while len(body) % 4 or len(body) < 20:
            body += b"\0"
        out = bytearray(4) + body
        out[2:4] = be(len(body), 2)
    else:
        out = bytearray(24)
        if kind == "fcp":
            out[8:16] = v["n_port_name"]
        elif kind == "sbp":
            out[8:16] = v["eui64_name"]
        elif kind == "srp":
            out[8:24] = v["initiator_port_identifier"]
        elif kind == "sas":
            out[4:12] = v["sas_address"]
        elif kind == "sop":
            out[4:12] = v["routing_id"]  # position = the library's; SOP layout is a declared reference gap
    put(out, 0, 7, 2, v["tpid_format"])
    put(out, 0, 3, 4, v["protocol_id"])
    return bytes(out)


def expect_transport_id(v):
    e = {k: x for k, x in v.items() if not k.startswith("_")}
    if v["_kind"] == "sop":
        e.pop("routing_id")  # reference gap
    return e


def parse_transport_id(b):
    """reference parser: returns (value dict, total length)"""
    b = bytes(b)
    if len(b) < 4:
        raise ValueError("TransportID truncated")
    fmt = b[0] >> 6
    proto = b[0] & 0x0F
    if b[0] & 0x30:
        raise ValueError("TransportID reserved bits set in byte 0")
    v = {"tpid_format": fmt, "protocol_id": proto}
    if proto == 5:
        al = from_be(b[2:4])
        if al % 4 or al < 20:
            raise ValueError("iSCSI TransportID ADDITIONAL LENGTH %d (must be >=20, multiple of 4)" % al)
        if len(b) < 4 + al:
            raise ValueError("iSCSI TransportID overruns its buffer")
        body = b[4 : 4 + al]
        if 0 not in body:
            raise ValueError("iSCSI name not NUL terminated")
        s = body[: body.index(0)]
        if any(body[body.index(0):]):
            raise ValueError("iSCSI TransportID padding not zero")
        s = s.decode("utf-8")
        if fmt == 0:
            v["iscsi_name"] = s
        elif fmt == 1:
            if ",i,0x" not in s:
                raise ValueError("format 01b iSCSI TransportID without ',i,0x' separator")
            v["iscsi_name"], v["iscsi_initiator_session_id"] = s.split(",i,0x", 1)
        else:
            raise ValueError("iSCSI TransportID format %d" % fmt)
        return v, 4 + al
    if len(b) < 24:
        raise ValueError("TransportID truncated (%d < 24)" % len(b))
    if fmt != 0:
        raise ValueError("format %d for protocol %d" % (fmt, proto))
    if proto == 0:
        v["n_port_name"] = b[8:16]
        rest = b[1:8] + b[16:24]
    elif proto == 3:
        v["eui64_name"] = b[8:16]
        rest = b[1:8] + b[16:24]
    elif proto == 4:
        v["initiator_port_identifier"] = b[8:24]
        rest = b[1:8]
    elif proto == 6:
        v["sas_address"] = b[4:12]
        rest = b[1:4] + b[12:24]
    elif proto == 0xA:
        rest = b""
    else:
        raise ValueError("TransportID protocol %d" % proto)
    if any(rest):
        raise ValueError("TransportID reserved bytes not zero")
    return v, 24


# ---------------------------------------------------------------------------
IF_REPORTED = "?if reported"


def subset_diff(exp, act, path=""):
    """paths where `act` does not contain `exp` (dict subset, lists equal
    length, bytes compared by content)."""
    out = []
    if isinstance(exp, dict):
        if not isinstance(act, dict):
            return [(path or "/", "expected dict, got %s" % type(act).__name__)]
        for k, v in exp.items():
            if isinstance(k, str) and k.startswith("_"):
                continue
            if k == IF_REPORTED:
                # values of fields the library has no decoder for today: nothing is demanded, but a field it does report under
                # one of these names has the value the device sent
                for name, val in v.items():
                    if name in act:
                        out.extend(subset_diff(val, act[name], "%s/%s" % (path, name)))
                continue
            kk = "<n>" if isinstance(k, int) else k
            if k not in act:
                out.append(("%s/%s" % (path, kk), "missing (key %r)" % (k,)))
            else:
                out.extend(subset_diff(v, act[k], "%s/%s" % (path, kk)))
        return out
    if isinstance(exp, (list, tuple)):
        if not isinstance(act, (list, tuple)):
            return [(path or "/", "expected list, got %s" % type(act).__name__)]
        if len(exp) != len(act):
            out.append((path + "/#", "expected %d entries, got %d" % (len(exp), len(act))))
        for i, (e, a) in enumerate(zip(exp, act)):
            out.extend(subset_diff(e, a, "%s/[]" % path))
        return out
    if isinstance(exp, (bytes, bytearray)):
        if not isinstance(act, (bytes, bytearray)) or bytes(exp) != bytes(act):
            out.append((path, "expected %s got %s" % (bytes(exp)[:24].hex(), _short(act))))
        return out
    if exp != act or (isinstance(exp, bool) != isinstance(act, bool) and False):
        out.append((path, "expected %r got %s" % (exp, _short(act))))
    return out


def _short(x):
    if isinstance(x, (bytes, bytearray)):
        return bytes(x)[:24].hex()
    return repr(x)[:60]


def strip_private(v):
    if isinstance(v, dict):
        return {k: strip_private(x) for k, x in v.items() if not (isinstance(k, str) and k.startswith("_"))}
    if isinstance(v, list):
        return [strip_private(x) for x in v]
    return v


# ---------------------------------------------------------------------------
class Format:
    name = ""
    decoder = None  # (module, class, method)
    builder = False  # library has marshall_datain for it
    canonical_roundtrip = True  # reference bytes are a fixed point of build(parse(.))

    def lib_cls(self):
        import importlib

        m, c = self.decoder
        return getattr(importlib.import_module("pyscsi.pyscsi." + m), c)

    def decode_kwargs(self, v):
        return {}

    def lib_decode(self, b, v, variant=0):
        """variant 0: a bytearray and keyword arguments; 1: an immutable bytes object; 2: the extra arguments given by position in
        the documented order (vmon/spec/decoder_sig.json, snapshot of the signatures at the pinned commit)"""
        kw = self.decode_kwargs(v)
        if variant == 1:
            return self.lib_cls().unmarshall_datain(bytes(b), **kw)
        if variant == 2:
            from .. import harness

            args, kw = harness.split_positional(harness._sig("decoder")[self.name], kw)
            return self.lib_cls().unmarshall_datain(bytearray(b), *args, **kw)
        return self.lib_cls().unmarshall_datain(bytearray(b), **kw)

    def lib_build(self, d):
        return self.lib_cls().marshall_datain(d)

    def expect(self, v):
        return strip_private(v)

    def lib_input(self, v):
        """dictionary in the library's vocabulary to hand to marshall_datain"""
        return strip_private(v)

    def length_sites(self, v, b):
        """[(offset, nbytes)] of embedded length / count fields in b"""
        return []

    facade_table = "sbc"

    def facade(self, v, alloclen):
        """(facade method name, kwargs) that requests this response; None if
        the facade offers no way"""
        return None


class StructFormat(Format):
    st = None
    pad_to = None

    def gen(self, rng, mode="rand"):
        walk = isinstance(mode, tuple) and mode[0] == "walk"
        return self.fix(self.walk(rng, mode) if walk else gen_struct(self.st, rng), rng)

    def walk(self, rng, mode):
        # mode = ("field", value, fill)
        _m, field, value, fill = mode
        v = {}
        for name, byte, a, w in self.st.fields:
            if a == "b":
                v[name] = bytes(w) if fill == "zero" else (b"\xff" * w if fill == "ones" else gen.byte_string(rng, w))
            else:
                v[name] = 0 if fill == "zero" else ((1 << w) - 1 if fill == "ones" else gen.rand_value(rng, w))
        v[field] = value
        return v

    def fix(self, v, rng):
        return v

    def encode(self, v):
        b = self.st.encode(v)
        return bytes(b)

    def walk_modes(self, small=False):
        for name, byte, a, w in self.st.fields:
            if a == "b" or name in getattr(self, "fixed_fields", ()):
                continue
            vals = gen.small_boundary(w) if small else gen.boundary(w)
            for fill in ("zero", "ones"):
                for val in vals:
                    yield ("walk", name, val, fill)


# -- standard INQUIRY -------------------------------------------------------
class StdInquiry(StructFormat):
    name = "inquiry.standard"
    decoder = ("scsi_cdb_inquiry", "Inquiry")
    builder = True
    fixed_fields = ("additional_length",)
    st = Struct([
        ("peripheral_qualifier", 0, 7, 3), ("peripheral_device_type", 0, 4, 5), ("rmb", 1, 7, 1), ("version", 2, 7, 8),
        ("normaca", 3, 5, 1), ("hisup", 3, 4, 1), ("response_data_format", 3, 3, 4), ("additional_length", 4, 7, 8),
        ("sccs", 5, 7, 1), ("acc", 5, 6, 1), ("tpgs", 5, 5, 2), ("3pc", 5, 3, 1), ("protect", 5, 0, 1),
        ("encserv", 6, 6, 1), ("vs", 6, 5, 1), ("multip", 6, 4, 1), ("addr16", 6, 0, 1),
        ("wbus16", 7, 5, 1), ("sync", 7, 4, 1), ("cmdque", 7, 1, 1), ("vs2", 7, 0, 1),
        ("t10_vendor_identification", 8, "b", 8), ("product_identification", 16, "b", 16), ("product_revision_level", 32, "b", 4),
        ("clocking", 56, 3, 2), ("qas", 56, 1, 1), ("ius", 56, 0, 1),
    ], 96)

    TOTALS = [36, 36, 37, 56, 57, 58, 74, 96, 96, 96]

    def fix(self, v, rng):
        v["_total"] = rng.choice(self.TOTALS)
        v["additional_length"] = v["_total"] - 5
        if v["_total"] < 57:
            for k in ("clocking", "qas", "ius"):
                v[k] = 0  # not transmitted
        return v

    def encode(self, v):
        return bytes(self.st.encode(v))[: v["_total"]]

    def decode_kwargs(self, v):
        return {"evpd": 0}

    def length_sites(self, v, b):
        return [(4, 1)]


class VpdBase(Format):
    decoder = ("scsi_cdb_inquiry", "Inquiry")
    page = 0
    HDR = Struct([("peripheral_qualifier", 0, 7, 3), ("peripheral_device_type", 0, 4, 5), ("page_code", 1, 7, 8)], 4)

    def decode_kwargs(self, v):
        return {"evpd": 1}

    def hdr(self, v, body):
        h = self.HDR.encode({"peripheral_qualifier": v["peripheral_qualifier"],
                             "peripheral_device_type": v["peripheral_device_type"], "page_code": self.page})
        h[2:4] = be(len(body), 2)
        return bytes(h) + bytes(body)

    def gen_hdr(self, rng):
        return {"peripheral_qualifier": rng.choice([0, 0, 1, 3]), "peripheral_device_type": rng.choice([0, 0, 1, 5, 8, 0x1F]),
                "page_code": self.page}

    def length_sites(self, v, b):
        return [(2, 2)]


class VpdSupported(VpdBase):
    name = "inquiry.vpd00"
    page = 0x00

    def gen(self, rng, mode="rand"):
        v = self.gen_hdr(rng)
        n = rng.choice([0, 1, 2, 3, 8, 40])
        if isinstance(mode, tuple) and mode[0] == "count":
            n = min(mode[1], 256)
        v["vpd_pages"] = sorted(rng.sample(range(256), n))
        return v

    def encode(self, v):
        return self.hdr(v, bytes(v["vpd_pages"]))


class VpdSerial(VpdBase):
    name = "inquiry.vpd80"
    page = 0x80
    builder = True

    def gen(self, rng, mode="rand"):
        v = self.gen_hdr(rng)
        n = rng.choice([0, 1, 4, 8, 16, 20, 36])
        if isinstance(mode, tuple) and mode[0] == "count":
            n = mode[1]
        v["unit_serial_number"] = gen.byte_string(rng, n, "text")
        return v

    def encode(self, v):
        return self.hdr(v, v["unit_serial_number"])


class VpdDevId(VpdBase):
    name = "inquiry.vpd83"
    page = 0x83
    builder = True

    def gen(self, rng, mode="rand"):
        v = self.gen_hdr(rng)
        if isinstance(mode, tuple) and mode[0] == "kind":
            v["designator_descriptors"] = [gen_designation_descriptor(rng, mode[1])]
        elif isinstance(mode, tuple) and mode[0] == "count":
            v["designator_descriptors"] = [gen_designation_descriptor(rng) for _ in range(mode[1])]
        else:
            n = rng.choice([0, 1, 1, 2, 3, 5])
            v["designator_descriptors"] = [gen_designation_descriptor(rng) for _ in range(n)]
        return v

    def encode(self, v):
        return self.hdr(v, b"".join(encode_designation_descriptor(d) for d in v["designator_descriptors"]))

    def expect(self, v):
        e = {k: v[k] for k in ("peripheral_qualifier", "peripheral_device_type", "page_code")}
        e["designator_descriptors"] = [strip_private(expect_designation_descriptor(d)) for d in v["designator_descriptors"]]
        return e

    def lib_input(self, v):
        d = strip_private(v)
        return d

    def length_sites(self, v, b):
        sites = [(2, 2)]
        off = 4
        for d in v["designator_descriptors"]:
            sites.append((off + 3, 1))
            off += 4 + d["designator_length"]
        return sites


class VpdStruct(VpdBase):
    body = None  # Struct over the whole page (absolute offsets)
    size = 0
    builder = False

    # page lengths of earlier revisions of the standards (the page ends there: later fields are not sent, not zero-filled)
    SHORT_REVISIONS = {0xB0: (0x0C, 0x10, 0x20), 0x86: (0x08, 0x0C, 0x20), 0xB1: (0x04, 0x08, 0x20), 0xB3: (0x08,)}

    def gen(self, rng, mode="rand"):
        v = self.gen_hdr(rng)
        if not (isinstance(mode, tuple) and mode[0] == "walk"):
            v.update(gen_struct(self.body, rng))
            if self.page in self.SHORT_REVISIONS and rng.random() < 0.2:
                n = rng.choice(self.SHORT_REVISIONS[self.page])
                v["_total"] = 4 + n
                for name, byte, a, w in self.body.fields:
                    if byte >= 4 + n:
                        v[name] = 0  # not sent: reported as zero
        else:
            _m, field, value, fill = mode
            for name, byte, a, w in self.body.fields:
                v[name] = 0 if fill == "zero" else (1 << w) - 1
            v[field] = value
        return v

    def encode(self, v):
        size = v.get("_total", self.size)
        b = bytearray(self.size)
        self.body.encode(v, b)
        h = self.hdr(v, bytes(size - 4))
        b[0:4] = h[0:4]
        return bytes(b[:size])

    def walk_modes(self, small=False):
        for name, byte, a, w in self.body.fields:
            vals = gen.small_boundary(w) if small else gen.boundary(w)
            for fill in ("zero", "ones"):
                for val in vals:
                    yield ("walk", name, val, fill)


class VpdExtended(VpdStruct):
    name = "inquiry.vpd86"
    page = 0x86
    size = 64
    builder = True
    body = Struct([
        ("activate_microcode", 4, 7, 2), ("spt", 4, 5, 3), ("grd_chk", 4, 2, 1), ("app_chk", 4, 1, 1), ("ref_chk", 4, 0, 1),
        ("uask_sup", 5, 5, 1), ("group_sup", 5, 4, 1), ("prior_sup", 5, 3, 1), ("headsup", 5, 2, 1), ("ordsup", 5, 1, 1), ("simpsup", 5, 0, 1),
        ("wu_sup", 6, 3, 1), ("crd_sup", 6, 2, 1), ("nv_sup", 6, 1, 1), ("v_sup", 6, 0, 1),
        ("p_i_i_sup", 7, 4, 1), ("luiclr", 7, 0, 1), ("r_sup", 8, 4, 1), ("cbcs", 8, 0, 1),
        ("multi_it_nexus_microcode_download", 9, 3, 4), ("extended_self_test_completion_minutes", 10, 7, 16),
        ("poa_sup", 12, 7, 1), ("hra_sup", 12, 6, 1), ("vsa_sup", 12, 5, 1), ("maximum_supported_sense_data_length", 13, 7, 8),
    ], 64)


class VpdBlockLimits(VpdStruct):
    name = "inquiry.vpdb0"
    page = 0xB0
    size = 64
    body = Struct([
        ("wsnz", 4, 0, 1), ("max_caw_len", 5, 7, 8), ("opt_xfer_len_gran", 6, 7, 16), ("max_xfer_len", 8, 7, 32),
        ("opt_xfer_len", 12, 7, 32), ("max_pfetch_len", 16, 7, 32), ("max_unmap_lba_count", 20, 7, 32),
        ("max_unmap_bd_count", 24, 7, 32), ("opt_unmap_gran", 28, 7, 32), ("ugavalid", 32, 7, 1),
        ("unmap_gran_alignment", 32, 6, 31), ("max_ws_len", 36, 7, 64),
    ], 64)


class VpdBlockDevChar(VpdStruct):
    name = "inquiry.vpdb1"
    page = 0xB1
    size = 64
    body = Struct([
        ("medium_rotation_rate", 4, 7, 16), ("product_type", 6, 7, 8), ("wabereq", 7, 7, 2), ("wacereq", 7, 5, 2),
        ("nominal_form_factor", 7, 3, 4), ("fuab", 8, 1, 1), ("vbuls", 8, 0, 1),
    ], 64)


class VpdLbp(VpdStruct):
    name = "inquiry.vpdb2"
    page = 0xB2
    size = 8
    builder = True
    body = Struct([
        ("threshold_exponent", 4, 7, 8), ("lbpu", 5, 7, 1), ("lpbws", 5, 6, 1), ("lbpws10", 5, 5, 1),
        ("lbprz", 5, 2, 1), ("anc_sup", 5, 1, 1), ("dp", 5, 0, 1), ("provisioning_type", 6, 2, 3),
    ], 8)


class VpdReferrals(VpdStruct):
    name = "inquiry.vpdb3"
    page = 0xB3
    size = 16
    builder = True
    body = Struct([("user_data_segment_size", 8, 7, 32), ("user_data_segment_multiplier", 12, 7, 32)], 16)


class VpdAta(VpdBase):
    """SAT-3 12.4.2 ATA Information VPD page (572 bytes)."""
    name = "inquiry.vpd89"
    page = 0x89

    def gen(self, rng, mode="rand"):
        v = self.gen_hdr(rng)
        v["sat_vendor_identification"] = gen.byte_string(rng, 8, "text")
        v["sat_product_identification"] = gen.byte_string(rng, 16, "text")
        v["sat_product_rev_lvl"] = gen.byte_string(rng, 4, "text")
        v["_sig"] = {"sector_count": rng.getrandbits(8), "lba_low": rng.getrandbits(8), "lba_mid": rng.getrandbits(8),
                     "lba_high": rng.getrandbits(8), "device": rng.getrandbits(8)}
        v["_serial"] = gen.byte_string(rng, 20, "text")
        v["_fw"] = gen.byte_string(rng, 8, "text")
        v["_model"] = gen.byte_string(rng, 40, "text")
        v["_word0"] = rng.choice([0x0040, 0x8580, 0x0C5A, 0x848A, rng.getrandbits(16)])  # general configuration: ATA disk, ATAPI, ...
        v["_word2"] = rng.choice([0x37C8, 0x738C, 0x8C73, 0xC837, rng.getrandbits(16)])  # specific configuration
        # word 255, the integrity word every ATA-5 and later device sends: signature A5h and the checksum that makes the 512
        # bytes sum to zero; also a signature with a wrong checksum, and none
        v["_integrity"] = rng.choice(["valid", "valid", "valid", "bad_checksum", "none"])
        return v

    def encode(self, v):
        b = bytearray(572)
        b[8:16] = v["sat_vendor_identification"]
        b[16:32] = v["sat_product_identification"]
        b[32:36] = v["sat_product_rev_lvl"]
        # device signature: D2H register FIS at 36..55
        b[36] = 0x34
        s = v["_sig"]
        b[40], b[41], b[42], b[43] = s["lba_low"], s["lba_mid"], s["lba_high"], s["device"]
        b[48] = s["sector_count"]
        b[56] = 0xEC
        ident = bytearray(512)
        ident[0], ident[1] = v["_word0"] & 0xFF, v["_word0"] >> 8  # IDENTIFY words are little-endian
        ident[4], ident[5] = v["_word2"] & 0xFF, v["_word2"] >> 8
        ident[20:40] = v["_serial"]  # words 10-19
        ident[46:54] = v["_fw"]  # words 23-26
        ident[54:94] = v["_model"]  # words 27-46
        if v.get("_integrity", "none") != "none":
            ident[510] = 0xA5
            ident[511] = (-sum(ident[:511])) & 0xFF
            if v["_integrity"] == "bad_checksum":
                ident[511] ^= 0x10
        b[60:572] = ident
        return self.hdr(v, bytes(b[4:]))

    def expect(self, v):
        e = {k: v[k] for k in ("peripheral_qualifier", "peripheral_device_type", "page_code", "sat_vendor_identification",
                               "sat_product_identification", "sat_product_rev_lvl")}
        e["signature"] = dict(v["_sig"])
        e["identify"] = {"serial_number": v["_serial"], "firmware_rev": v["_fw"], "model_number": v["_model"], "specific_config": v["_word2"],
                         "general_config": {"ata_device": v["_word0"] >> 15, "respose_incomplete": (v["_word0"] >> 2) & 1}}  # ACS: word 0 bit 15, bit 2
        return e


# -- MODE SENSE ---------------------------------------------------------------
PAGE_CONTROL = Struct([
    ("tst", 2, 7, 3), ("tmf_only", 2, 4, 1), ("dpicz", 2, 3, 1), ("d_sense", 2, 2, 1), ("gltsd", 2, 1, 1), ("rlec", 2, 0, 1),
    ("queue_algorithm_modifier", 3, 7, 4), ("nuar", 3, 3, 1), ("qerr", 3, 2, 2),
    ("vs", 4, 7, 1), ("rac", 4, 6, 1), ("ua_intlck_ctrl", 4, 5, 2), ("swp", 4, 3, 1),
    ("ato", 5, 7, 1), ("tas", 5, 6, 1), ("atmpe", 5, 5, 1), ("rwwp", 5, 4, 1), ("autoload_mode", 5, 2, 3),
    ("busy_timeout_period", 8, 7, 16), ("extended_self_test_completion_time", 10, 7, 16),
], 12)
PAGE_CONTROL_EXT = Struct([
    ("tcmos", 4, 2, 1), ("scsip", 4, 1, 1), ("ialuae", 4, 0, 1), ("initial_command_priority", 5, 3, 4),
    ("maximum_sense_data_length", 6, 7, 8),
], 32)
PAGE_DISCONNECT = Struct([
    ("buffer_full_ratio", 2, 7, 8), ("buffer_empty_ratio", 3, 7, 8), ("bus_inactivity_limit", 4, 7, 16),
    ("disconnect_time_limit", 6, 7, 16), ("connect_time_limit", 8, 7, 16), ("maximum_burst_size", 10, 7, 16),
    ("emdp", 12, 7, 1), ("fair_arbitration", 12, 6, 3), ("dimm", 12, 3, 1), ("dtdc", 12, 2, 3), ("first_burst_size", 14, 7, 16),
], 16)
PAGE_ELEMENT = Struct([
    ("first_medium_transport_element_address", 2, 7, 16), ("num_medium_transport_elements", 4, 7, 16),
    ("first_storage_element_address", 6, 7, 16), ("num_storage_elements", 8, 7, 16),
    ("first_import_element_address", 10, 7, 16), ("num_import_elements", 12, 7, 16),
    ("first_data_transfer_element_address", 14, 7, 16), ("num_data_transfer_elements", 16, 7, 16),
], 20)
# (page_code, sub_page_code or None) -> Struct with absolute offsets inside the page
MODE_PAGES = {
    (0x0A, None): PAGE_CONTROL,
    (0x0A, 0x01): PAGE_CONTROL_EXT,
    (0x02, None): PAGE_DISCONNECT,
    (0x1D, None): PAGE_ELEMENT,
}
PAGE_HDR0 = Struct([("ps", 0, 7, 1), ("spf", 0, 6, 1), ("page_code", 0, 5, 6), ("page_length", 1, 7, 8)], 2)
PAGE_HDR1 = Struct([("ps", 0, 7, 1), ("spf", 0, 6, 1), ("page_code", 0, 5, 6), ("sub_page_code", 1, 7, 8), ("page_length", 2, 7, 16)], 4)
MODE_HDR6 = Struct([("mode_data_length", 0, 7, 8), ("medium_type", 1, 7, 8), ("device_specific_parameter", 2, 7, 8),
                    ("block_descriptor_length", 3, 7, 8)], 4)
MODE_HDR10 = Struct([("mode_data_length", 0, 7, 16), ("medium_type", 2, 7, 8), ("device_specific_parameter", 3, 7, 8),
                     ("longlba", 4, 0, 1), ("block_descriptor_length", 6, 7, 16)], 8)


def gen_mode_page(rng, key=None, mode="rand"):
    key = key or rng.choice(list(MODE_PAGES))
    st = MODE_PAGES[key]
    p = {"ps": rng.getrandbits(1), "spf": 0 if key[1] is None else 1, "page_code": key[0]}
    if key[1] is not None:
        p["sub_page_code"] = key[1]
    if not (isinstance(mode, tuple) and mode[0] == "walk"):
        p.update(gen_struct(st, rng))
    else:
        _m, field, value, fill = mode
        for name, byte, a, w in st.fields:
            p[name] = 0 if fill == "zero" else (1 << w) - 1
        p[field] = value
    return p


def gen_opaque_mode_page(rng, long_ok):
    """a mode page the library has no field table for (caching, power condition, protocol specific ...): it has to be stepped
    over by its PAGE LENGTH; sub-page format pages may be longer than 255 bytes (e.g. SAS phy control and discover)"""
    if rng.random() < 0.2:
        # the power condition page as SPC-4 lays it out (1Ah, page length 26h). The library has no decoder for it, only an unused
        # table of field names (scsi_enum_modesense.power_condition_bits): should a decoder appear, these are the names it reports
        raw = bytearray(gen.byte_string(rng, 38))
        raw[0] &= 0xC1
        raw[1] &= 0x0F
        raw[37] &= 0xFC
        u32 = lambda o: int.from_bytes(raw[o:o + 4], "big")  # noqa: E731  (offsets behind the two-byte page header)
        return {"ps": rng.getrandbits(1), "spf": 0, "page_code": 0x1A, "_raw": bytes(raw),
                IF_REPORTED: {"pm_bg_precedence": raw[0] >> 6, "standby_y": raw[0] & 1, "idle_c": (raw[1] >> 3) & 1, "idle_b": (raw[1] >> 2) & 1,
                              "idle_a": (raw[1] >> 1) & 1, "standby_z": raw[1] & 1, "idle_a_condition_timer": u32(2), "standby_z_condition_timer": u32(6),
                              "idle_b_condition_timer": u32(10), "idle_c_condition_timer": u32(14), "standby_y_condition_timer": u32(18),
                              "ccf_idle": raw[37] >> 6, "ccf_standby": (raw[37] >> 4) & 3, "ccf_stopped": (raw[37] >> 2) & 3}}
    if rng.random() < 0.5:
        code = rng.choice([0x01, 0x08, 0x1A, 0x1C, 0x18, 0x00 if False else 0x03])
        return {"ps": rng.getrandbits(1), "spf": 0, "page_code": code, "_raw": gen.byte_string(rng, rng.choice([2, 6, 10, 18, 22]))}
    n = rng.choice([4, 12, 44, 100, 252] + ([256, 260, 300, 1000] if long_ok else []))
    return {"ps": rng.getrandbits(1), "spf": 1, "page_code": rng.choice([0x19, 0x18, 0x1A, 0x0A]), "sub_page_code": rng.choice([0x02, 0x03, 0xF1, 0xFE]),
            "_raw": gen.byte_string(rng, n)}


def encode_mode_page(p):
    if "_raw" in p:
        if p["spf"]:
            return bytes(PAGE_HDR1.encode({"ps": p["ps"], "spf": 1, "page_code": p["page_code"], "sub_page_code": p["sub_page_code"],
                                           "page_length": len(p["_raw"])}, bytearray(4))) + bytes(p["_raw"])
        return bytes(PAGE_HDR0.encode({"ps": p["ps"], "spf": 0, "page_code": p["page_code"], "page_length": len(p["_raw"])}, bytearray(2))) + bytes(p["_raw"])
    key = (p["page_code"], p.get("sub_page_code") if p["spf"] else None)
    st = MODE_PAGES[key]
    b = bytearray(st.size)
    st.encode(p, b)
    if p["spf"]:
        PAGE_HDR1.encode({"ps": p["ps"], "spf": 1, "page_code": p["page_code"], "sub_page_code": p["sub_page_code"],
                          "page_length": st.size - 4}, b)
    else:
        PAGE_HDR0.encode({"ps": p["ps"], "spf": 0, "page_code": p["page_code"], "page_length": st.size - 2}, b)
    return bytes(b)


class ModeSense(Format):
    builder = True

    opaque_pages = True  # responses may carry pages without a field table (not so for what is handed to the *builders*)

    def __init__(self, ten, opaque_pages=True):
        self.ten = ten
        self.opaque_pages = opaque_pages
        self.name = "modesense10" if ten else "modesense6"
        self.decoder = ("scsi_cdb_modesense10", "ModeSense10") if ten else ("scsi_cdb_modesense6", "ModeSense6")

    def gen(self, rng, mode="rand"):
        v = {"medium_type": gen.rand_value(rng, 8), "device_specific_parameter": gen.rand_value(rng, 8)}
        if self.ten:
            v["longlba"] = 0
        nbd = 0
        pmode = "rand"
        key = None
        npages = 1
        if isinstance(mode, tuple) and mode[0] == "page":
            key, pmode, nbd = mode[1], mode[2], mode[3]
        elif isinstance(mode, tuple) and mode[0] == "pages":
            npages, nbd = mode[1], mode[2]
        elif mode == "rand":
            nbd = rng.choice([0, 0, 1, 2])
            npages = rng.choice([1, 1, 1, 2, 3, 4])
        if self.ten and nbd and rng.getrandbits(1):
            v["longlba"] = 1
        v["_block_descriptors"] = [gen.byte_string(rng, 16 if v.get("longlba") else 8) for _ in range(nbd)]
        if npages == 1 and mode == "rand" and self.opaque_pages and rng.random() < 0.1:
            v["mode_pages"] = [gen_opaque_mode_page(rng, self.ten)]  # a page without a field table, asked for alone
            while not self.ten and len(encode_mode_page(v["mode_pages"][0])) + 3 + 8 * nbd > 255:
                v["mode_pages"] = [gen_opaque_mode_page(rng, False)]
        elif npages == 1:
            v["mode_pages"] = [gen_mode_page(rng, key, pmode)]
        else:
            # what a device answers to page code 3Fh (return all pages): several pages, one after the other
            v["mode_pages"] = [gen_mode_page(rng, k, "rand") for k in rng.sample(list(MODE_PAGES), npages)]
            # ... among them pages without a field table, which must be stepped over by their length
            for _ in range(rng.choice([0, 1, 1, 2]) if self.opaque_pages else 0):
                v["mode_pages"].insert(rng.randint(0, len(v["mode_pages"])), gen_opaque_mode_page(rng, self.ten))
            if not self.ten:
                while len(b"".join(encode_mode_page(p) for p in v["mode_pages"])) + 3 + 8 * nbd > 255:
                    v["mode_pages"].pop()
        return v

    def encode(self, v):
        bd = b"".join(v["_block_descriptors"])
        pages = b"".join(encode_mode_page(p) for p in v["mode_pages"])
        if self.ten:
            h = MODE_HDR10.encode({"medium_type": v["medium_type"], "device_specific_parameter": v["device_specific_parameter"],
                                   "longlba": v["longlba"], "block_descriptor_length": len(bd),
                                   "mode_data_length": 8 + len(bd) + len(pages) - 2})
        else:
            h = MODE_HDR6.encode({"medium_type": v["medium_type"], "device_specific_parameter": v["device_specific_parameter"],
                                  "block_descriptor_length": len(bd), "mode_data_length": 4 + len(bd) + len(pages) - 1})
        return bytes(h) + bd + pages

    def length_sites(self, v, b):
        if self.ten:
            base = 8 + len(b"".join(v["_block_descriptors"]))
            return [(0, 2), (6, 2)] + ([(base + 1, 1)] if base + 1 < len(b) else [])
        base = 4 + len(b"".join(v["_block_descriptors"]))
        return [(0, 1), (3, 1)] + ([(base + 1, 1)] if base + 1 < len(b) else [])

    def walk_modes(self, small=False):
        for key, st in MODE_PAGES.items():
            for name, byte, a, w in st.fields:
                vals = gen.small_boundary(w) if small else gen.boundary(w)
                for fill in ("zero", "ones"):
                    for val in vals:
                        yield ("page", key, ("walk", name, val, fill), 0)
            for nbd in (0, 1, 2):
                yield ("page", key, "rand", nbd)
        for npages in (0, 2, 3, 4):
            for nbd in (0, 1):
                for _ in range(2 if small else 25):
                    yield ("pages", npages, nbd)


# -- READ CAPACITY ------------------------------------------------------------
class ReadCap10(StructFormat):
    name = "readcapacity10"
    decoder = ("scsi_cdb_readcapacity10", "ReadCapacity10")
    builder = True
    st = Struct([("returned_lba", 0, 7, 32), ("block_length", 4, 7, 32)], 8)


class ReadCap16(StructFormat):
    name = "readcapacity16"
    decoder = ("scsi_cdb_readcapacity16", "ReadCapacity16")
    builder = True
    st = Struct([("returned_lba", 0, 7, 64), ("block_length", 8, 7, 32), ("p_type", 12, 3, 3), ("prot_en", 12, 0, 1),
                 ("p_i_exponent", 13, 7, 4), ("lbppbe", 13, 3, 4), ("lbpme", 14, 7, 1), ("lbprz", 14, 6, 1),
                 ("lowest_aligned_lba", 14, 5, 14)], 32)


# -- list formats -----------------------------------------------------------
def counts(rng, mode):
    if isinstance(mode, tuple) and mode[0] == "count":
        return mode[1]
    # counts the library's code mentions (exactly 16, 32 ...); up to 300 only when the tree has literals the baseline lacks (the
    # mutation workloads are quadratic in the count: 40- and 300-entry lists have phases of their own)
    from vmon import srcdict

    v = gen.source_value(rng, 16, hi=300 if srcdict.novel_small(300) else 48)
    if v is not None:
        return v
    return rng.choice([0, 1, 1, 2, 3, 5, 9, rng.randrange(0, 40)])


class GetLbaStatus(Format):
    name = "getlbastatus"
    decoder = ("scsi_cdb_getlbastatus", "GetLBAStatus")
    builder = True
    D = Struct([("lba", 0, 7, 64), ("num_blocks", 8, 7, 32), ("p_status", 12, 3, 4)], 16)

    def gen(self, rng, mode="rand"):
        lbas = [gen_struct(self.D, rng) for _ in range(counts(rng, mode))]
        r = rng.random()
        if r < 0.45 and len(lbas) > 1:
            # an extent map as devices report it: every descriptor begins where the one before ends; neighbours with the same or
            # with alternating provisioning status, some of them equal in length
            lba = rng.choice([0, 0, 8, 1 << 20, (1 << 32) - 64, rng.getrandbits(40)])
            same = rng.random() < 0.5
            st = rng.randrange(3)
            for i, d in enumerate(lbas):
                d["lba"] = lba
                d["num_blocks"] = rng.choice([1, 8, 8, 2048, 65536, (1 << 31), rng.randint(1, 1 << 20)])
                d["p_status"] = st if same or rng.random() < 0.3 else (st + i) % 3
                lba = (lba + d["num_blocks"]) & ((1 << 64) - 1)
        elif r < 0.55 and lbas:
            # the same descriptor listed twice
            lbas.insert(rng.randrange(len(lbas) + 1), dict(rng.choice(lbas)))
        return {"lbas": lbas}

    def encode(self, v):
        body = b"".join(bytes(self.D.encode(d)) for d in v["lbas"])
        return bytes(be(4 + len(body), 4)) + bytes(4) + body

    def length_sites(self, v, b):
        return [(0, 4)]


class ReportLunsF(Format):
    name = "reportluns"
    decoder = ("scsi_cdb_report_luns", "ReportLuns")
    builder = True
    canonical_roundtrip = True

    def gen(self, rng, mode="rand"):
        luns = [gen.rand_value(rng, 64) for _ in range(counts(rng, mode))]
        r = rng.random()
        if r < 0.25 and luns:
            # as targets list them: LUN 0, 1, 2 ... in the first addressing level; or with an entry listed twice
            luns = [i << 48 for i in range(len(luns))]
        elif r < 0.35 and luns:
            luns.insert(rng.randrange(len(luns) + 1), rng.choice(luns))
        return {"_luns": luns}

    def encode(self, v):
        body = b"".join(bytes(be(l, 8)) for l in v["_luns"])
        return bytes(be(len(body), 4)) + bytes(4) + body

    def expect(self, v):
        return {"luns": [{"lun%d" % i: l} for i, l in enumerate(v["_luns"])]}

    def lib_input(self, v):
        # the builder's own vocabulary: a list of {"lun": value}
        return {"luns": [{"lun": l} for l in v["_luns"]]}

    def length_sites(self, v, b):
        return [(0, 4)]


class Rtpg(Format):
    name = "reporttargetportgroups"
    decoder = ("scsi_cdb_report_target_port_groups", "ReportTargetPortGroups")
    builder = True
    D = Struct([("pref", 0, 7, 1), ("asymmetric_access_state", 0, 3, 4), ("t_sup", 1, 7, 1), ("o_sup", 1, 6, 1),
                ("u_sup", 1, 3, 1), ("s_sup", 1, 2, 1), ("an_sup", 1, 1, 1), ("ao_sup", 1, 0, 1),
                ("target_port_group", 2, 7, 16), ("status_code", 5, 7, 8), ("vendor", 6, 7, 8), ("target_port_count", 7, 7, 8)], 8)

    def gen(self, rng, mode="rand"):
        ext = rng.getrandbits(1)
        if isinstance(mode, tuple) and mode[0] == "count":
            ext = mode[2]
        v = {"format_type": ext}
        if ext:
            v["implicit_transition_time"] = gen.rand_value(rng, 8)
        g = []
        for _ in range(counts(rng, mode)):
            d = gen_struct(self.D, rng, skip=("target_port_count",))
            # TARGET PORT COUNT is a full byte: mostly small groups, now and then one that needs the high bits of the count
            # (seed C04-31 masked the count to 7 bits; groups of <= 4 ports never noticed)
            # (not in the "count" modes: those make thousands of groups for the scaling measurements of C11)
            np = rng.choice([0, 1, 2, 4] if isinstance(mode, tuple) else [0, 1, 2, 4, 0, 1, 2, 4, 0, 1, 2, 4, 127, 128, 130, 255, rng.randrange(256)])
            d["target_port_count"] = np
            d["target_ports"] = [{"relative_target_port_id": gen.rand_value(rng, 16)} for _ in range(np)]
            g.append(d)
        v["target_port_group_descriptors"] = g
        return v

    def encode(self, v):
        body = b""
        if v["format_type"]:
            h = bytearray(4)
            put(h, 0, 6, 3, 1)
            h[1] = v["implicit_transition_time"]
            body += bytes(h)
        for d in v["target_port_group_descriptors"]:
            body += bytes(self.D.encode(d))
            for p in d["target_ports"]:
                body += bytes(2) + bytes(be(p["relative_target_port_id"], 2))
        return bytes(be(len(body), 4)) + body

    def expect(self, v):
        e = strip_private(v)
        if not v["format_type"] and not v["target_port_group_descriptors"]:
            e.pop("format_type", None)
        return e

    def length_sites(self, v, b):
        sites = [(0, 4)]
        off = 8 if v["format_type"] else 4
        for d in v["target_port_group_descriptors"]:
            sites.append((off + 7, 1))
            off += 8 + 4 * d["target_port_count"]
        return sites


class ReportPriorityF(Format):
    name = "reportpriority"
    decoder = ("scsi_cdb_report_priority", "ReportPriority")
    builder = False

    def gen(self, rng, mode="rand"):
        n = counts(rng, mode)
        out = []
        for _ in range(n):
            t = gen_transport_id(rng)
            out.append({"current_priority": gen.rand_value(rng, 4), "rtpi": gen.rand_value(rng, 16), "_tid": t})
        return {"priority_descriptors": out}

    def encode(self, v):
        body = b""
        for d in v["priority_descriptors"]:
            t = encode_transport_id(d["_tid"])
            h = bytearray(8)
            put(h, 0, 3, 4, d["current_priority"])
            h[2:4] = be(d["rtpi"], 2)
            h[6:8] = be(len(t), 2)
            body += bytes(h) + t
        return bytes(be(len(body), 4)) + body

    def expect(self, v):
        return {"priority_descriptors": [{"current_priority": d["current_priority"], "rtpi": d["rtpi"], "adlen": len(encode_transport_id(d["_tid"])),
                                          "transport_id": encode_transport_id(d["_tid"])} for d in v["priority_descriptors"]]}

    def length_sites(self, v, b):
        sites = [(0, 4)]
        off = 4
        for d in v["priority_descriptors"]:
            sites.append((off + 6, 2))
            off += 8 + len(encode_transport_id(d["_tid"]))
        return sites


class ReadElementStatusF(Format):
    name = "readelementstatus"
    decoder = ("scsi_cdb_readelementstatus", "ReadElementStatus")
    builder = True
    canonical_roundtrip = False  # builder documents that it writes no volume tags / fixed 4-byte tail
    COMMON = [("element_address", 0, 7, 16), ("except", 2, 2, 1), ("full", 2, 0, 1),
              ("additional_sense_code", 4, 7, 8), ("additional_sense_code_qualifier", 5, 7, 8),
              ("svalid", 9, 7, 1), ("invert", 9, 6, 1), ("ed", 9, 3, 1), ("medium_type", 9, 2, 3),
              ("source_storage_element_address", 10, 7, 16)]
    BYTYPE = {
        1: Struct(COMMON, 12),
        2: Struct(COMMON + [("access", 2, 3, 1)], 12),
        3: Struct(COMMON + [("oir", 2, 7, 1), ("cmc", 2, 6, 1), ("inenab", 2, 5, 1), ("exenab", 2, 4, 1), ("access", 2, 3, 1),
                            ("impexp", 2, 1, 1)], 12),
        4: Struct(COMMON + [("access", 2, 3, 1)], 12),
    }

    def gen(self, rng, mode="rand"):
        v = {"first_element_address": gen.rand_value(rng, 16), "num_elements": 0, "element_status_pages": []}
        npages = counts(rng, mode) if isinstance(mode, tuple) else rng.choice([0, 1, 2, 3])
        big = 0
        if npages > 5:
            big, npages = npages, 1
        for _ in range(npages):
            t = rng.choice([1, 2, 3, 4])
            p = {"element_type": t, "pvoltag": rng.getrandbits(1), "avoltag": rng.getrandbits(1),
                 "_tail": rng.choice([0, 4, 4, 8]), "element_descriptors": []}
            for _ in range(big or rng.choice([0, 1, 2, 4])):
                d = gen_struct(self.BYTYPE[t], rng)
                empty = rng.random() < 0.12  # an empty element: nothing set, no tag (zero filled)
                if empty:
                    d = {k: (bytes(len(x)) if isinstance(x, (bytes, bytearray)) else 0) for k, x in d.items()}
                if p["pvoltag"]:
                    d["primary_volume_tag"] = bytes(36) if empty else gen.byte_string(rng, 36, "text")
                if p["avoltag"]:
                    d["alternate_volume_tag"] = bytes(36) if empty else gen.byte_string(rng, 36, "text")
                p["element_descriptors"].append(d)
            v["num_elements"] += len(p["element_descriptors"])
            v["element_status_pages"].append(p)
        return v

    def desc_len(self, p):
        return 12 + (36 if p["pvoltag"] else 0) + (36 if p["avoltag"] else 0) + p["_tail"]

    def encode(self, v):
        body = b""
        for p in v["element_status_pages"]:
            dl = self.desc_len(p)
            descs = b""
            for d in p["element_descriptors"]:
                x = bytes(self.BYTYPE[p["element_type"]].encode(d))
                if p["pvoltag"]:
                    x += bytes(d["primary_volume_tag"])
                if p["avoltag"]:
                    x += bytes(d["alternate_volume_tag"])
                x += bytes(p["_tail"])
                descs += x
            h = bytearray(8)
            h[0] = p["element_type"]
            put(h, 1, 7, 1, p["pvoltag"])
            put(h, 1, 6, 1, p["avoltag"])
            h[2:4] = be(dl, 2)
            h[5:8] = be(len(descs), 3)
            body += bytes(h) + descs
        hdr = bytearray(8)
        hdr[0:2] = be(v["first_element_address"], 2)
        hdr[2:4] = be(v["num_elements"], 2)
        hdr[5:8] = be(len(body), 3)
        return bytes(hdr) + body

    def length_sites(self, v, b):
        sites = [(5, 3), (2, 2)]
        off = 8
        for p in v["element_status_pages"]:
            sites.append((off + 2, 2))
            sites.append((off + 5, 3))
            off += 8 + self.desc_len(p) * len(p["element_descriptors"])
        return sites


# -- PERSISTENT RESERVE IN ----------------------------------------------------
class PrInKeys(Format):
    name = "prin.readkeys"
    decoder = ("scsi_cdb_persistentreservein", "PersistentReserveInReadKeys")

    def gen(self, rng, mode="rand"):
        return {"pr_generation": gen.rand_value(rng, 32), "reservation_keys": [gen.rand_value(rng, 64) for _ in range(counts(rng, mode))]}

    def encode(self, v):
        body = b"".join(bytes(be(k, 8)) for k in v["reservation_keys"])
        return bytes(be(v["pr_generation"], 4)) + bytes(be(len(body), 4)) + body

    def length_sites(self, v, b):
        return [(4, 4)]


class PrInReservation(Format):
    name = "prin.readreservation"
    decoder = ("scsi_cdb_persistentreservein", "PersistentReserveInReadReservation")

    def gen(self, rng, mode="rand"):
        v = {"pr_generation": gen.rand_value(rng, 32)}
        held = rng.getrandbits(1) if not isinstance(mode, tuple) else mode[1] > 0
        if held:
            v.update({"reservation_key": gen.rand_value(rng, 64), "scope": gen.rand_value(rng, 4), "type": gen.rand_value(rng, 4)})
        return v

    def encode(self, v):
        if "reservation_key" not in v:
            return bytes(be(v["pr_generation"], 4)) + bytes(4)
        b = bytearray(24)
        b[0:4] = be(v["pr_generation"], 4)
        b[4:8] = be(16, 4)
        b[8:16] = be(v["reservation_key"], 8)
        put(b, 21, 7, 4, v["scope"])
        put(b, 21, 3, 4, v["type"])
        return bytes(b)

    def length_sites(self, v, b):
        return [(4, 4)]


class PrInCaps(Format):
    name = "prin.reportcapabilities"
    decoder = ("scsi_cdb_persistentreservein", "PersistentReserveInReportCapabilities")
    ST = Struct([("rlr_c", 2, 7, 1), ("crh", 2, 4, 1), ("sip_c", 2, 3, 1), ("atp_c", 2, 2, 1), ("ptpl_c", 2, 0, 1),
                 ("tmv", 3, 7, 1), ("allow_commands", 3, 6, 3), ("ptpl_a", 3, 0, 1)], 8)
    MASK = Struct([("wr_ex_ar", 4, 7, 1), ("ex_ac_ro", 4, 6, 1), ("wr_ex_ro", 4, 5, 1), ("ex_ac", 4, 3, 1), ("wr_ex", 4, 1, 1),
                   ("ex_ac_ar", 5, 0, 1)], 8)

    def gen(self, rng, mode="rand"):
        v = gen_struct(self.ST, rng)
        v["pr_type_mask"] = gen_struct(self.MASK, rng)
        return v

    def encode(self, v):
        b = bytearray(8)
        b[0:2] = be(8, 2)
        self.ST.encode(v, b)
        self.MASK.encode(v["pr_type_mask"], b)
        return bytes(b)

    def length_sites(self, v, b):
        return [(0, 2)]


class PrInFullStatus(Format):
    name = "prin.readfullstatus"
    decoder = ("scsi_cdb_persistentreservein", "PersistentReserveInReadFullStatus")
    D = Struct([("reservation_key", 0, 7, 64), ("all_tg_pt", 12, 1, 1), ("r_holder", 12, 0, 1), ("scope", 13, 7, 4), ("type", 13, 3, 4),
                ("relative_target_port_id", 18, 7, 16)], 24)

    def gen(self, rng, mode="rand"):
        out = []
        for _ in range(counts(rng, mode)):
            d = gen_struct(self.D, rng)
            d["transport_id"] = gen_transport_id(rng)
            out.append(d)
        return {"pr_generation": gen.rand_value(rng, 32), "full_status": out}

    def encode(self, v):
        body = b""
        for d in v["full_status"]:
            t = encode_transport_id(d["transport_id"])
            h = self.D.encode(d)
            h[20:24] = be(len(t), 4)
            body += bytes(h) + t
        return bytes(be(v["pr_generation"], 4)) + bytes(be(len(body), 4)) + body

    def expect(self, v):
        e = {"pr_generation": v["pr_generation"], "full_status": []}
        for d in v["full_status"]:
            x = {k: d[k] for k in d if k != "transport_id"}
            x["transport_id"] = expect_transport_id(d["transport_id"])
            e["full_status"].append(x)
        return e

    def length_sites(self, v, b):
        sites = [(4, 4)]
        off = 8
        for d in v["full_status"]:
            sites.append((off + 20, 4))
            off += 24 + len(encode_transport_id(d["transport_id"]))
        return sites


# -- READ DISC INFORMATION ------------------------------------------------
class DiscInfo(Format):
    decoder = ("scsi_cdb_readdiscinformation", "ReadDiscInformation")
    STD = Struct([("erasable", 2, 4, 1), ("state_of_last_session", 2, 3, 2), ("disc_status", 2, 1, 2),
                  ("number_of_first_track_on_disc", 3, 7, 8), ("_sessions_lsb", 4, 7, 8), ("_ftls_lsb", 5, 7, 8), ("_ltls_lsb", 6, 7, 8),
                  ("did_v", 7, 7, 1), ("dbc_v", 7, 6, 1), ("uru", 7, 5, 1), ("dac_v", 7, 4, 1), ("legacy", 7, 2, 1),
                  ("bg_format_status", 7, 1, 2), ("disc_type", 8, 7, 8), ("_sessions_msb", 9, 7, 8), ("_ftls_msb", 10, 7, 8),
                  ("_ltls_msb", 11, 7, 8), ("disc_identification", 12, 7, 32),
                  ("last_session_lead_in_start_address", 16, "b", 4), ("last_possible_lead_out_start_address", 20, "b", 4),
                  ("disc_bar_code", 24, "b", 8), ("disc_application_code", 32, 7, 8), ("number_of_opc_tables", 33, 7, 8)], 34)
    TRK = Struct([("maximum_possible_number_of_the_tracks", 4, 7, 16), ("number_of_the_assigned_tracks", 6, 7, 16),
                  ("maximum_possible_number_of_appendable_tracks", 8, 7, 16), ("current_number_of_appendable_tracks", 10, 7, 16)], 12)
    POW = Struct([("remaining_pow_replacements", 4, 7, 32), ("remaining_pow_reallocation_map_entries", 8, 7, 32),
                  ("number_of_remaining_pow_updates", 12, 7, 32)], 16)

    def __init__(self, dtype):
        self.dtype = dtype
        self.name = "readdiscinformation.type%d" % dtype
        self.st = [self.STD, self.TRK, self.POW][dtype]

    def gen(self, rng, mode="rand"):
        if not (isinstance(mode, tuple) and mode[0] == "walk"):
            v = gen_struct(self.st, rng)
            if self.dtype == 0 and rng.random() < 0.5:
                v["disc_type"] = rng.choice([0x00, 0x10, 0x20, 0xFF])
        else:
            _m, field, value, fill = mode
            v = {}
            for name, byte, a, w in self.st.fields:
                if a == "b":
                    v[name] = bytes(w)
                else:
                    v[name] = 0 if fill == "zero" else (1 << w) - 1
            v[field] = value
        v["disc_information_data_type"] = self.dtype
        return v

    def encode(self, v):
        b = self.st.encode(v)
        put(b, 2, 7, 3, self.dtype)
        b[0:2] = be(len(b) - 2, 2)
        return bytes(b)

    def expect(self, v):
        e = {k: x for k, x in v.items() if not k.startswith("_")}
        if self.dtype == 0:
            e["number_of_sessions"] = v["_sessions_msb"] * 256 + v["_sessions_lsb"]
            e["first_track_number_in_last_session"] = v["_ftls_msb"] * 256 + v["_ftls_lsb"]
            e["last_track_number_in_last_session"] = v["_ltls_msb"] * 256 + v["_ltls_lsb"]
        e["disc_information_length"] = self.st.size - 2
        return e

    def walk_modes(self, small=False):
        for name, byte, a, w in self.st.fields:
            if a == "b":
                continue
            vals = gen.small_boundary(w) if small else gen.boundary(w)
            for fill in ("zero", "ones"):
                for val in vals:
                    yield ("walk", name, val, fill)

    def length_sites(self, v, b):
        return [(0, 2)]


# -- READ CD -----------------------------------------------------------------
class ReadCdF(Format):
    name = "readcd"
    decoder = ("scsi_cdb_readcd", "ReadCd")
    Q = Struct([("c", 0, 7, 4), ("adr", 0, 3, 4), ("track-number", 1, 7, 8), ("index-number", 2, 7, 8), ("min", 3, 7, 8),
                ("sec", 4, 7, 8), ("frame", 5, 7, 8), ("zero", 6, 7, 8), ("amin", 7, 7, 8), ("asec", 8, 7, 8), ("aframe", 9, 7, 8),
                ("crc", 10, 7, 16), ("p", 15, 7, 1)], 16)

    def layouts(self):
        from .cdb import readcd_sector_bytes

        out = []
        for est in (1, 2, 3, 4, 5):
            for mcsb in range(32):
                for c2 in (0, 1, 2):
                    for sc in (0, 1, 2, 4):
                        n = readcd_sector_bytes(est, mcsb, c2, sc)
                        if n:
                            out.append((est, mcsb, c2, sc))
        return out

    def gen(self, rng, mode="rand"):
        if isinstance(mode, tuple) and mode[0] == "layout":
            est, mcsb, c2, sc = mode[1]
            tl = mode[2]
        else:
            est, mcsb, c2, sc = rng.choice(self.layouts())
            tl = rng.choice([1, 1, 2, 3])
        lba = rng.choice([0, 1, 16, 1000, 0xFFFF, 1 << 20])
        v = {"_lba": lba, "_tl": tl, "_est": est, "_mcsb": mcsb, "_c2ei": c2, "_scsb": sc, "_sectors": []}
        user = {1: 2352, 2: 2048, 3: 2336, 4: 2048, 5: 2324}[est]
        for i in range(tl):
            s = {}
            if mcsb & 0x10:
                s["sync"] = gen.byte_string(rng, 12)
            if mcsb & 0x04:
                s["sector-header"] = {"minute": rng.getrandbits(8), "second": rng.getrandbits(8), "frame": rng.getrandbits(8), "mode": rng.getrandbits(8)}
            if mcsb & 0x08:
                sh = gen.byte_string(rng, 4, "rand")
                s["_subheader"] = sh
            if mcsb & 0x02:
                s["data"] = gen.byte_string(rng, user, rng.choice(["asc", "rand", "ff"]))
            if mcsb & 0x01:
                s["edc"] = gen.byte_string(rng, 4)
                if est in (2, 4):
                    s["p-parity"] = gen.byte_string(rng, 172)
                    s["q-parity"] = gen.byte_string(rng, 104)
            if c2 == 1:
                s["c2ei-data"] = gen.byte_string(rng, 294)
            elif c2 == 2:
                s["_c2"] = gen.byte_string(rng, 296)
            if sc == 2:
                q = gen_struct(self.Q, rng)
                if rng.random() < 0.7:
                    # a frame as a drive delivers it: ADR 1 (position), 2 (catalogue number) or 3 (ISRC), and the CRC of the first
                    # ten bytes (x^16 + x^12 + x^5 + 1, stored inverted)
                    import binascii

                    q["adr"] = rng.choice([1, 1, 2, 3])
                    q["crc"] = 0
                    q["crc"] = binascii.crc_hqx(bytes(self.Q.encode(q))[:10], 0) ^ 0xFFFF
                s["_q"] = q
            elif sc in (1, 4):
                s["_raw"] = gen.byte_string(rng, 96)
            v["_sectors"].append(s)
        return v

    def encode(self, v):
        out = b""
        est, mcsb = v["_est"], v["_mcsb"]
        for s in v["_sectors"]:
            if "sync" in s:
                out += s["sync"]
            if "sector-header" in s:
                h = s["sector-header"]
                out += bytes([h["minute"], h["second"], h["frame"], h["mode"]])
            if "_subheader" in s:
                out += s["_subheader"] * 2
            if "data" in s:
                out += s["data"]
            if "edc" in s:
                out += s["edc"]
                if est == 2:
                    out += bytes(8)
                if est in (2, 4):
                    out += s["p-parity"] + s["q-parity"]
            if "c2ei-data" in s:
                out += s["c2ei-data"]
            if "_c2" in s:
                out += s["_c2"]
            if "_q" in s:
                out += bytes(self.Q.encode(s["_q"]))
            if "_raw" in s:
                out += s["_raw"]
        return out

    def decode_kwargs(self, v):
        kw = {"lba": v["_lba"], "tl": v["_tl"], "est": v["_est"], "mcsb": v["_mcsb"], "c2ei": v["_c2ei"], "scsb": v["_scsb"]}
        # optional arguments left at their documented default (0) are omitted, as a caller would
        return {k: x for k, x in kw.items() if x or k in ("lba", "tl")}

    def expect(self, v):
        e = {}
        for i, s in enumerate(v["_sectors"]):
            x = {k: val for k, val in s.items() if not k.startswith("_")}
            if "_subheader" in s:
                sh = s["_subheader"]
                one = {"file-number": sh[0], "channel-number": sh[1], "sub-mode": sh[2], "data": sh}
                x["sector-subheader"] = [one, dict(one)]
            if "_c2" in s:
                x["c2ei"] = {"data": s["_c2"]}
            if "_q" in s:
                q = dict(s["_q"])
                q["data"] = bytes(self.Q.encode(s["_q"]))
                x["subchannel"] = q
            if "_raw" in s:
                x["subchannel"] = {"data": s["_raw"]}
            e[v["_lba"] + i] = x
        return e


def all_formats():
    return [
        StdInquiry(), VpdSupported(), VpdSerial(), VpdDevId(), VpdExtended(), VpdAta(), VpdBlockLimits(), VpdBlockDevChar(),
        VpdLbp(), VpdReferrals(), ModeSense(False), ModeSense(True), ReadCap10(), ReadCap16(), GetLbaStatus(), ReportLunsF(),
        Rtpg(), ReportPriorityF(), ReadElementStatusF(), PrInKeys(), PrInReservation(), PrInCaps(), PrInFullStatus(),
        DiscInfo(0), DiscInfo(1), DiscInfo(2), ReadCdF(),
    ]


FORMATS = {f.name: f for f in all_formats()}
REFERENCE_GAPS = [
    "SOP TransportID routing-id position (library's position used; only size/protocol nibble checked)",
    "fields of mode pages other than 02h, 0Ah, 0Ah/01h, 1Dh (the library has no tables for them; such pages are generated and must be stepped over; for the power condition page 1Ah the values are known under the names of the library's unused table and are compared if a decoder ever reports them)",
]


# ---------------------------------------------------------------------------
# how the facade asks for each format (method, kwargs); table = opcode set
def _facade_map():
    F = FORMATS
    F["inquiry.standard"].facade = lambda v, n: ("inquiry", {"alloclen": n})
    for k, f in F.items():
        if k.startswith("inquiry.vpd"):
            f.facade = (lambda page: (lambda v, n: ("inquiry", {"evpd": 1, "page_code": page, "alloclen": n})))(f.page)

    def ms(method):
        def g(v, n):
            if len(v["mode_pages"]) != 1:
                return (method, {"page_code": 0x3F, "sub_page_code": 0, "alloclen": n})  # return all pages
            p = v["mode_pages"][0]
            return (method, {"page_code": p["page_code"], "sub_page_code": p.get("sub_page_code", 0), "alloclen": n})
        return g

    F["modesense6"].facade = ms("modesense6")
    F["modesense10"].facade = ms("modesense10")
    F["readcapacity10"].facade = lambda v, n: ("readcapacity10", {"alloclen": n})
    F["readcapacity16"].facade = lambda v, n: ("readcapacity16", {"alloclen": n})
    F["getlbastatus"].facade = lambda v, n: ("getlbastatus", {"lba": 0, "alloclen": n})
    F["reportluns"].facade = lambda v, n: ("reportluns", {"alloclen": n})
    F["reporttargetportgroups"].facade = lambda v, n: ("reporttargetportgroups", {"data_format": v["format_type"], "alloclen": n})
    F["reportpriority"].facade = lambda v, n: ("reportpriority", {"alloclen": n})
    F["readelementstatus"].facade = lambda v, n: ("readelementstatus", {"start": 0, "num": 0xFFFF, "alloclen": n})
    F["readelementstatus"].facade_table = "smc"
    F["prin.readkeys"].facade = lambda v, n: ("persistentreservein", {"service_action": 0, "alloclen": n})
    F["prin.readreservation"].facade = lambda v, n: ("persistentreservein", {"service_action": 1, "alloclen": n})
    F["prin.reportcapabilities"].facade = lambda v, n: ("persistentreservein", {"service_action": 2, "alloclen": n})
    F["prin.readfullstatus"].facade = lambda v, n: ("persistentreservein", {"service_action": 3, "alloclen": n})
    for t in (0, 1, 2):
        f = F["readdiscinformation.type%d" % t]
        f.facade = (lambda tt: (lambda v, n: ("readdiscinformation", {"data_type": tt, "alloc_len": n})))(t)
        f.facade_table = "mmc"
    F["readcd"].facade = lambda v, n: ("readcd", {"lba": v["_lba"], "tl": v["_tl"], "est": v["_est"], "mcsb": v["_mcsb"],
                                                  "c2ei": v["_c2ei"], "scsb": v["_scsb"]})
    F["readcd"].facade_table = "mmc"


_facade_map()
