"""Reference sense-data layout (SPC-4 4.5) and a reference subset of the T10
ASC/ASCQ assignments (asc-num.txt) that I can state with certainty."""

SENSE_KEYS = {
    0x0: "NO SENSE", 0x1: "RECOVERED ERROR", 0x2: "NOT READY", 0x3: "MEDIUM ERROR", 0x4: "HARDWARE ERROR",
    0x5: "ILLEGAL REQUEST", 0x6: "UNIT ATTENTION", 0x7: "DATA PROTECT", 0x8: "BLANK CHECK", 0x9: "VENDOR SPECIFIC",
    0xA: "COPY ABORTED", 0xB: "ABORTED COMMAND", 0xD: "VOLUME OVERFLOW", 0xE: "MISCOMPARE", 0xF: "COMPLETED",
}
# key Ch: obsolete (EQUAL) / reserved: no reference text


def parse(buf):
    """(format, deferred, key, asc, ascq) at the SPC positions; bytes beyond a
    truncated buffer read as 0.  format None for unknown response codes."""
    b = bytes(buf)

    def at(i):
        return b[i] if i < len(b) else 0

    rc = at(0) & 0x7F
    if rc in (0x70, 0x71):
        return "fixed", rc == 0x71, at(2) & 0x0F, at(12), at(13)
    if rc in (0x72, 0x73):
        return "descriptor", rc == 0x73, at(1) & 0x0F, at(2), at(3)
    return None, None, None, None, None


def descriptor(kind, rng, inner=None):
    """one well-formed sense data descriptor (SPC-4 4.5.2): bytes"""
    if kind == "information":
        return bytes([0x00, 0x0A, 0x80, 0x00]) + bytes(rng.getrandbits(8) for _ in range(8))
    if kind == "command_specific":
        return bytes([0x01, 0x0A, 0x00, 0x00]) + bytes(rng.getrandbits(8) for _ in range(8))
    if kind == "sense_key_specific":
        return bytes([0x02, 0x06, 0x00, 0x00, 0x80 | rng.getrandbits(7), rng.getrandbits(8), rng.getrandbits(8), 0x00])
    if kind == "fru":
        return bytes([0x03, 0x02, 0x00, rng.getrandbits(8)])
    if kind == "stream":
        return bytes([0x04, 0x02, 0x00, rng.choice([0x20, 0x40, 0x80])])
    if kind == "block":
        return bytes([0x05, 0x02, 0x00, 0x20])
    if kind == "ata_status":
        return bytes([0x09, 0x0C]) + bytes(rng.getrandbits(8) for _ in range(12))
    if kind == "forwarded":
        # forwarded sense data (0Ch): FSDT/source, forwarded status, then a complete sense data of another command
        inner = inner if inner is not None else build(rng.choice([0x70, 0x72]), 0, rng.randrange(1, 15), rng.randrange(1, 0x70), rng.randrange(0, 0x20), 18)
        body = bytes([rng.choice([0x01, 0x02, 0x81]), 0x02]) + bytes(inner)
        while (len(body) + 2) % 4:
            body += b"\x00"
        return bytes([0x0C, len(body)]) + body
    if kind == "forwarded_status_only":
        # the copy destination ended with a status other than CHECK CONDITION: source and status, no sense data to forward
        return bytes([0x0C, 0x02, rng.choice([0x01, 0x02, 0x81]), rng.choice([0x08, 0x18, 0x28, 0x30, 0x40])])
    if kind == "vendor_empty":
        return bytes([rng.choice([0x80, 0x81, 0xFF]), 0x00])
    if kind == "progress":
        return bytes([0x0A, 0x06, rng.randrange(16), rng.getrandbits(8), rng.getrandbits(8), 0x00, rng.getrandbits(8), rng.getrandbits(8)])
    if kind == "user_data_segment":
        inner = build(0x72, 0, 0x0A, 0x0D, 0x02, 8)
        return bytes([0x0B, 0x0E, 0x00, 0x00]) + bytes(rng.getrandbits(8) for _ in range(4)) + inner
    if kind == "direct_access_block":
        return bytes([0x0D, 0x1E, 0xA0, 0x00, 0x80 | rng.getrandbits(7), rng.getrandbits(8), rng.getrandbits(8), rng.getrandbits(8)]) + bytes(rng.getrandbits(8) for _ in range(24))
    if kind == "osd_object_id":
        return bytes([0x06, 0x20]) + bytes(rng.getrandbits(8) for _ in range(32))
    if kind == "vendor":
        return bytes([0x80, 0x04, 1, 2, 3, 4])
    raise KeyError(kind)


DESCRIPTOR_KINDS = ["information", "command_specific", "sense_key_specific", "fru", "stream", "block", "ata_status", "forwarded", "vendor",
                    "forwarded_status_only", "vendor_empty", "progress", "user_data_segment", "direct_access_block", "osd_object_id"]


def build_with_descriptors(rc, key, asc, ascq, descs):
    """descriptor-format sense data (72h/73h) carrying the given descriptors"""
    body = b"".join(descs)
    b = bytearray(8) + body
    b[0] = rc
    b[1] = key
    b[2] = asc
    b[3] = ascq
    b[7] = len(body)
    return bytes(b)


def build(rc, valid, key, asc, ascq, length, filler=None, info=0):
    """a sense buffer of `length` bytes with the given values at the SPC positions"""
    n = max(length, 1)
    b = bytearray(filler[:n] if filler is not None else bytes(n))
    if len(b) < n:
        b += bytes(n - len(b))

    def put(i, v):
        if i < n:
            b[i] = v

    put(0, (0x80 if valid else 0) | rc)
    if rc in (0x70, 0x71):
        if 2 < n:
            b[2] = (b[2] & 0xF0) | key
        for i in range(4):
            put(3 + i, (info >> (8 * (3 - i))) & 0xFF)
        put(7, max(0, n - 8))
        put(12, asc)
        put(13, ascq)
    elif rc in (0x72, 0x73):
        if 1 < n:
            b[1] = (b[1] & 0xF0) | key
        put(2, asc)
        put(3, ascq)
        put(7, max(0, n - 8))
    return bytes(b)


def norm(s):
    return "".join(ch for ch in s.upper() if ch.isalnum())


ASC = {
    (0x00, 0x00): "NO ADDITIONAL SENSE INFORMATION",
    (0x00, 0x01): "FILEMARK DETECTED",
    (0x00, 0x02): "END-OF-PARTITION/MEDIUM DETECTED",
    (0x00, 0x03): "SETMARK DETECTED",
    (0x00, 0x04): "BEGINNING-OF-PARTITION/MEDIUM DETECTED",
    (0x00, 0x05): "END-OF-DATA DETECTED",
    (0x00, 0x06): "I/O PROCESS TERMINATED",
    (0x00, 0x11): "AUDIO PLAY OPERATION IN PROGRESS",
    (0x00, 0x12): "AUDIO PLAY OPERATION PAUSED",
    (0x00, 0x13): "AUDIO PLAY OPERATION SUCCESSFULLY COMPLETED",
    (0x00, 0x14): "AUDIO PLAY OPERATION STOPPED DUE TO ERROR",
    (0x00, 0x15): "NO CURRENT AUDIO STATUS TO RETURN",
    (0x00, 0x16): "OPERATION IN PROGRESS",
    (0x00, 0x17): "CLEANING REQUESTED",
    (0x01, 0x00): "NO INDEX/SECTOR SIGNAL",
    (0x02, 0x00): "NO SEEK COMPLETE",
    (0x03, 0x00): "PERIPHERAL DEVICE WRITE FAULT",
    (0x03, 0x01): "NO WRITE CURRENT",
    (0x03, 0x02): "EXCESSIVE WRITE ERRORS",
    (0x04, 0x00): "LOGICAL UNIT NOT READY, CAUSE NOT REPORTABLE",
    (0x04, 0x01): "LOGICAL UNIT IS IN PROCESS OF BECOMING READY",
    (0x04, 0x02): "LOGICAL UNIT NOT READY, INITIALIZING COMMAND REQUIRED",
    (0x04, 0x03): "LOGICAL UNIT NOT READY, MANUAL INTERVENTION REQUIRED",
    (0x04, 0x04): "LOGICAL UNIT NOT READY, FORMAT IN PROGRESS",
    (0x04, 0x05): "LOGICAL UNIT NOT READY, REBUILD IN PROGRESS",
    (0x04, 0x06): "LOGICAL UNIT NOT READY, RECALCULATION IN PROGRESS",
    (0x04, 0x07): "LOGICAL UNIT NOT READY, OPERATION IN PROGRESS",
    (0x04, 0x08): "LOGICAL UNIT NOT READY, LONG WRITE IN PROGRESS",
    (0x04, 0x09): "LOGICAL UNIT NOT READY, SELF-TEST IN PROGRESS",
    (0x04, 0x0A): "LOGICAL UNIT NOT ACCESSIBLE, ASYMMETRIC ACCESS STATE TRANSITION",
    (0x04, 0x0B): "LOGICAL UNIT NOT ACCESSIBLE, TARGET PORT IN STANDBY STATE",
    (0x04, 0x0C): "LOGICAL UNIT NOT ACCESSIBLE, TARGET PORT IN UNAVAILABLE STATE",
    (0x04, 0x11): "LOGICAL UNIT NOT READY, NOTIFY (ENABLE SPINUP) REQUIRED",
    (0x05, 0x00): "LOGICAL UNIT DOES NOT RESPOND TO SELECTION",
    (0x06, 0x00): "NO REFERENCE POSITION FOUND",
    (0x07, 0x00): "MULTIPLE PERIPHERAL DEVICES SELECTED",
    (0x08, 0x00): "LOGICAL UNIT COMMUNICATION FAILURE",
    (0x08, 0x01): "LOGICAL UNIT COMMUNICATION TIME-OUT",
    (0x08, 0x02): "LOGICAL UNIT COMMUNICATION PARITY ERROR",
    (0x09, 0x00): "TRACK FOLLOWING ERROR",
    (0x0A, 0x00): "ERROR LOG OVERFLOW",
    (0x0B, 0x00): "WARNING",
    (0x0B, 0x01): "WARNING - SPECIFIED TEMPERATURE EXCEEDED",
    (0x0B, 0x02): "WARNING - ENCLOSURE DEGRADED",
    (0x0C, 0x00): "WRITE ERROR",
    (0x0C, 0x01): "WRITE ERROR - RECOVERED WITH AUTO REALLOCATION",
    (0x0C, 0x02): "WRITE ERROR - AUTO REALLOCATION FAILED",
    (0x0C, 0x03): "WRITE ERROR - RECOMMEND REASSIGNMENT",
    (0x10, 0x00): "ID CRC OR ECC ERROR",
    (0x10, 0x01): "LOGICAL BLOCK GUARD CHECK FAILED",
    (0x10, 0x02): "LOGICAL BLOCK APPLICATION TAG CHECK FAILED",
    (0x10, 0x03): "LOGICAL BLOCK REFERENCE TAG CHECK FAILED",
    (0x11, 0x00): "UNRECOVERED READ ERROR",
    (0x11, 0x01): "READ RETRIES EXHAUSTED",
    (0x11, 0x02): "ERROR TOO LONG TO CORRECT",
    (0x11, 0x03): "MULTIPLE READ ERRORS",
    (0x11, 0x04): "UNRECOVERED READ ERROR - AUTO REALLOCATE FAILED",
    (0x11, 0x0B): "UNRECOVERED READ ERROR - RECOMMEND REASSIGNMENT",
    (0x11, 0x0C): "UNRECOVERED READ ERROR - RECOMMEND REWRITE THE DATA",
    (0x12, 0x00): "ADDRESS MARK NOT FOUND FOR ID FIELD",
    (0x13, 0x00): "ADDRESS MARK NOT FOUND FOR DATA FIELD",
    (0x14, 0x00): "RECORDED ENTITY NOT FOUND",
    (0x14, 0x01): "RECORD NOT FOUND",
    (0x15, 0x00): "RANDOM POSITIONING ERROR",
    (0x15, 0x01): "MECHANICAL POSITIONING ERROR",
    (0x15, 0x02): "POSITIONING ERROR DETECTED BY READ OF MEDIUM",
    (0x16, 0x00): "DATA SYNCHRONIZATION MARK ERROR",
    (0x17, 0x00): "RECOVERED DATA WITH NO ERROR CORRECTION APPLIED",
    (0x17, 0x01): "RECOVERED DATA WITH RETRIES",
    (0x18, 0x00): "RECOVERED DATA WITH ERROR CORRECTION APPLIED",
    (0x19, 0x00): "DEFECT LIST ERROR",
    (0x1A, 0x00): "PARAMETER LIST LENGTH ERROR",
    (0x1B, 0x00): "SYNCHRONOUS DATA TRANSFER ERROR",
    (0x1C, 0x00): "DEFECT LIST NOT FOUND",
    (0x1D, 0x00): "MISCOMPARE DURING VERIFY OPERATION",
    (0x1E, 0x00): "RECOVERED ID WITH ECC CORRECTION",
    (0x1F, 0x00): "PARTIAL DEFECT LIST TRANSFER",
    (0x20, 0x00): "INVALID COMMAND OPERATION CODE",
    (0x21, 0x00): "LOGICAL BLOCK ADDRESS OUT OF RANGE",
    (0x21, 0x01): "INVALID ELEMENT ADDRESS",
    (0x24, 0x00): "INVALID FIELD IN CDB",
    (0x25, 0x00): "LOGICAL UNIT NOT SUPPORTED",
    (0x26, 0x00): "INVALID FIELD IN PARAMETER LIST",
    (0x26, 0x01): "PARAMETER NOT SUPPORTED",
    (0x26, 0x02): "PARAMETER VALUE INVALID",
    (0x26, 0x03): "THRESHOLD PARAMETERS NOT SUPPORTED",
    (0x26, 0x04): "INVALID RELEASE OF PERSISTENT RESERVATION",
    (0x27, 0x00): "WRITE PROTECTED",
    (0x27, 0x01): "HARDWARE WRITE PROTECTED",
    (0x27, 0x02): "LOGICAL UNIT SOFTWARE WRITE PROTECTED",
    (0x28, 0x00): "NOT READY TO READY CHANGE, MEDIUM MAY HAVE CHANGED",
    (0x28, 0x01): "IMPORT OR EXPORT ELEMENT ACCESSED",
    (0x29, 0x00): "POWER ON, RESET, OR BUS DEVICE RESET OCCURRED",
    (0x29, 0x01): "POWER ON OCCURRED",
    (0x29, 0x02): "SCSI BUS RESET OCCURRED",
    (0x29, 0x03): "BUS DEVICE RESET FUNCTION OCCURRED",
    (0x29, 0x04): "DEVICE INTERNAL RESET",
    (0x29, 0x05): "TRANSCEIVER MODE CHANGED TO SINGLE-ENDED",
    (0x29, 0x06): "TRANSCEIVER MODE CHANGED TO LVD",
    (0x29, 0x07): "I_T NEXUS LOSS OCCURRED",
    (0x2A, 0x00): "PARAMETERS CHANGED",
    (0x2A, 0x01): "MODE PARAMETERS CHANGED",
    (0x2A, 0x02): "LOG PARAMETERS CHANGED",
    (0x2A, 0x03): "RESERVATIONS PREEMPTED",
    (0x2A, 0x04): "RESERVATIONS RELEASED",
    (0x2A, 0x05): "REGISTRATIONS PREEMPTED",
    (0x2A, 0x06): "ASYMMETRIC ACCESS STATE CHANGED",
    (0x2A, 0x07): "IMPLICIT ASYMMETRIC ACCESS STATE TRANSITION FAILED",
    (0x2A, 0x09): "CAPACITY DATA HAS CHANGED",
    (0x2B, 0x00): "COPY CANNOT EXECUTE SINCE HOST CANNOT DISCONNECT",
    (0x2C, 0x00): "COMMAND SEQUENCE ERROR",
    (0x2F, 0x00): "COMMANDS CLEARED BY ANOTHER INITIATOR",
    (0x30, 0x00): "INCOMPATIBLE MEDIUM INSTALLED",
    (0x30, 0x01): "CANNOT READ MEDIUM - UNKNOWN FORMAT",
    (0x30, 0x02): "CANNOT READ MEDIUM - INCOMPATIBLE FORMAT",
    (0x30, 0x03): "CLEANING CARTRIDGE INSTALLED",
    (0x31, 0x00): "MEDIUM FORMAT CORRUPTED",
    (0x31, 0x01): "FORMAT COMMAND FAILED",
    (0x32, 0x00): "NO DEFECT SPARE LOCATION AVAILABLE",
    (0x35, 0x00): "ENCLOSURE SERVICES FAILURE",
    (0x37, 0x00): "ROUNDED PARAMETER",
    (0x39, 0x00): "SAVING PARAMETERS NOT SUPPORTED",
    (0x3A, 0x00): "MEDIUM NOT PRESENT",
    (0x3A, 0x01): "MEDIUM NOT PRESENT - TRAY CLOSED",
    (0x3A, 0x02): "MEDIUM NOT PRESENT - TRAY OPEN",
    (0x3B, 0x00): "SEQUENTIAL POSITIONING ERROR",
    (0x3B, 0x0D): "MEDIUM DESTINATION ELEMENT FULL",
    (0x3B, 0x0E): "MEDIUM SOURCE ELEMENT EMPTY",
    (0x3D, 0x00): "INVALID BITS IN IDENTIFY MESSAGE",
    (0x3E, 0x00): "LOGICAL UNIT HAS NOT SELF-CONFIGURED YET",
    (0x3E, 0x01): "LOGICAL UNIT FAILURE",
    (0x3E, 0x02): "TIMEOUT ON LOGICAL UNIT",
    (0x3F, 0x00): "TARGET OPERATING CONDITIONS HAVE CHANGED",
    (0x3F, 0x01): "MICROCODE HAS BEEN CHANGED",
    (0x3F, 0x02): "CHANGED OPERATING DEFINITION",
    (0x3F, 0x03): "INQUIRY DATA HAS CHANGED",
    (0x3F, 0x0E): "REPORTED LUNS DATA HAS CHANGED",
    (0x43, 0x00): "MESSAGE ERROR",
    (0x44, 0x00): "INTERNAL TARGET FAILURE",
    (0x45, 0x00): "SELECT OR RESELECT FAILURE",
    (0x46, 0x00): "UNSUCCESSFUL SOFT RESET",
    (0x47, 0x00): "SCSI PARITY ERROR",
    (0x48, 0x00): "INITIATOR DETECTED ERROR MESSAGE RECEIVED",
    (0x49, 0x00): "INVALID MESSAGE ERROR",
    (0x4A, 0x00): "COMMAND PHASE ERROR",
    (0x4B, 0x00): "DATA PHASE ERROR",
    (0x4C, 0x00): "LOGICAL UNIT FAILED SELF-CONFIGURATION",
    (0x4E, 0x00): "OVERLAPPED COMMANDS ATTEMPTED",
    (0x53, 0x00): "MEDIA LOAD OR EJECT FAILED",
    (0x53, 0x02): "MEDIUM REMOVAL PREVENTED",
    (0x55, 0x00): "SYSTEM RESOURCE FAILURE",
    (0x55, 0x04): "INSUFFICIENT REGISTRATION RESOURCES",
    (0x5A, 0x00): "OPERATOR REQUEST OR STATE CHANGE INPUT",
    (0x5A, 0x01): "OPERATOR MEDIUM REMOVAL REQUEST",
    (0x5B, 0x00): "LOG EXCEPTION",
    (0x5D, 0x00): "FAILURE PREDICTION THRESHOLD EXCEEDED",
    (0x5D, 0xFF): "FAILURE PREDICTION THRESHOLD EXCEEDED (FALSE)",
    (0x5E, 0x00): "LOW POWER CONDITION ON",
    (0x5E, 0x01): "IDLE CONDITION ACTIVATED BY TIMER",
    (0x5E, 0x02): "STANDBY CONDITION ACTIVATED BY TIMER",
    (0x5E, 0x03): "IDLE CONDITION ACTIVATED BY COMMAND",
    (0x5E, 0x04): "STANDBY CONDITION ACTIVATED BY COMMAND",
    (0x63, 0x00): "END OF USER AREA ENCOUNTERED ON THIS TRACK",
    (0x64, 0x00): "ILLEGAL MODE FOR THIS TRACK",
    (0x65, 0x00): "VOLTAGE FAULT",
    (0x72, 0x00): "SESSION FIXATION ERROR",
    (0x73, 0x00): "CD CONTROL ERROR",
    (0x74, 0x00): "SECURITY ERROR",
}
