"""Reference parameter-list formats (data-out): generators of *valid
dictionaries in the library's vocabulary* together with the tree a
standards-conformant target must recover, and reference parsers that walk the
produced list using the embedded lengths (DESIGN.md Appendix B)."""
import copy

from .. import gen
from ..refcodec import Struct, from_be, get
from . import datain as D


class RefParseError(Exception):
    def __init__(self, mech, msg):
        Exception.__init__(self, msg)
        self.mech = mech


# ---------------------------------------------------------------------------
# MODE SELECT parameter lists
def gen_mode(rng, ten, mode="rand"):
    f = D.ModeSense(ten, opaque_pages=False)  # the builders only know pages with a field table
    v = f.gen(rng, mode if mode != "rand" else ("page", None, "rand", 0))
    v["_block_descriptors"] = []
    data = D.strip_private(v)
    a = {"data": data, "pf": rng.choice([1, 1, 0]), "sp": rng.getrandbits(1)}
    exp = {"medium_type": v["medium_type"], "device_specific_parameter": v["device_specific_parameter"],
           "block_descriptor_length": 0, "pages": [dict(p) for p in v["mode_pages"]]}
    if ten:
        exp["longlba"] = v["longlba"]
    return a, exp


def parse_mode(b, ten):
    b = bytes(b)
    hdr = D.MODE_HDR10 if ten else D.MODE_HDR6
    if len(b) < hdr.size:
        raise RefParseError("mode.header_truncated", "list shorter than its header")
    out = hdr.decode(b)
    follow = len(b) - (2 if ten else 1)
    mdl = out["mode_data_length"]
    if mdl not in (0, follow):
        raise RefParseError("mode.mode_data_length",
                            "MODE DATA LENGTH is %d; %d bytes follow (0 = reserved in MODE SELECT also accepted)" % (mdl, follow))
    off = hdr.size + out["block_descriptor_length"]
    if off > len(b):
        raise RefParseError("mode.block_descriptor_length", "block descriptors overrun the list")
    pages = []
    while off < len(b):
        if len(b) - off < 2:
            raise RefParseError("mode.page_truncated", "dangling byte after last page")
        spf = (b[off] >> 6) & 1
        if spf:
            if len(b) - off < 4:
                raise RefParseError("mode.page_truncated", "sub-page header truncated")
            h = D.PAGE_HDR1.decode(b, off)
            total = 4 + h["page_length"]
        else:
            h = D.PAGE_HDR0.decode(b, off)
            total = 2 + h["page_length"]
        if off + total > len(b):
            raise RefParseError("mode.page_length", "page %02Xh: PAGE LENGTH %d overruns the list" % (h["page_code"], h["page_length"]))
        key = (h["page_code"], h.get("sub_page_code") if spf else None)
        p = {"ps": h["ps"], "spf": spf, "page_code": h["page_code"]}
        if spf:
            p["sub_page_code"] = h["sub_page_code"]
        st = D.MODE_PAGES.get(key)
        if st is not None:
            if total != st.size:
                raise RefParseError("mode.page_length", "page %02Xh: PAGE LENGTH gives %d bytes, standard page is %d" % (h["page_code"], total, st.size))
            p.update(st.decode(b, off))
        pages.append(p)
        off += total
    out["pages"] = pages
    return out


# ---------------------------------------------------------------------------
# PERSISTENT RESERVE OUT
PROUT_SA = {"REGISTER": 0, "RESERVE": 1, "RELEASE": 2, "CLEAR": 3, "PREEMPT": 4, "PREEMPT_AND_ABORT": 5,
            "REGISTER_AND_IGNORE_EXISTING_KEY": 6, "REGISTER_AND_MOVE": 7, "REPLACE_LOST_REGISTRATION": 8}
PR_TYPES = [1, 3, 5, 6, 7, 8]
BASIC = Struct([("reservation_key", 0, 7, 64), ("service_action_reservation_key", 8, 7, 64), ("spec_i_pt", 20, 3, 1),
                ("all_tg_pt", 20, 2, 1), ("aptpl", 20, 0, 1)], 24)
RAM = Struct([("reservation_key", 0, 7, 64), ("service_action_reservation_key", 8, 7, 64), ("unreg", 17, 1, 1), ("aptpl", 17, 0, 1),
              ("relative_target_port_id", 18, 7, 16), ("transportid_length", 20, 7, 32)], 24)


def gen_prout(rng, mode="rand"):
    sa = rng.choice(list(PROUT_SA.values())) if not (isinstance(mode, tuple) and mode[0] == "sa") else mode[1]
    a = {"service_action": sa, "scope": rng.choice([0, 0, 1, 0xF]), "pr_type": rng.choice(PR_TYPES + [0])}
    kw = {"reservation_key": gen.rand_value(rng, 64), "service_action_reservation_key": gen.rand_value(rng, 64)}
    exp = dict(kw)
    if sa == 7:
        kw["unreg"] = rng.getrandbits(1)
        kw["aptpl"] = rng.getrandbits(1)
        kw["relative_target_port_id"] = gen.rand_value(rng, 16)
        tkind = mode[2] if isinstance(mode, tuple) and len(mode) > 2 else None
        nlen = mode[3] if isinstance(mode, tuple) and len(mode) > 3 else None
        t = D.gen_transport_id(rng, tkind, nlen)
        kw["transport_id"] = D.strip_private(t)
        exp.update({k: kw[k] for k in ("unreg", "aptpl", "relative_target_port_id")})
        exp["transport_ids"] = [D.expect_transport_id(t)]
        exp["_kind"] = "ram"
    else:
        kw["all_tg_pt"] = rng.getrandbits(1)
        kw["aptpl"] = rng.getrandbits(1)
        spec = 1 if (sa == 0 and rng.random() < 0.6) else 0
        if isinstance(mode, tuple) and len(mode) > 2 and sa == 0:
            spec = 1
        kw["spec_i_pt"] = spec
        exp.update({k: kw[k] for k in ("all_tg_pt", "aptpl", "spec_i_pt")})
        exp["_kind"] = "basic"
        if spec:
            n = rng.choice([1, 1, 2, 3])
            tkind = mode[2] if isinstance(mode, tuple) and len(mode) > 2 else None
            nlen = mode[3] if isinstance(mode, tuple) and len(mode) > 3 else None
            ts = [D.gen_transport_id(rng, tkind, nlen) for _ in range(n)]
            if rng.random() < 0.3:
                # initiator ports that are related: one initiator with several sessions (the same iSCSI name with other
                # session ids, and without one), the same port listed twice, ports of one protocol that differ in one byte
                rel = []
                for t in ts:
                    rel.append(t)
                    if "iscsi_name" in t:
                        for _ in range(rng.randint(1, 3)):
                            u = D.gen_transport_id(rng, rng.choice(["iscsi1", "iscsi1", "iscsi0"]), None)
                            u["iscsi_name"] = t["iscsi_name"]
                            rel.append(u)
                    elif rng.random() < 0.5:
                        rel.append(dict(t))
                ts = rel[:6]
            kw["transport_ids"] = [D.strip_private(t) for t in ts]
            exp["transport_ids"] = [D.expect_transport_id(t) for t in ts]
    a["_kwargs"] = kw
    return a, exp


def parse_prout(b, sa):
    b = bytes(b)
    if len(b) < 24:
        raise RefParseError("prout.truncated", "parameter list of %d bytes (<24)" % len(b))
    if sa == 7:
        out = RAM.decode(b)
        if b[16] or (b[17] & 0xFC):
            raise RefParseError("prout.ram_reserved", "reserved bits set in REGISTER AND MOVE list")
        tl = out["transportid_length"]
        if 24 + tl != len(b):
            raise RefParseError("prout.ram_transportid_length", "TRANSPORTID PARAMETER DATA LENGTH %d, %d bytes follow" % (tl, len(b) - 24))
        if tl < 24 or tl % 4:
            raise RefParseError("prout.ram_transportid_length", "TRANSPORTID length %d (must be >=24, multiple of 4)" % tl)
        try:
            t, n = D.parse_transport_id(b[24:])
        except ValueError as e:
            raise RefParseError("prout.transport_id", str(e))
        if n != tl:
            raise RefParseError("prout.transport_id_size", "TransportID is %d bytes inside a %d-byte area" % (n, tl))
        out["transport_ids"] = [t]
        return out
    out = BASIC.decode(b)
    if any(b[16:20]) or (b[20] & 0xF2) or any(b[21:24]):
        raise RefParseError("prout.basic_reserved", "reserved/obsolete bytes set in basic list")
    if out["spec_i_pt"]:
        if len(b) < 28:
            raise RefParseError("prout.spec_i_pt_truncated", "SPEC_I_PT set but no TRANSPORTID PARAMETER DATA LENGTH")
        tl = from_be(b[24:28])
        if 28 + tl != len(b):
            raise RefParseError("prout.transportid_parameter_data_length", "length field %d, %d bytes follow" % (tl, len(b) - 28))
        ts = []
        off = 28
        while off < len(b):
            try:
                t, n = D.parse_transport_id(b[off:])
            except ValueError as e:
                raise RefParseError("prout.transport_id", str(e))
            ts.append(t)
            off += n
        out["transport_ids"] = ts
    elif len(b) != 24:
        raise RefParseError("prout.basic_length", "basic list without SPEC_I_PT is %d bytes" % len(b))
    return out


# ---------------------------------------------------------------------------
# EXTENDED COPY
LID1 = Struct([("list_identifier", 0, 7, 8), ("str", 1, 5, 1), ("nrcr", 1, 4, 1), ("priority", 1, 2, 3),
               ("cscd_list_length", 2, 7, 16), ("segment_list_length", 8, 7, 32), ("inline_data_length", 12, 7, 32)], 16)
LID4 = Struct([("parameter_list_format", 0, 7, 8), ("str", 1, 5, 1), ("list_id_usage", 1, 4, 2), ("priority", 1, 2, 3),
               ("header_cscd_descriptor_list_length", 2, 7, 16), ("g_sense", 15, 1, 1), ("immed", 15, 0, 1),
               ("header_cscd_descriptor_type_code", 16, 7, 8), ("list_identifier", 20, 7, 32),
               ("cscd_list_length", 42, 7, 16), ("segment_list_length", 44, 7, 16), ("inline_data_length", 46, 7, 16)], 48)
CSCD = Struct([("descriptor_type_code", 0, 7, 8), ("lu_id_type", 1, 7, 2), ("peripheral_device_type", 1, 4, 5),
               ("relative_initiator_port_identifier", 2, 7, 16)], 32)
IDENT = Struct([("code_set", 4, 3, 4), ("association", 5, 5, 2), ("designator_type", 5, 3, 4), ("designator_length", 7, 7, 8)], 32)
DEV_BLOCK = Struct([("pad", 28, 2, 1), ("disk_block_length", 29, 7, 24)], 32)
DEV_SEQ = Struct([("pad", 28, 2, 1), ("fixed", 28, 0, 1), ("stream_block_length", 29, 7, 24)], 32)
DEV_PROC = Struct([("pad", 28, 2, 1)], 32)
SEG_BS = [("descriptor_type_code", 0, 7, 8), ("cat", 1, 0, 1), ("descriptor_length", 2, 7, 16), ("src", 4, 7, 16), ("dst", 6, 7, 16),
          ("stream_device_transfer_length", 9, 7, 24), ("block_device_number_of_blocks", 14, 7, 16),
          ("block_device_logical_block_address", 16, 7, 64)]
SEG_BB = [("descriptor_type_code", 0, 7, 8), ("dc", 1, 1, 1), ("cat", 1, 0, 1), ("descriptor_length", 2, 7, 16), ("src", 4, 7, 16),
          ("dst", 6, 7, 16), ("block_device_number_of_blocks", 10, 7, 16), ("source_block_device_logical_block_address", 12, 7, 64),
          ("destination_block_device_logical_block_address", 20, 7, 64)]
SEG = {
    4: {0x00: Struct(SEG_BS, 24), 0x0B: Struct(SEG_BS, 24), 0x01: Struct(SEG_BS, 24), 0x0C: Struct(SEG_BS, 24),
        0x02: Struct(SEG_BB, 28), 0x0D: Struct(SEG_BB, 28)},
    5: {0x00: Struct(SEG_BS, 24), 0x0B: Struct(SEG_BS, 24), 0x01: Struct(SEG_BS, 24), 0x0C: Struct(SEG_BS, 24),
        0x02: Struct(SEG_BB + [("fco", 1, 2, 1)], 28), 0x0D: Struct(SEG_BB + [("fco", 1, 2, 1)], 28)},
}
BLOCK_TYPES = {4: [0x00, 0x04, 0x05, 0x07, 0x0E], 5: [0x00, 0x05, 0x0E]}
SEG_NAMES = {
    0x00: ("block -> stream", "Copy from block device to stream device"),
    0x01: ("stream -> block", "Copy from stream device to block device"),
    0x02: ("block -> block", "Copy from block device to block device"),
    0x0B: ("block -> stream&application client", None),
    0x0C: ("stream -> block&application client", None),
    0x0D: ("block -> block&application client", None),
}
SHORT_DESIG = ["eui8", "eui12", "eui16", "naa2", "naa3", "naa5", "naa6", "relport", "tpg", "lug", "md5", "pcie", "vendor", "t10", "name"]


def gen_cscd(rng, spc):
    pk = "target_descriptor_parameters" if spc == 4 else "cscd_descriptor_parameters"
    devt = rng.choice(BLOCK_TYPES[spc] + [0x01, 0x01, 0x03])
    kind = rng.choice(SHORT_DESIG)
    dtype, dv = D.gen_designator(rng, kind, maxlen=20)  # a CSCD identification descriptor has room for 20 designator bytes
    body = D.encode_designator(dtype, dv)
    assert len(body) <= 20
    ident = {"code_set": rng.choice([1, 2, 3]), "association": rng.choice([0, 1, 2]), "designator_type": dtype,
             "designator_length": len(body), "designator": dv}
    if rng.random() < 0.3:
        # the dictionary of a designation descriptor decoded from the Device Identification VPD page, handed on as it is: it also
        # has PIV and PROTOCOL IDENTIFIER, which the identification descriptor has no place for
        ident.update({"piv": rng.choice([0, 1, 1]), "protocol_identifier": rng.choice([0, 6, 5, 0xF])})
    # the library also accepts the (unique) description strings of its device type table
    DESCR = {0x00: "Direct access block device (e.g., magnetic disk)", 0x01: "Sequential access device (e.g., magnetic tape)",
             0x03: "Processor device", 0x05: "CD/DVD device", 0x0E: "Simplified direct access device (e.g., magnetic disk)",
             0x04: "Write-once device (e.g., some optical disks)", 0x07: "Optical memory device (e.g., some optical disks)"}
    devt_arg = DESCR[devt] if rng.random() < 0.3 else devt
    d = {"descriptor_type_code": rng.choice([0xE4, "Identification descriptor target descriptor" if spc == 4 else "Identification Descriptor CSCD descriptor"]),
         "peripheral_device_type": devt_arg, "relative_initiator_port_identifier": gen.rand_value(rng, 16), pk: ident}
    if rng.getrandbits(1):
        d["lu_id_type"] = 0
    exp = {"descriptor_type_code": 0xE4, "lu_id_type": 0, "peripheral_device_type": devt,
           "relative_initiator_port_identifier": d["relative_initiator_port_identifier"],
           "ident": {"code_set": ident["code_set"], "association": ident["association"], "designator_type": dtype,
                     "designator_length": len(body), "designator_bytes": body}}
    if devt in BLOCK_TYPES[spc]:
        ds = {"pad": rng.getrandbits(1), "disk_block_length": gen.rand_value(rng, 24)}
    elif devt == 1:
        ds = {"fixed": rng.getrandbits(1), "pad": rng.getrandbits(1), "stream_block_length": gen.rand_value(rng, 24)}
    else:
        ds = {"pad": rng.getrandbits(1)}
    if rng.random() < 0.85:
        d["device_type_specific_parameters"] = ds
        exp["devspec"] = dict(ds)
    else:
        exp["devspec"] = {k: 0 for k in ds}
    return d, exp


def gen_segment(rng, spc, code=None):
    code = code if code is not None else rng.choice([0x00, 0x01, 0x02, 0x0B, 0x0C, 0x0D])
    sk, dk = ("source_target_descriptor_id", "destination_target_descriptor_id") if spc == 4 else (
        "source_cscd_descriptor_id", "destination_cscd_descriptor_id")
    names = [code, SEG_NAMES[code][0]] + ([SEG_NAMES[code][1]] if SEG_NAMES[code][1] else [])
    d = {"descriptor_type_code": rng.choice(names), "cat": rng.getrandbits(1), sk: gen.rand_value(rng, 16), dk: gen.rand_value(rng, 16)}
    exp = {"descriptor_type_code": code, "cat": d["cat"], "src": d[sk], "dst": d[dk]}
    if code in (0x02, 0x0D):
        d["dc"] = rng.getrandbits(1)
        exp["dc"] = d["dc"]
        if spc == 5:
            d["fco"] = rng.getrandbits(1)
            exp["fco"] = d["fco"]
        for k, w in (("block_device_number_of_blocks", 16), ("source_block_device_logical_block_address", 64),
                     ("destination_block_device_logical_block_address", 64)):
            d[k] = exp[k] = gen.rand_value(rng, w)
        exp["descriptor_length"] = 24
    else:
        for k, w in (("stream_device_transfer_length", 24), ("block_device_number_of_blocks", 16), ("block_device_logical_block_address", 64)):
            d[k] = exp[k] = gen.rand_value(rng, w)
        exp["descriptor_length"] = 20
    return d, exp


def gen_xcopy(rng, spc, mode="rand"):
    if isinstance(mode, tuple) and mode[0] == "counts":
        nc, ns, ni = mode[1], mode[2], mode[3]
        segcode = mode[4] if len(mode) > 4 else None
    else:
        nc, ns, ni = rng.choice([0, 1, 2, 3]), rng.choice([0, 1, 2, 3]), rng.choice([0, 0, 1, 7, 64])
        segcode = None
    cs = [gen_cscd(rng, spc) for _ in range(nc)]
    ss = [gen_segment(rng, spc, segcode) for _ in range(ns)]
    inline = bytearray(gen.byte_string(rng, ni))
    if spc == 4:
        kw = {"list_identifier": gen.rand_value(rng, 8), "sequential_striped": rng.getrandbits(1), "nrcr": rng.getrandbits(1),
              "priority": gen.rand_value(rng, 3), "target_descriptor_list": [c[0] for c in cs],
              "segment_descriptor_list": [s[0] for s in ss], "inline_data": inline}
        exp = {"list_identifier": kw["list_identifier"], "str": kw["sequential_striped"], "nrcr": kw["nrcr"], "priority": kw["priority"]}
    else:
        kw = {"sequential_striped": rng.getrandbits(1), "list_id_usage": gen.rand_value(rng, 2), "priority": gen.rand_value(rng, 3),
              "g_sense": rng.getrandbits(1), "immed": rng.getrandbits(1), "list_identifier": gen.rand_value(rng, 32),
              "cscd_descriptor_list": [c[0] for c in cs], "segment_descriptor_list": [s[0] for s in ss], "inline_data": inline}
        exp = {"parameter_list_format": 1, "str": kw["sequential_striped"], "list_id_usage": kw["list_id_usage"], "priority": kw["priority"],
               "g_sense": kw["g_sense"], "immed": kw["immed"], "list_identifier": kw["list_identifier"],
               "header_cscd_descriptor_list_length": 0x20, "header_cscd_descriptor_type_code": 0xFF}
    exp["cscds"] = [c[1] for c in cs]
    exp["segments"] = [s[1] for s in ss]
    exp["inline"] = bytes(inline)
    return {"_kwargs": kw}, exp


def parse_xcopy(b, spc):
    b = bytes(b)
    H = LID1 if spc == 4 else LID4
    if len(b) < H.size:
        raise RefParseError("xcopy.header_truncated", "list shorter than its header")
    out = H.decode(b)
    cl, sl, il = out["cscd_list_length"], out["segment_list_length"], out["inline_data_length"]
    if H.size + cl + sl + il != len(b):
        raise RefParseError("xcopy.header_lengths", "header announces %d+%d+%d bytes after the %d-byte header, list is %d bytes"
                            % (cl, sl, il, H.size, len(b)))
    off = H.size
    cscds = []
    end = off + cl
    while off < end:
        t = b[off]
        size = 64 if t in (0xEA, 0xEB) else 32
        if off + size > end:
            raise RefParseError("xcopy.cscd_overrun", "CSCD descriptor overruns the CSCD list")
        c = CSCD.decode(b, off)
        if t == 0xE4:
            idn = IDENT.decode(b, off)
            if idn["designator_length"] > 20:
                raise RefParseError("xcopy.designator_length", "designator length %d > 20" % idn["designator_length"])
            idn["designator_bytes"] = b[off + 8 : off + 8 + idn["designator_length"]]
            if any(b[off + 8 + idn["designator_length"] : off + 28]):
                raise RefParseError("xcopy.designator_padding", "bytes after the designator not zero")
            if b[off + 4] & 0xF0 or b[off + 5] & 0xC0 or b[off + 6]:
                # (SPC-4 6.3.6.5: the identification descriptor has CODE SET, ASSOCIATION, DESIGNATOR TYPE and DESIGNATOR LENGTH;
                # the PROTOCOL IDENTIFIER / PIV positions of a VPD designation descriptor are reserved here)
                raise RefParseError("xcopy.identification_reserved_bits", "reserved bits set in bytes 4..6 of the identification descriptor: %s" % b[off + 4 : off + 7].hex())
            c["ident"] = idn
        dt = c["peripheral_device_type"]
        if dt in BLOCK_TYPES[spc]:
            c["devspec"] = DEV_BLOCK.decode(b, off)
        elif dt == 1:
            c["devspec"] = DEV_SEQ.decode(b, off)
        elif dt == 3:
            c["devspec"] = DEV_PROC.decode(b, off)
        cscds.append(c)
        off += size
    segs = []
    end = off + sl
    while off < end:
        if end - off < 4:
            raise RefParseError("xcopy.segment_truncated", "segment descriptor header truncated")
        code = b[off]
        dl = from_be(b[off + 2 : off + 4])
        if off + 4 + dl > end:
            raise RefParseError("xcopy.segment_descriptor_length", "segment DESCRIPTOR LENGTH %d overruns the segment list" % dl)
        st = SEG[spc].get(code)
        if st is None:
            s = {"descriptor_type_code": code, "descriptor_length": dl}
        else:
            if 4 + dl != st.size:
                raise RefParseError("xcopy.segment_descriptor_length", "segment %02Xh DESCRIPTOR LENGTH %d, standard %d" % (code, dl, st.size - 4))
            s = st.decode(b, off)
        segs.append(s)
        off += 4 + dl
    out["cscds"] = cscds
    out["segments"] = segs
    out["inline"] = b[off:]
    return out


GEN = {
    "mode6": lambda rng, mode="rand": gen_mode(rng, False, mode),
    "mode10": lambda rng, mode="rand": gen_mode(rng, True, mode),
    "prout": gen_prout,
    "xcopy4": lambda rng, mode="rand": gen_xcopy(rng, 4, mode),
    "xcopy5": lambda rng, mode="rand": gen_xcopy(rng, 5, mode),
}


def parse(name, b, a):
    if name == "mode6":
        return parse_mode(b, False)
    if name == "mode10":
        return parse_mode(b, True)
    if name == "prout":
        return parse_prout(b, a["service_action"])
    if name == "xcopy4":
        return parse_xcopy(b, 4)
    if name == "xcopy5":
        return parse_xcopy(b, 5)
    raise KeyError(name)


def fresh(a):
    """deep copy of generated arguments (the library mutates segment dicts)"""
    return copy.deepcopy(a)


def self_check(rng):
    problems = []
    for name in GEN:
        try:
            for _ in range(10):
                GEN[name](rng)
        except Exception as e:  # noqa: BLE001
            problems.append("dataout generator %s raised %r" % (name, e))
    # reference parser accepts a hand-built basic PR OUT list and a LID1 header
    b = bytearray(24)
    b[0:8] = bytes(range(1, 9))
    b[20] = 0x05
    try:
        o = parse_prout(b, 0)
        if o["reservation_key"] != 0x0102030405060708 or o["all_tg_pt"] != 1 or o["aptpl"] != 1 or o["spec_i_pt"] != 0:
            problems.append("reference PR OUT parser misreads a hand-built list")
    except RefParseError as e:
        problems.append("reference PR OUT parser rejects a hand-built list: %s" % e)
    try:
        o = parse_xcopy(bytes(16), 4)
        if o["cscds"] or o["segments"]:
            problems.append("reference XCOPY parser invents descriptors")
    except RefParseError as e:
        problems.append("reference XCOPY parser rejects an empty LID1 list: %s" % e)
    return problems
