"""Reference CDB layouts of the 42 command classes (DESIGN.md Appendix A).

Written from SPC-4/SBC-3/SMC-3/MMC-6/SAT-3 in T10 notation: a field is
(byte, msb, width).  Field names are mine; `wire` says which constructor
argument (or derived quantity) the standard puts there.  Nothing is imported
from pyscsi at module level and no pyscsi table is consulted.
"""
from collections import OrderedDict

from . import opcodes as O

REQ = object()  # required argument marker
CAP = 1 << 16  # default cap on bytes really allocated per generated command
BIGCAP = 1 << 24  # cap for the few large-buffer cases


class Cmd:
    def __init__(self, name, module, cls, opkey, op, sets, fields, args, **kw):
        self.name = name
        self.module = "pyscsi.pyscsi." + module
        self.cls = cls
        self.opkey = opkey  # enum key, or ("suffix", "9E")
        self.op = op
        self.sets = sets
        self.fields = OrderedDict(fields)
        self.args = OrderedDict(args)  # name -> (kind, width, default)
        self.wire = kw.get("wire", {})  # field -> argname | callable(args)
        self.sa = kw.get("sa")  # (field, value)
        self.facade = kw.get("facade")
        self.facade_fixed = kw.get("facade_fixed", {})  # args the facade fixes
        self.xfer = kw.get("xfer", "none")
        self.custom = kw.get("custom")  # name of data-out generator
        self.facade_unmarshall = kw.get("facade_unmarshall", False)
        self.facade_req = kw.get("facade_req", [])  # arguments optional for the constructor but required by the facade method
        self.length = O.group_length(op)

    def load(self):
        import importlib

        return getattr(importlib.import_module(self.module), self.cls)

    def opcode_obj(self, setname):
        import pyscsi.pyscsi.scsi_enum_command as E
        from pyscsi.utils.converter import get_opcode

        enum = getattr(E, setname)
        if isinstance(self.opkey, tuple):
            return next(get_opcode(enum, self.opkey[1]))
        return getattr(enum, self.opkey)

    def expected_fields(self, a):
        """field -> value the standard requires for constructor arguments a
        (a includes defaults).  Fields absent from the result must be 0."""
        exp = {}
        for f in self.fields:
            w = self.wire.get(f, f)
            if callable(w):
                exp[f] = w(a)
            elif w in a:
                exp[f] = a[w]
        if self.sa:
            exp[self.sa[0]] = self.sa[1]
        return exp


def u(width, default=REQ):
    return ("u", width, default)


RW_BYTE1_R = [("rdprotect", (1, 7, 3)), ("dpo", (1, 4, 1)), ("fua", (1, 3, 1)), ("rarc", (1, 2, 1))]
RW_BYTE1_W = [("wrprotect", (1, 7, 3)), ("dpo", (1, 4, 1)), ("fua", (1, 3, 1))]
WS_BYTE1 = [("wrprotect", (1, 7, 3)), ("anchor", (1, 4, 1)), ("unmap", (1, 3, 1))]

R_OPT = [("rdprotect", u(3, 0)), ("dpo", u(1, 0)), ("fua", u(1, 0)), ("rarc", u(1, 0)), ("group", u(5, 0))]
W_OPT = [("wrprotect", u(3, 0)), ("dpo", u(1, 0)), ("fua", u(1, 0)), ("group", u(5, 0))]
WS_OPT = [("wrprotect", u(3, 0)), ("anchor", u(1, 0)), ("unmap", u(1, 0)), ("group", u(5, 0))]

BS = ("bs", 0, REQ)
ALL5 = ["spc", "sbc", "ssc", "smc", "mmc"]
NOT_MMC = ["spc", "sbc", "ssc", "smc"]


def _ata12_lba(i):
    return lambda a: (a["lba"] >> (8 * i)) & 0xFF


ATA_BYTE2 = [
    ("off_line", (2, 7, 2)),
    ("ck_cond", (2, 5, 1)),
    ("t_type", (2, 4, 1)),
    ("t_dir", (2, 3, 1)),
    ("byte_block", (2, 2, 1)),
    ("t_length", (2, 1, 2)),
]
ATA_ARGS_HEAD = [
    ("protocal", u(4)),
    ("t_length", u(2)),
    ("byte_block", u(1)),
    ("t_dir", u(1)),
    ("t_type", u(1)),
    ("off_line", u(2)),
]
ATA_ARGS_TAIL = [
    ("blocksize", ("bs", 0, 0)),
    ("extra_tl", ("extra_tl", 16, None)),
    ("ck_cond", u(1, 0)),
    ("device", u(8, 0)),
    ("control", u(8, 0)),
    ("data", ("atadata", 0, None)),
]

_LIST = [
    Cmd("TestUnitReady", "scsi_cdb_testunitready", "TestUnitReady", "TEST_UNIT_READY", 0x00, ALL5,
        [], [], facade="testunitready"),
    Cmd("Inquiry", "scsi_cdb_inquiry", "Inquiry", "INQUIRY", 0x12, ALL5,
        [("evpd", (1, 0, 1)), ("page_code", (2, 7, 8)), ("alloc", (3, 7, 16))],
        [("evpd", u(1, 0)), ("page_code", u(8, 0)), ("alloclen", ("alloc", 16, 96))],
        wire={"alloc": "alloclen"}, facade="inquiry", xfer="alloc", facade_unmarshall=True),
    Cmd("ModeSense6", "scsi_cdb_modesense6", "ModeSense6", "MODE_SENSE_6", 0x1A, NOT_MMC,
        [("dbd", (1, 3, 1)), ("pc", (2, 7, 2)), ("page_code", (2, 5, 6)), ("sub_page_code", (3, 7, 8)), ("alloc", (4, 7, 8))],
        [("page_code", u(6)), ("sub_page_code", u(8, 0)), ("dbd", u(1, 0)), ("pc", u(2, 0)), ("alloclen", ("alloc", 8, 96))],
        wire={"alloc": "alloclen"}, facade="modesense6", xfer="alloc", facade_unmarshall=True),
    Cmd("ModeSense10", "scsi_cdb_modesense10", "ModeSense10", "MODE_SENSE_10", 0x5A, ALL5,
        [("llbaa", (1, 4, 1)), ("dbd", (1, 3, 1)), ("pc", (2, 7, 2)), ("page_code", (2, 5, 6)), ("sub_page_code", (3, 7, 8)), ("alloc", (7, 7, 16))],
        [("page_code", u(6)), ("sub_page_code", u(8, 0)), ("llbaa", u(1, 0)), ("dbd", u(1, 0)), ("pc", u(2, 0)), ("alloclen", ("alloc", 16, 96))],
        wire={"alloc": "alloclen"}, facade="modesense10", xfer="alloc", facade_unmarshall=True),
    Cmd("ModeSelect6", "scsi_cdb_modesense6", "ModeSelect6", "MODE_SELECT_6", 0x15, NOT_MMC,
        [("pf", (1, 4, 1)), ("sp", (1, 0, 1)), ("pll", (4, 7, 8))],
        [("data", ("custom", 0, REQ)), ("pf", u(1, 1)), ("sp", u(1, 0))],
        wire={"pll": lambda a: a["_outlen"]}, facade="modeselect6", xfer="list", custom="mode6"),
    Cmd("ModeSelect10", "scsi_cdb_modesense10", "ModeSelect10", "MODE_SELECT_10", 0x55, ALL5,
        [("pf", (1, 4, 1)), ("sp", (1, 0, 1)), ("pll", (7, 7, 16))],
        [("data", ("custom", 0, REQ)), ("pf", u(1, 1)), ("sp", u(1, 0))],
        wire={"pll": lambda a: a["_outlen"]}, facade="modeselect10", xfer="list", custom="mode10"),
    Cmd("PreventAllowMediumRemoval", "scsi_cdb_preventallow_mediumremoval", "PreventAllowMediumRemoval",
        "PREVENT_ALLOW_MEDIUM_REMOVAL", 0x1E, ALL5,
        [("prevent", (4, 1, 2))], [("prevent", u(2, 0))], facade="preventallowmediumremoval"),
    Cmd("Read10", "scsi_cdb_read10", "Read10", "READ_10", 0x28, ["sbc", "mmc"],
        RW_BYTE1_R + [("lba", (2, 7, 32)), ("group", (6, 4, 5)), ("tl", (7, 7, 16))],
        [("blocksize", BS), ("lba", u(32)), ("tl", ("tl", 16, REQ))] + R_OPT,
        facade="read10", xfer="read"),
    Cmd("Read12", "scsi_cdb_read12", "Read12", "READ_12", 0xA8, ["sbc", "mmc"],
        RW_BYTE1_R + [("lba", (2, 7, 32)), ("tl", (6, 7, 32)), ("group", (10, 4, 5))],
        [("blocksize", BS), ("lba", u(32)), ("tl", ("tl", 32, REQ))] + R_OPT,
        facade="read12", xfer="read"),
    Cmd("Read16", "scsi_cdb_read16", "Read16", "READ_16", 0x88, ["sbc", "ssc"],
        RW_BYTE1_R + [("lba", (2, 7, 64)), ("tl", (10, 7, 32)), ("group", (14, 4, 5))],
        [("blocksize", BS), ("lba", u(64)), ("tl", ("tl", 32, REQ))] + R_OPT,
        facade="read16", xfer="read"),
    Cmd("Write10", "scsi_cdb_write10", "Write10", "WRITE_10", 0x2A, ["sbc", "mmc"],
        RW_BYTE1_W + [("lba", (2, 7, 32)), ("group", (6, 4, 5)), ("tl", (7, 7, 16))],
        [("blocksize", BS), ("lba", u(32)), ("tl", ("tl", 16, REQ)), ("data", ("wdata", 0, REQ))] + W_OPT,
        facade="write10", xfer="write"),
    Cmd("Write12", "scsi_cdb_write12", "Write12", "WRITE_12", 0xAA, ["sbc", "mmc"],
        RW_BYTE1_W + [("lba", (2, 7, 32)), ("tl", (6, 7, 32)), ("group", (10, 4, 5))],
        [("blocksize", BS), ("lba", u(32)), ("tl", ("tl", 32, REQ)), ("data", ("wdata", 0, REQ))] + W_OPT,
        facade="write12", xfer="write"),
    Cmd("Write16", "scsi_cdb_write16", "Write16", "WRITE_16", 0x8A, ["sbc", "ssc"],
        RW_BYTE1_W + [("lba", (2, 7, 64)), ("tl", (10, 7, 32)), ("group", (14, 4, 5))],
        [("blocksize", BS), ("lba", u(64)), ("tl", ("tl", 32, REQ)), ("data", ("wdata", 0, REQ))] + W_OPT,
        facade="write16", xfer="write"),
    Cmd("WriteSame10", "scsi_cdb_writesame10", "WriteSame10", "WRITE_SAME_10", 0x41, ["sbc"],
        WS_BYTE1 + [("lba", (2, 7, 32)), ("group", (6, 4, 5)), ("nb", (7, 7, 16))],
        [("blocksize", BS), ("lba", u(32)), ("nb", u(16)), ("data", ("blockdata", 0, REQ))] + WS_OPT,
        facade="writesame10", xfer="writesame"),
    Cmd("WriteSame16", "scsi_cdb_writesame16", "WriteSame16", "WRITE_SAME_16", 0x93, ["sbc"],
        WS_BYTE1 + [("ndob", (1, 0, 1)), ("lba", (2, 7, 64)), ("nb", (10, 7, 32)), ("group", (14, 4, 5))],
        [("blocksize", BS), ("lba", u(64)), ("nb", u(32)), ("data", ("blockdata", 0, REQ)),
         ("wrprotect", u(3, 0)), ("anchor", u(1, 0)), ("unmap", u(1, 0)), ("ndob", u(1, 0)), ("group", u(5, 0))],
        facade="writesame16", xfer="writesame"),
    Cmd("SynchronizeCache10", "scsi_cdb_synchronize_cache10", "SynchronizeCache10", "SYNCHRONIZE_CACHE_10", 0x35, ["sbc"],
        [("immed", (1, 1, 1)), ("lba", (2, 7, 32)), ("group", (6, 4, 5)), ("numblks", (7, 7, 16))],
        [("lba", u(32)), ("numblks", u(16)), ("immed", u(1, 0)), ("group", u(5, 0))],
        facade="synchronizecache10"),
    Cmd("SynchronizeCache16", "scsi_cdb_synchronize_cache16", "SynchronizeCache16", "SYNCHRONIZE_CACHE_16", 0x91, ["sbc"],
        [("immed", (1, 1, 1)), ("lba", (2, 7, 64)), ("numblks", (10, 7, 32)), ("group", (14, 4, 5))],
        [("lba", u(64)), ("numblks", u(32)), ("immed", u(1, 0)), ("group", u(5, 0))],
        facade="synchronizecache16"),
    Cmd("ReadCapacity10", "scsi_cdb_readcapacity10", "ReadCapacity10", "READ_CAPACITY_10", 0x25, ["sbc"],
        [], [("alloclen", ("alloc", 16, 8))], facade="readcapacity10", xfer="allocarg", facade_unmarshall=True),
    Cmd("ReadCapacity16", "scsi_cdb_readcapacity16", "ReadCapacity16", ("suffix", "9E"), 0x9E, ["sbc"],
        [("sa", (1, 4, 5)), ("alloc", (10, 7, 32))], [("alloclen", ("alloc", 32, 32))],
        wire={"alloc": "alloclen"}, sa=("sa", 0x10), facade="readcapacity16", xfer="alloc", facade_unmarshall=True),
    Cmd("GetLBAStatus", "scsi_cdb_getlbastatus", "GetLBAStatus", ("suffix", "9E"), 0x9E, ["sbc"],
        [("sa", (1, 4, 5)), ("lba", (2, 7, 64)), ("alloc", (10, 7, 32))],
        [("lba", u(64)), ("alloclen", ("alloc", 32, 16384))],
        wire={"alloc": "alloclen"}, sa=("sa", 0x12), facade="getlbastatus", xfer="alloc", facade_unmarshall=True),
    Cmd("ReportLuns", "scsi_cdb_report_luns", "ReportLuns", "REPORT_LUNS", 0xA0, ALL5,
        [("select_report", (2, 7, 8)), ("alloc", (6, 7, 32))],
        [("report", u(8, 0)), ("alloclen", ("alloc", 32, 96))],
        wire={"select_report": "report", "alloc": "alloclen"}, facade="reportluns", xfer="alloc", facade_unmarshall=True),
    Cmd("ReportPriority", "scsi_cdb_report_priority", "ReportPriority", ("suffix", "A3"), 0xA3, NOT_MMC,
        [("sa", (1, 4, 5)), ("priority_reported", (2, 7, 2)), ("alloc", (6, 7, 32))],
        [("priority", u(2, 0)), ("alloclen", ("alloc", 32, 16384))],
        wire={"priority_reported": "priority", "alloc": "alloclen"}, sa=("sa", 0x0E),
        facade="reportpriority", xfer="alloc", facade_unmarshall=True),
    Cmd("ReportTargetPortGroups", "scsi_cdb_report_target_port_groups", "ReportTargetPortGroups", ("suffix", "A3"), 0xA3, NOT_MMC,
        [("pdf", (1, 7, 3)), ("sa", (1, 4, 5)), ("alloc", (6, 7, 32))],
        [("data_format", u(3, 0)), ("alloclen", ("alloc", 32, 16384))],
        wire={"pdf": "data_format", "alloc": "alloclen"}, sa=("sa", 0x0A),
        facade="reporttargetportgroups", xfer="alloc", facade_unmarshall=True),
    Cmd("PersistentReserveIn", "scsi_cdb_persistentreservein", "PersistentReserveIn", "PERSISTENT_RESERVE_IN", 0x5E, NOT_MMC,
        [("sa", (1, 4, 5)), ("alloc", (7, 7, 16))],
        [("service_action", u(5)), ("alloclen", ("alloc", 16, 1024))],
        wire={"sa": "service_action", "alloc": "alloclen"}, xfer="alloc"),
    Cmd("PersistentReserveInReadKeys", "scsi_cdb_persistentreservein", "PersistentReserveInReadKeys", "PERSISTENT_RESERVE_IN", 0x5E, NOT_MMC,
        [("sa", (1, 4, 5)), ("alloc", (7, 7, 16))], [("alloclen", ("alloc", 16, 1024))],
        wire={"alloc": "alloclen"}, sa=("sa", 0), facade="persistentreservein", facade_fixed={"service_action": 0},
        xfer="alloc", facade_unmarshall=True),
    Cmd("PersistentReserveInReadReservation", "scsi_cdb_persistentreservein", "PersistentReserveInReadReservation", "PERSISTENT_RESERVE_IN", 0x5E, NOT_MMC,
        [("sa", (1, 4, 5)), ("alloc", (7, 7, 16))], [("alloclen", ("alloc", 16, 1024))],
        wire={"alloc": "alloclen"}, sa=("sa", 1), facade="persistentreservein", facade_fixed={"service_action": 1},
        xfer="alloc", facade_unmarshall=True),
    Cmd("PersistentReserveInReportCapabilities", "scsi_cdb_persistentreservein", "PersistentReserveInReportCapabilities", "PERSISTENT_RESERVE_IN", 0x5E, NOT_MMC,
        [("sa", (1, 4, 5)), ("alloc", (7, 7, 16))], [("alloclen", ("alloc", 16, 1024))],
        wire={"alloc": "alloclen"}, sa=("sa", 2), facade="persistentreservein", facade_fixed={"service_action": 2},
        xfer="alloc", facade_unmarshall=True),
    Cmd("PersistentReserveInReadFullStatus", "scsi_cdb_persistentreservein", "PersistentReserveInReadFullStatus", "PERSISTENT_RESERVE_IN", 0x5E, NOT_MMC,
        [("sa", (1, 4, 5)), ("alloc", (7, 7, 16))], [("alloclen", ("alloc", 16, 1024))],
        wire={"alloc": "alloclen"}, sa=("sa", 3), facade="persistentreservein", facade_fixed={"service_action": 3},
        xfer="alloc", facade_unmarshall=True),
    Cmd("PersistentReserveOut", "scsi_cdb_persistentreserveout", "PersistentReserveOut", "PERSISTENT_RESERVE_OUT", 0x5F, NOT_MMC,
        [("sa", (1, 4, 5)), ("scope", (2, 7, 4)), ("type", (2, 3, 4)), ("pll", (5, 7, 32))],
        [("service_action", u(5)), ("scope", u(4, 0)), ("pr_type", u(4, 0)), ("_kwargs", ("custom", 0, REQ))],
        wire={"sa": "service_action", "type": "pr_type", "pll": lambda a: a["_outlen"]},
        facade="persistentreserveout", xfer="list", custom="prout"),
    Cmd("ExtendedCopy4", "scsi_cdb_extended_copy_spc4", "ExtendedCopy", "EXTENDED_COPY", 0x83, ["spc", "sbc", "ssc"],
        [("sa", (1, 4, 5)), ("pll", (10, 7, 32))],
        [("_kwargs", ("custom", 0, REQ))],
        wire={"pll": lambda a: a["_outlen"]}, sa=("sa", 0), facade="extendedcopy4", xfer="list", custom="xcopy4"),
    Cmd("ExtendedCopy5", "scsi_cdb_extended_copy_spc5", "ExtendedCopy", "EXTENDED_COPY", 0x83, ["spc", "sbc", "ssc"],
        [("sa", (1, 4, 5)), ("pll", (10, 7, 32))],
        [("_kwargs", ("custom", 0, REQ))],
        wire={"pll": lambda a: a["_outlen"]}, sa=("sa", 1), facade="extendedcopy5", xfer="list", custom="xcopy5"),
    Cmd("ATAPassThrough12", "scsi_cdb_atapassthrough12", "ATAPassThrough12", "ATA_PASS_THROUGH_12", 0xA1, ["sbc"],
        [("protocol", (1, 4, 4))] + ATA_BYTE2 + [
            ("features", (3, 7, 8)), ("count", (4, 7, 8)),
            ("lba_7_0", (5, 7, 8)), ("lba_15_8", (6, 7, 8)), ("lba_23_16", (7, 7, 8)),
            ("device", (8, 7, 8)), ("command", (9, 7, 8)), ("control", (11, 7, 8))],
        ATA_ARGS_HEAD + [("fetures", u(8)), ("count", u(8)), ("lba", u(24)), ("command", u(8))] + ATA_ARGS_TAIL,
        wire={"protocol": "protocal", "features": "fetures", "lba_7_0": _ata12_lba(0), "lba_15_8": _ata12_lba(1), "lba_23_16": _ata12_lba(2)},
        facade="atapassthrough12", xfer="ata"),
    Cmd("ATAPassThrough16", "scsi_cdb_atapassthrough16", "ATAPassThrough16", "ATA_PASS_THROUGH_16", 0x85, ["sbc"],
        [("protocol", (1, 4, 4)), ("extend", (1, 0, 1))] + ATA_BYTE2 + [
            ("features", (3, 7, 16)), ("count", (5, 7, 16)),
            ("lba_31_24", (7, 7, 8)), ("lba_7_0", (8, 7, 8)), ("lba_39_32", (9, 7, 8)), ("lba_15_8", (10, 7, 8)),
            ("lba_47_40", (11, 7, 8)), ("lba_23_16", (12, 7, 8)),
            ("device", (13, 7, 8)), ("command", (14, 7, 8)), ("control", (15, 7, 8))],
        ATA_ARGS_HEAD + [("fetures", u(16)), ("count", u(16)), ("lba", u(48)), ("command", u(8))] + ATA_ARGS_TAIL + [("extend", u(1, 1))],
        wire={"protocol": "protocal", "features": "fetures",
              "lba_7_0": _ata12_lba(0), "lba_15_8": _ata12_lba(1), "lba_23_16": _ata12_lba(2),
              "lba_31_24": _ata12_lba(3), "lba_39_32": _ata12_lba(4), "lba_47_40": _ata12_lba(5)},
        facade="atapassthrough16", xfer="ata"),
    Cmd("ReadCd", "scsi_cdb_readcd", "ReadCd", "READ_CD", 0xBE, ["mmc"],
        [("est", (1, 4, 3)), ("dap", (1, 1, 1)), ("lba", (2, 7, 32)), ("tl", (6, 7, 24)),
         ("mcsb", (9, 7, 5)), ("c2ei", (9, 2, 2)), ("scsb", (10, 2, 3))],
        [("lba", u(32, 0)), ("tl", ("cdtl", 24, 0)), ("est", u(3, 0)), ("dap", u(1, 0)), ("mcsb", u(5, 0)), ("c2ei", u(2, 0)), ("scsb", u(3, 0))],
        facade="readcd", xfer="readcd", facade_unmarshall=True, facade_req=["lba", "tl"]),
    Cmd("ReadDiscInformation", "scsi_cdb_readdiscinformation", "ReadDiscInformation", "READ_DISC_INFORMATION", 0x51, ["mmc"],
        [("data_type", (1, 2, 3)), ("alloc", (7, 7, 16))],
        [("data_type", u(3)), ("alloc_len", ("alloc", 16, 4096))],
        wire={"alloc": "alloc_len"}, facade="readdiscinformation", xfer="alloc", facade_unmarshall=True),
    Cmd("InitializeElementStatus", "scsi_cdb_initelementstatus", "InitializeElementStatus", "INITIALIZE_ELEMENT_STATUS", 0x07, ["smc"],
        [], [], facade="initializeelementstatus"),
    Cmd("InitializeElementStatusWithRange", "scsi_cdb_initelementstatuswithrange", "InitializeElementStatusWithRange",
        "INITIALIZE_ELEMENT_STATUS_WITH_RANGE", 0x37, ["smc"],
        [("fast", (1, 1, 1)), ("range", (1, 0, 1)), ("start", (2, 7, 16)), ("count", (6, 7, 16))],
        [("xfer", u(16)), ("elements", u(16)), ("rng", u(1, 0)), ("fast", u(1, 0))],
        wire={"start": "xfer", "count": "elements", "range": "rng"}, facade="initializeelementstatuswithrange"),
    Cmd("MoveMedium", "scsi_cdb_movemedium", "MoveMedium", "MOVE_MEDIUM", 0xA5, ["smc"],
        [("transport", (2, 7, 16)), ("source", (4, 7, 16)), ("dest", (6, 7, 16)), ("invert", (10, 0, 1))],
        [("xfer", u(16)), ("source", u(16)), ("dest", u(16)), ("invert", u(1, 0))],
        wire={"transport": "xfer"}, facade="movemedium"),
    Cmd("ExchangeMedium", "scsi_cdb_exchangemedium", "ExchangeMedium", "EXCHANGE_MEDIUM", 0xA6, ["smc"],
        [("transport", (2, 7, 16)), ("source", (4, 7, 16)), ("dest1", (6, 7, 16)), ("dest2", (8, 7, 16)), ("inv1", (10, 1, 1)), ("inv2", (10, 0, 1))],
        [("xfer", u(16)), ("source", u(16)), ("dest1", u(16)), ("dest2", u(16)), ("inv1", u(1, 0)), ("inv2", u(1, 0))],
        wire={"transport": "xfer"}, facade="exchangemedium"),
    Cmd("PositionToElement", "scsi_cdb_positiontoelement", "PositionToElement", "POSITION_TO_ELEMENT", 0x2B, ["smc"],
        [("transport", (2, 7, 16)), ("dest", (4, 7, 16)), ("invert", (8, 0, 1))],
        [("xfer", u(16)), ("dest", u(16)), ("invert", u(1, 0))],
        wire={"transport": "xfer"}, facade="positiontoelement"),
    Cmd("OpenCloseImportExportElement", "scsi_cdb_openclose_exportimport_element", "OpenCloseImportExportElement",
        "OPEN_CLOSE_IMPORT_EXPORT_ELEMENT", 0x1B, ["smc"],
        [("element", (2, 7, 16)), ("action", (4, 4, 5))],
        [("xfer", u(16)), ("acode", u(5))],
        wire={"element": "xfer", "action": "acode"}, facade="opencloseimportexportelement"),
    Cmd("ReadElementStatus", "scsi_cdb_readelementstatus", "ReadElementStatus", "READ_ELEMENT_STATUS", 0xB8, ["smc"],
        [("voltag", (1, 4, 1)), ("element_type", (1, 3, 4)), ("start", (2, 7, 16)), ("num", (4, 7, 16)),
         ("curdata", (6, 1, 1)), ("dvcid", (6, 0, 1)), ("alloc", (7, 7, 24))],
        [("start", u(16)), ("num", u(16)), ("element_type", u(4, 0)), ("voltag", u(1, 0)), ("curdata", u(1, 1)), ("dvcid", u(1, 0)),
         ("alloclen", ("alloc", 24, 16384))],
        wire={"alloc": "alloclen"}, facade="readelementstatus", xfer="alloc", facade_unmarshall=True),
]

COMMANDS = OrderedDict((c.name, c) for c in _LIST)
assert len(COMMANDS) == 42, len(COMMANDS)

NO_DATA = [c.name for c in _LIST if c.xfer == "none"]


# ---------------------------------------------------------------------------
# SAT-3 12.2.2 transfer rules for ATA PASS-THROUGH (Appendix A)
def ata_transfer(a):
    """returns (len_out, len_in) the CDB announces; None if refused (bs 0)."""
    tlen = a["t_length"]
    if tlen == 0:
        units = 0
    elif tlen == 1:
        units = a["fetures"]
    elif tlen == 2:
        units = a["count"]
    else:
        units = a.get("extra_tl") or 0
    if tlen == 0:
        size = 0
    elif not a["byte_block"]:
        size = 1
    elif not a["t_type"]:
        size = 512
    else:
        size = a.get("blocksize") or 0
        if size == 0:
            return None
    n = units * size
    return (0, n) if a["t_dir"] else (n, 0)


# ---------------------------------------------------------------------------
# MMC-6 READ CD: bytes per sector for (est, mcsb, c2ei, scsb); None = illegal/
# unspecified combination (not generated)
def readcd_sector_bytes(est, mcsb, c2ei, scsb):
    """MMC-6 6.19 READ CD.  Main channel selection: SYNC(10h) header codes
    (header 04h, sub-header 08h) USER DATA(02h) EDC&ECC(01h).  Only selections
    that are unambiguous in MMC's "mapped values" table are given a size:
    the selected fields must exist in the sector type and be contiguous in the
    sector (sync, header, sub-header, user data, EDC/ECC); CD-DA offers user
    data only.  Everything else -> None (never generated)."""
    sync = bool(mcsb & 0x10)
    header = bool(mcsb & 0x04)
    subhdr = bool(mcsb & 0x08)
    user = bool(mcsb & 0x02)
    edc = bool(mcsb & 0x01)
    # (selected?, size) in sector order, per expected sector type
    if est == 1:
        if mcsb != 0x02:
            return None
        order = [(True, 2352)]
    elif est == 2:
        if subhdr:
            return None
        order = [(sync, 12), (header, 4), (user, 2048), (edc, 288)]  # EDC 4 + zero 8 + P 172 + Q 104
    elif est == 3:
        if subhdr or edc:
            return None
        order = [(sync, 12), (header, 4), (user, 2336)]
    elif est == 4:
        order = [(sync, 12), (header, 4), (subhdr, 8), (user, 2048), (edc, 280)]  # EDC 4 + P 172 + Q 104
    elif est == 5:
        order = [(sync, 12), (header, 4), (subhdr, 8), (user, 2324), (edc, 4)]
    else:
        return None
    sel = [i for i, (on, _n) in enumerate(order) if on]
    if sel and sel != list(range(sel[0], sel[-1] + 1)):
        return None  # non-contiguous selection: illegal per MMC
    if mcsb and not user:
        return None  # header/EDC-only selections: MMC's mapped-values table not transcribed with confidence
    n = sum(sz for on, sz in order if on)
    if c2ei == 1:
        n += 294
    elif c2ei == 2:
        n += 296
    elif c2ei == 3:
        return None
    if scsb in (1, 4):
        n += 96
    elif scsb == 2:
        n += 16
    elif scsb != 0:
        return None
    return n
