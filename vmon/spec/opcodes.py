"""T10 operation codes, service actions and status codes (my transcription of
the T10 op-num list / SAM-5 / SPC-4 / SBC-3 / SSC-4 / SMC-3 / MMC-6 / SAT-3).

Keyed by the *standard command name* in the spelling the library uses for its
keys (NAME_nn for the CDB length variants).  One table for all command sets: a
standard name has one operation code whichever command set lists it; names that
mean different commands in different sets are listed per set in PER_SET.
"""

# SAM-5 5.3.1 status codes
STATUS = {
    "GOOD": 0x00,
    "CHECK_CONDITION": 0x02,
    "CONDITIONS_MET": 0x04,  # SAM: CONDITION MET
    "BUSY": 0x08,
    "RESERVATION_CONFLICT": 0x18,
    "TASK_SET_FULL": 0x28,
    "ACA_ACTIVE": 0x30,
    "TASK_ABORTED": 0x40,
}
# obsolete/intermediate codes exist (10h, 14h, 22h) but the library does not name them


# status codes of earlier SAM revisions (obsolete since SAM-3/SAM-4) and their alternative spellings: not required, but if a
# table lists one of these names it has to carry this value
STATUS_OPTIONAL = {"INTERMEDIATE": 0x10, "INTERMEDIATE_CONDITION_MET": 0x14, "INTERMEDIATE_GOOD": 0x10, "INTERMEDIATE_C_GOOD": 0x14,
                   "COMMAND_TERMINATED": 0x22, "QUEUE_FULL": 0x28, "TASK_SET_FULL": 0x28, "ACA_ACTIVE": 0x30, "TASK_ABORTED": 0x40,
                   "CONDITION_GOOD": 0x04, "CONDITION_MET": 0x04}


def group_length(op):
    """SAM-5 / SPC-4 4.2.5.1: CDB length by group code (bits 7:5 of byte 0).
    Groups 3 (60-7F: reserved / variable length 7Fh, 7Eh) and 6,7 (C0-FF vendor
    specific) have no fixed length."""
    g = (op >> 5) & 7
    return {0: 6, 1: 10, 2: 10, 4: 16, 5: 12}.get(g)


# name -> opcode, valid in every command set that lists the name
T10 = {
    # SPC
    "ACCESS_CONTROL_IN": 0x86,
    "ACCESS_CONTROL_OUT": 0x87,
    "EXTENDED_COPY": 0x83,
    "INQUIRY": 0x12,
    "LOG_SELECT": 0x4C,
    "LOG_SENSE": 0x4D,
    "MODE_SELECT_6": 0x15,
    "MODE_SELECT_10": 0x55,
    "MODE_SENSE_6": 0x1A,
    "MODE_SENSE_10": 0x5A,
    "PERSISTENT_RESERVE_IN": 0x5E,
    "PERSISTENT_RESERVE_OUT": 0x5F,
    "PREVENT_ALLOW_MEDIUM_REMOVAL": 0x1E,
    "READ_ATTRIBUTE": 0x8C,
    "READ_BUFFER_10": 0x3C,
    "READ_BUFFER_16": 0x9B,
    "READ_MEDIA_SERIAL_NUMBER": 0xAB,
    "RECEIVE_COPY_RESULTS": 0x84,
    "RECEIVE_DIAGNOSTIC_RESULTS": 0x1C,
    "REPORT_LUNS": 0xA0,
    "REQUEST_SENSE": 0x03,
    "SEND_DIAGNOSTIC": 0x1D,
    "TEST_UNIT_READY": 0x00,
    "WRITE_ATTRIBUTE": 0x8D,
    "WRITE_BUFFER": 0x3B,
    "MAINTENANCE_IN": 0xA3,
    "MAINTENANCE_OUT": 0xA4,
    "SECURITY_PROTOCOL_IN": 0xA2,
    "SECURITY_PROTOCOL_OUT": 0xB5,
    "RELEASE_6": 0x17,
    "RELEASE_10": 0x57,
    "RESERVE_6": 0x16,
    "RESERVE_10": 0x56,
    "REPORT_ALIAS": 0xA3,
    # SBC
    "ATA_PASS_THROUGH_12": 0xA1,
    "ATA_PASS_THROUGH_16": 0x85,
    "COMPARE_AND_WRITE": 0x89,
    "FORMAT_UNIT": 0x04,
    "ORWRITE_16": 0x8B,
    "PRE_FETCH_10": 0x34,
    "PRE_FETCH_16": 0x90,
    "READ_6": 0x08,
    "READ_10": 0x28,
    "READ_12": 0xA8,
    "READ_16": 0x88,
    "READ_CAPACITY_10": 0x25,
    "READ_CAPACITY": 0x25,
    "READ_DEFECT_DATA_10": 0x37,
    "READ_DEFECT_DATA_12": 0xB7,
    "READ_LONG_10": 0x3E,
    "READ_LONG_16": 0x9E,
    "REASSIGN_BLOCKS": 0x07,
    "REDUNDANCY_GROUP_IN": 0xBA,
    "REDUNDANCY_GROUP_OUT": 0xBB,
    "SPARE_IN": 0xBC,
    "SPARE_OUT": 0xBD,
    "START_STOP_UNIT": 0x1B,
    "SYNCHRONIZE_CACHE_10": 0x35,
    "SYNCHRONIZE_CACHE": 0x35,
    "SYNCHRONIZE_CACHE_16": 0x91,
    "UNMAP": 0x42,
    "VERIFY_10": 0x2F,
    "VERIFY_12": 0xAF,
    "VERIFY_16": 0x8F,
    "VOLUME_SET_IN": 0xBE,
    "VOLUME_SET_OUT": 0xBF,
    "WRITE_6": 0x0A,
    "WRITE_10": 0x2A,
    "WRITE_12": 0xAA,
    "WRITE_16": 0x8A,
    "WRITE_AND_VERIFY_10": 0x2E,
    "WRITE_AND_VERIFY_12": 0xAE,
    "WRITE_AND_VERIFY_16": 0x8E,
    "WRITE_LONG_10": 0x3F,
    "WRITE_LONG_16": 0x9F,
    "WRITE_SAME_10": 0x41,
    "WRITE_SAME_16": 0x93,
    "XDREAD_10": 0x52,
    "XDWRITE_10": 0x50,
    "XDWRITEREAD_10": 0x53,
    "XPWRITE_10": 0x51,
    # SSC
    "ERASE_16": 0x93,
    "FORMAT_MEDIUM": 0x04,
    "LOAD_UNLOAD": 0x1B,
    "LOCATE_16": 0x92,
    "MOVE_MEDIUM_ATTACHED": 0xA7,
    "READ_BLOCK_LIMITS": 0x05,
    "READ_ELEMENT_STATUS_ATTACHED": 0xB4,
    "READ_POSITION": 0x34,
    "READ_REVERSE_6": 0x0F,
    "READ_REVERSE_16": 0x81,
    "RECOVER_BUFFERED_DATA": 0x14,
    "REPORT_DENSITY_SUPPORT": 0x44,
    "REWIND": 0x01,
    "SET_CAPACITY": 0x0B,
    "SPACE_6": 0x11,
    "SPACE_16": 0x91,
    "VERIFY_6": 0x13,
    "WRITE_FILEMARKS_6": 0x10,
    "WRITE_FILEMARKS_16": 0x80,
    # SMC
    "EXCHANGE_MEDIUM": 0xA6,
    "INITIALIZE_ELEMENT_STATUS": 0x07,
    "INITIALIZE_ELEMENT_STATUS_WITH_RANGE": 0x37,
    "MOVE_MEDIUM": 0xA5,
    "OPEN_CLOSE_IMPORT_EXPORT_ELEMENT": 0x1B,
    "POSITION_TO_ELEMENT": 0x2B,
    "READ_ELEMENT_STATUS": 0xB8,
    "REPORT_VOLUME_TYPES_SUPPORTED": 0x44,
    "REQUEST_VOLUME_ELEMENT_ADDRESS": 0xB5,
    "SEND_VOLUME_TAG": 0xB6,
    # MMC
    "BLANK": 0xA1,
    "CLOSE_TRACK_SESSION": 0x5B,
    "GET_CONFIGURATION": 0x46,
    "GET_EVENT_STATUS_NOTIFICATION": 0x4A,
    "GET_PERFORMANCE": 0xAC,
    "LOAD_UNLOAD_MEDIUM": 0xA6,
    "MECHANISM_STATUS": 0xBD,
    "READ_BUFFER_CAPACITY": 0x5C,
    "READ_CD": 0xBE,
    "READ_CD_MSF": 0xB9,
    "READ_DISC_INFORMATION": 0x51,
    "READ_DISC_STRUCTURE": 0xAD,
    "READ_FORMAT_CAPACITIES": 0x23,
    "READ_TOC_PMA_ATIP": 0x43,
    "READ_TRACK_INFORMATION": 0x52,
    "REPAIR_TRACK": 0x58,
    "REPORT_KEY": 0xA4,
    "RESERVE_TRACK": 0x53,
    "SEEK_10": 0x2B,
    "SEND_CUE_SHEET": 0x5D,
    "SEND_DISC_STRUCTURE": 0xBF,
    "SEND_KEY": 0xA3,
    "SEND_OPC_INFORMATION": 0x54,
    "SET_CD_SPEED": 0xBB,
    "SET_READ_AHEAD": 0xA7,
    "SET_STREAMING": 0xB6,
}

# the library's generic "opcode with a service-action table" containers
CONTAINERS = {
    "SPC_OPCODE_A3": 0xA3,
    "SPC_OPCODE_A4": 0xA4,
    "SBC_OPCODE_7F": 0x7F,
    "SBC_OPCODE_A3": 0xA3,
    "SBC_OPCODE_A4": 0xA4,
    "SBC_OPCODE_9E": 0x9E,
    "SSC_OPCODE_A3": 0xA3,
    "SSC_OPCODE_A4": 0xA4,
    "SMC_OPCODE_A3": 0xA3,
    "SMC_OPCODE_A4": 0xA4,
}

# service actions (T10 op-num "service actions" tables)
SA = {
    "PERSISTENT_RESERVE_IN": {
        "READ_KEYS": 0x00,
        "READ_RESERVATION": 0x01,
        "REPORT_CAPABILITIES": 0x02,
        "READ_FULL_STATUS": 0x03,
    },
    "PERSISTENT_RESERVE_OUT": {
        "REGISTER": 0x00,
        "RESERVE": 0x01,
        "RELEASE": 0x02,
        "CLEAR": 0x03,
        "PREEMPT": 0x04,
        "PREEMPT_AND_ABORT": 0x05,
        "REGISTER_AND_IGNORE_EXISTING_KEY": 0x06,
        "REGISTER_AND_MOVE": 0x07,
        "REPLACE_LOST_REGISTRATION": 0x08,  # SPC-4: REPLACE LOST RESERVATION
    },
    "READ_MEDIA_SERIAL_NUMBER": {"READ_MEDIA_SERIAL_NUMBER": 0x01},
    "READ_LONG_16": {"READ_LONG_16": 0x11},
    "WRITE_LONG_16": {"WRITE_LONG_16": 0x11},
    "REPORT_ALIAS": {"REPORT_ALIAS": 0x0B},
}

# the shared table attached to the container opcodes; grouped by the opcode
# each name belongs to so that equal numbers under different opcodes are fine
GENERIC_SA = {
    # A3h MAINTENANCE IN
    "REPORT_IDENTIFYING_INFORMATION": 0x05,
    "REPORT_DEVICE_IDENTIFIER": 0x05,  # SPC-3 name of the same action
    "REPORT_TARGET_PORT_GROUPS": 0x0A,
    "REPORT_ALIASES": 0x0B,
    "REPORT_SUPPORTED_OPERATION_CODES": 0x0C,
    "REPORT_SUPPORTED_TASK_MANAGEMENT_FUNCTIONS": 0x0D,
    "REPORT_PRIORITY": 0x0E,
    "REPORT_TIMESTAMP": 0x0F,
    "REQUEST_DATA_TRANSFER_ELEMENT_INQUIRY": 0x06,  # SMC-3, A3h
    # A4h MAINTENANCE OUT
    "SET_IDENTIFYING_INFORMATION": 0x06,
    "SET_DEVICE_IDENTIFIER": 0x06,
    "SET_TARGET_PORT_GROUPS": 0x0A,
    "CHANGE_ALIASES": 0x0B,
    "SET_PRIORITY": 0x0E,
    "SET_TIMESTAMP": 0x0F,
    # 7Fh variable length CDB (SBC-3)
    "XDREAD_32": 0x0003,
    "XDWRITE_32": 0x0004,
    "XPWRITE_32": 0x0006,
    "XDWRITEREAD_32": 0x0007,
    "READ_32": 0x0009,
    "VERIFY_32": 0x000A,
    "WRITE_32": 0x000B,
    "WRITE_AND_VERIFY_32": 0x000C,
    "WRITE_SAME_32": 0x000D,
    "ORWRITE_32": 0x000E,
    # 9Eh SERVICE ACTION IN(16)
    "READ_CAPACITY_16": 0x10,
    "GET_LBA_STATUS": 0x12,
    "REPORT_REFERRALS": 0x13,
    # 1Bh SMC-3 OPEN/CLOSE IMPORT/EXPORT ELEMENT action codes
    "OPEN_IMPORTEXPORT_ELEMENT": 0x00,
    "CLOSE_IMPORTEXPORT_ELEMENT": 0x01,
}

# SCC-2 MAINTENANCE IN/OUT service actions: not transcribed (reference gap)
REFERENCE_GAPS = [
    "SCC-2 MAINTENANCE IN/OUT service action numbers (sa_maintenance_in/out): value consistency only",
]

# which opcode tables exist
SETS = ["spc", "sbc", "ssc", "smc", "mmc"]
