"""C02 - CDB decoding is the exact inverse of CDB encoding."""
LEVEL = "exploration"
RULE = (
    "per command class: (1) constructor runs with SCSICommand.build_cdb hooked to capture the exact field values passed; "
    "unmarshall_cdb(cmd.cdb) must return them and marshall_cdb of that must reproduce cmd.cdb; (2) joint assignments to all "
    "fields at boundary/random values straight through marshall_cdb->unmarshall_cdb (no buffers allocated, so full-width "
    "values incl. every single-bit value of every field); (3) random byte strings masked to the class's defined bits "
    "-> unmarshall -> marshall must be identical; (4) single-field perturbation must change only that field's decoded value. "
    "All directly after constructing a command of the same class.  distinct = hash(class, step, assignment); non-trivial = >=2 "
    "non-zero fields"
)
ASSUMPTIONS = [
    "in-range values are those that fit the reference width of the field (vmon/spec/cdb.py)",
    "round trips are taken immediately after a same-class construction, single-threaded (cross-talk is C09)",
]


def shards(tier, seed):
    from vmon.spec import cdb as S

    out = [{"id": n, "cmd": n, "n": 120 if tier == "quick" else 15000} for n in S.COMMANDS]
    out += [{"id": n + ".base-first", "cmd": n, "n": 30 if tier == "quick" else 500, "base_first": True} for n in S.COMMANDS]
    return out


def lib_fields(cls):
    """library layout of a class as {name: (byte, msb, width)} via its masks"""
    from vmon.props.c10 import field_of

    out = {}
    for k, v in cls._cdb_bits.items():
        if len(v) == 2:
            f = field_of(v[0], v[1])
            if f:
                out[k] = f
    return out


def ref_width_by_libname(c, cls):
    """for each library field: the standard field it implements.  A library
    field whose bits are exactly a union of standard fields keeps its own shape
    (ATA LBA); otherwise the standard field with the largest overlap gives the
    width and position that in-range values are drawn from."""
    from vmon import refcodec as R

    lf = lib_fields(cls)
    std = {rf: R.bitset(*pos) for rf, pos in c.fields.items()}
    std["opcode"] = R.bitset(0, 7, 8)
    out = {}
    for k, pos in lf.items():
        bits = R.bitset(*pos)
        inside = [rf for rf, b in std.items() if b <= bits]
        if inside and set().union(*[std[rf] for rf in inside]) == bits:
            out[k] = pos
            continue
        best = max(std, key=lambda rf: len(std[rf] & bits), default=None)
        if best is None or not (std[best] & bits):
            out[k] = pos
        else:
            out[k] = (0, 7, 8) if best == "opcode" else c.fields[best]
    return lf, out


def nz(d):
    return sum(1 for k, v in d.items() if k != "opcode" and isinstance(v, int) and v)


def run(shard, ctx):
    from pyscsi.pyscsi.scsi_command import SCSICommand

    from vmon import gen, harness, refcodec as R
    from vmon.spec import cdb as S, dataout as DO

    c = S.COMMANDS[shard["cmd"]]
    if shard.get("base_first"):
        # the generic base class is used before this command class ever is (a CDB sniffer that only wants the opcode)
        for probe in (bytes(6), bytes([0x28]) + bytes(9), bytes([0x88]) + bytes(15)):
            try:
                SCSICommand.unmarshall_cdb(probe)
                SCSICommand.marshall_cdb({"opcode": probe[0]})
            except Exception:  # noqa: BLE001
                pass
        ctx.count("base_class_used_first")
    cls = c.load()
    rng = ctx.rng()
    setname = c.sets[0]
    captured = []
    orig = SCSICommand.build_cdb

    def hooked(self, **kw):
        captured.append(dict(kw))
        return orig(self, **kw)

    SCSICommand.build_cdb = hooked
    try:
        lf, refw = ref_width_by_libname(c, cls)
        widths = {}
        for k, (byte, msb, w) in lf.items():
            widths[k] = refw[k][2]
            if refw[k] != (byte, msb, w):
                ctx.add("library_field_differs_from_standard", "%s.%s lib=%s std=%s" % (c.name, k, (byte, msb, w), refw[k]))
        nbytes = c.length

        def fresh_same_class():
            a = DO.GEN[c.custom](rng)[0] if c.custom else harness.random_args(c, rng, cap=4096)
            del captured[:]
            cmd = harness.construct(c, setname, a)
            return a, cmd

        # (1) constructor path
        cases = []
        if c.custom:
            cases = [DO.GEN[c.custom](rng)[0] for _ in range(shard["n"])]
        else:
            cases = list(harness.walking_cases(c, rng, small=shard["n"] < 1000)) + list(harness.flag_cases(c, rng)) + [
                harness.random_args(c, rng) for _ in range(shard["n"])] + list(harness.novel_products(c, rng))
        for a in cases:
            del captured[:]
            try:
                cmd = harness.construct(c, setname, DO.fresh(a) if c.custom else a)
            except Exception as e:  # noqa: BLE001
                ctx.fail("C02:%s.constructor_raises" % c.name, "constructor raised %s" % type(e).__name__, {"cmd": c.name, "args": a}, exc=e)
                continue
            if not captured:
                ctx.inconclusive_because("build_cdb hook not reached for %s" % c.name)
                return
            ctx.count("build_cdb_hook_evaluations")
            fields = captured[-1]
            ctx.case((c.name, "ctor", tuple(sorted(fields.items()))), nz(fields) >= 2,
                     sample={"cmd": c.name, "fields": fields, "cdb": bytes(cmd.cdb)} if ctx.want_sample() else None)
            wit = {"cmd": c.name, "args": a, "fields": fields, "cdb": bytes(cmd.cdb)}
            try:
                dec = cls.unmarshall_cdb(cmd.cdb)
                re = cls.marshall_cdb(dec)
            except Exception as e:  # noqa: BLE001
                ctx.fail("C02:%s.roundtrip_raises" % c.name, "unmarshall/marshall raised %s" % type(e).__name__, wit, exc=e)
                continue
            for k, v in fields.items():
                if k in widths and isinstance(v, int) and v >> widths[k]:
                    continue
                if dec.get(k) != v:
                    ctx.fail("C02:%s.decode.%s" % (c.name, k), "%s built with %s=%#x decodes to %r" % (c.name, k, v, dec.get(k)), wit)
            if bytes(re) != bytes(cmd.cdb):
                ctx.fail("C02:%s.reencode" % c.name, "marshall(unmarshall(cdb)) = %s, cdb = %s" % (bytes(re).hex(), bytes(cmd.cdb).hex()), wit)
            # building again on the same instance from the same field values gives the same CDB
            try:
                orig_cdb = bytes(cmd.cdb)
                again = bytes(orig(cmd, **fields))
                again2 = bytes(orig(cmd, **fields))
                if again != orig_cdb or again2 != orig_cdb:
                    ctx.fail("C02:%s.rebuild_on_instance" % c.name, "cmd.build_cdb(same fields) = %s / %s, first build %s" % (again.hex(), again2.hex(), orig_cdb.hex()), wit)
            except Exception as e:  # noqa: BLE001
                ctx.fail("C02:%s.roundtrip_raises" % c.name, "second build_cdb raised", wit, exc=e)
            # build_cdb on an instance encodes the field values it is *given*, the operation code included (an object reused for
            # a sibling command of the same layout: WRITE AND VERIFY, VERIFY, PRE-FETCH ...): same bytes as the class-level encoder
            try:
                op0 = fields.get("opcode")
                if isinstance(op0, int):
                    for other in {(op0 & 0xE0) | ((op0 + 4) & 0x1F), (op0 & 0xE0) | ((op0 ^ 0x0F) & 0x1F), op0 ^ 0x01}:
                        if other == op0 or (other >> 5) != (op0 >> 5):
                            continue
                        f3 = dict(fields, opcode=other)
                        got3 = bytes(orig(cmd, **f3))
                        want3 = bytes(cls.marshall_cdb(dict(f3)))
                        ctx.count("rebuilds_with_sibling_opcode")
                        if got3 != want3 or got3[0] != other:
                            ctx.fail("C02:%s.rebuild_with_other_opcode" % c.name, "cmd.build_cdb(opcode=%02Xh, ...) = %s, marshall_cdb of the same values = %s" % (other, got3.hex(), want3.hex()), wit)
                            break
            except Exception as e:  # noqa: BLE001
                ctx.fail("C02:%s.roundtrip_raises" % c.name, "build_cdb with a sibling operation code raised %s" % type(e).__name__, wit, exc=e)
            # assigning the command's operation code object again (cmd.opcode = cmd.opcode, or the equal entry of another table)
            # changes nothing in the CDB that was built
            try:
                before_op = bytes(cmd.cdb)
                cmd.opcode = cmd.opcode
                after_one = bytes(cmd.cdb)
                cmd.opcode = c.opcode_obj(c.sets[-1])
                ctx.count("opcode_reassignments")
                if after_one != before_op or bytes(cmd.cdb) != before_op:
                    ctx.fail("C02:%s.cdb_changed_by_assigning_opcode" % c.name, "assigning cmd.opcode (the same entry) changed the CDB: %s, then %s, was %s" % (after_one.hex(), bytes(cmd.cdb).hex(), before_op.hex()), wit)
                    cmd.cdb = bytearray(before_op)
            except Exception as e:  # noqa: BLE001
                ctx.fail("C02:%s.roundtrip_raises" % c.name, "assigning cmd.opcode raised %s" % type(e).__name__, wit, exc=e)
            # a field left out of the dictionary is a field that is zero: the same bytes as with the field given as 0
            try:
                keys = [k for k in fields if k != "opcode"]
                if keys:
                    drop = set(rng.sample(keys, rng.randint(1, len(keys))))
                    part = {k: v for k, v in fields.items() if k not in drop}
                    zeroed = {k: (0 if k in drop else v) for k, v in fields.items()}
                    ctx.count("partial_dictionaries_encoded")
                    if bytes(cls.marshall_cdb(dict(part))) != bytes(cls.marshall_cdb(dict(zeroed))):
                        ctx.fail("C02:%s.absent_field_is_not_zero" % c.name, "marshall_cdb without %s = %s, with them given as 0 = %s" % (sorted(drop), bytes(cls.marshall_cdb(dict(part))).hex(), bytes(cls.marshall_cdb(dict(zeroed))).hex()), wit)
            except Exception as e:  # noqa: BLE001
                ctx.fail("C02:%s.roundtrip_raises" % c.name, "marshall_cdb of a partial dictionary raised %s" % type(e).__name__, wit, exc=e)
            # a deep copy is a command of its own: scribbling over the copy's CDB leaves this command's CDB alone
            try:
                import copy as _copy

                dup = _copy.deepcopy(cmd)
                for i in range(1, len(dup.cdb)):
                    dup.cdb[i] ^= 0xFF
                ctx.count("deep_copies_edited")
                if bytes(cmd.cdb) != orig_cdb:
                    ctx.fail("C02:%s.cdb_shared_with_deep_copy" % c.name, "editing the CDB of copy.deepcopy(cmd) in place changed cmd.cdb: %s, was %s" % (bytes(cmd.cdb).hex(), orig_cdb.hex()), wit)
                    cmd.cdb = bytearray(orig_cdb)
            except Exception as e:  # noqa: BLE001
                ctx.fail("C02:%s.roundtrip_raises" % c.name, "deepcopy of the command raised %s" % type(e).__name__, wit, exc=e)
            # a CDB handed out earlier keeps decoding to the values it was built from, whatever is built on the object later
            k1 = next((k for k in fields if k != "opcode" and k in widths and isinstance(fields[k], int)), None)
            if k1 is not None:
                try:
                    earlier = cmd.cdb
                    f2 = dict(fields)
                    f2[k1] = fields[k1] ^ 1
                    cmd.cdb = orig(cmd, **f2)
                    ctx.count("earlier_cdb_rechecks")
                    if bytes(earlier) != orig_cdb or any(cls.unmarshall_cdb(earlier).get(k) != v for k, v in dec.items()):
                        ctx.fail("C02:%s.earlier_cdb_changed_by_rebuild" % c.name, "the CDB read from the command before it was rebuilt with %s changed now decodes differently: %s, was %s"
                                 % (k1, bytes(earlier).hex(), orig_cdb.hex()), wit)
                    if cls.unmarshall_cdb(cmd.cdb).get(k1) != f2[k1] and not (f2[k1] >> widths[k1]):
                        ctx.fail("C02:%s.rebuild_lost.%s" % (c.name, k1), "rebuilt with %s=%#x, decodes to %r" % (k1, f2[k1], cls.unmarshall_cdb(cmd.cdb).get(k1)), wit)
                except Exception as e:  # noqa: BLE001
                    ctx.fail("C02:%s.roundtrip_raises" % c.name, "rebuild with another value raised %s" % type(e).__name__, wit, exc=e)
            # decoded values do not follow the buffer they were decoded from: the caller reuses its receive buffer
            try:
                rx = bytearray(orig_cdb)
                d_rx = cls.unmarshall_cdb(rx)
                for i in range(1, len(rx)):
                    rx[i] = 0
                ctx.count("receive_buffer_reused")
                if bytes(cls.marshall_cdb(d_rx)) != orig_cdb:
                    ctx.fail("C02:%s.decoded_values_follow_source_buffer" % c.name, "marshall(decoded) changed after the buffer it was decoded from was overwritten: %s, was %s"
                             % (bytes(cls.marshall_cdb(d_rx)).hex(), orig_cdb.hex()), wit)
            except Exception as e:  # noqa: BLE001
                ctx.fail("C02:%s.roundtrip_raises" % c.name, "marshall after buffer reuse raised %s" % type(e).__name__, wit, exc=e)
            # the same dict object edited in place and marshalled again reflects the edit
            if dec:
                k0 = next((k for k in dec if k != "opcode" and k in widths), None)
                if k0 is not None:
                    d_same = dict(dec)
                    b_a = bytes(cls.marshall_cdb(d_same))
                    d_same[k0] = d_same[k0] ^ 1
                    b_b = bytes(cls.marshall_cdb(d_same))  # (contents never marshalled before: whatever is remembered is this object)
                    d_same[k0] = d_same[k0] ^ 1
                    b_c = bytes(cls.marshall_cdb(d_same))
                    if cls.unmarshall_cdb(b_b).get(k0) != dec[k0] ^ 1 or b_a != orig_cdb or b_c != orig_cdb:
                        ctx.fail("C02:%s.edit_in_place_lost" % c.name, "marshalling the same dict object after changing %s in place (and back) ignored a change: %s, %s, %s" % (k0, b_a.hex(), b_b.hex(), b_c.hex()), wit)

        # (2) direct joint assignments, full widths
        names = [k for k in lf if k != "opcode"]
        assigns = []
        for k in names:
            for fill in ("zero", "ones"):
                for v in (gen.small_boundary(widths[k]) if shard["n"] < 1000 else gen.boundary(widths[k])):
                    d = {n: (0 if fill == "zero" else (1 << widths[n]) - 1) for n in names}
                    d[k] = v
                    assigns.append(d)
        for _ in range(shard["n"]):
            assigns.append({n: gen.rand_value(rng, widths[n]) for n in names})
        # consecutive assignments whose wide values are congruent modulo 2**61-1 (CPython's int hash modulus)
        m61 = (1 << 61) - 1
        for k in names:
            if widths[k] >= 62:
                other = {n: gen.rand_value(rng, widths[n]) for n in names}
                for small, mult in ((0, 1), (1, 1), (7, 8), (4, 4), (0x1234, 5)):
                    if (small + mult * m61) >> widths[k]:
                        continue
                    for v in (small, small + mult * m61, small):
                        d = dict(other)
                        d[k] = v
                        assigns.append(d)
        # neighbour cases: each field at max while neighbours at max and at 0 are covered by ones/zero fills above
        # the same assignments with values that are ints by subclass only (bool for one-bit fields, an int subclass as
        # enum.IntEnum members are): equal numbers, equal bytes
        typed = []
        for d in assigns[:: max(1, len(assigns) // 60)]:
            typed.append({k: (bool(v) if widths[k] == 1 else harness.IntSub(v)) for k, v in d.items()})
        ctx.count("typed_assignments", len(typed))
        assigns = assigns + typed
        # ... and with field names that are equal but distinct string objects (a dictionary that came from json or parsed text)
        renamed = [{harness.fresh_str(k): v for k, v in d.items()} for d in assigns[:: max(1, len(assigns) // 60)]]
        ctx.count("assignments_with_runtime_made_names", len(renamed))
        assigns = assigns + [dict(d, **{"_fresh_names": True}) for d in renamed]
        fresh_same_class()
        for d in assigns:
            d = dict(d)
            if d.pop("_fresh_names", False):
                d[harness.fresh_str("opcode")] = c.op
            else:
                d["opcode"] = c.op
            ctx.case((c.name, "direct", tuple(sorted(d.items()))), nz(d) >= 2)
            wit = {"cmd": c.name, "fields": d}
            try:
                b = cls.marshall_cdb(d)
                dec = cls.unmarshall_cdb(b)
            except Exception as e:  # noqa: BLE001
                ctx.fail("C02:%s.roundtrip_raises" % c.name, "marshall/unmarshall raised %s" % type(e).__name__, wit, exc=e)
                continue
            if len(b) != nbytes:
                ctx.fail("C02:%s.length" % c.name, "marshall_cdb gave %d bytes" % len(b), wit)
            for k, v in d.items():
                if dec.get(k) != v:
                    ctx.fail("C02:%s.decode.%s" % (c.name, k), "%s: %s=%#x decodes to %r" % (c.name, k, v, dec.get(k)), wit)
            # reference view: each field's bits hold the value, nothing else set
            ref = bytearray(nbytes)
            for k, v in d.items():
                try:
                    R.put(ref, refw[k][0], refw[k][1], refw[k][2], v)
                except (ValueError, IndexError):
                    ref = None
                    break
            if ref is not None and bytes(b) != bytes(ref):
                ctx.fail("C02:%s.encode_position" % c.name, "marshall_cdb = %s, fields at their positions = %s" % (bytes(b).hex(), bytes(ref).hex()), wit)
            ctx.count("direct_roundtrips")

        # (3) bytes -> dict -> bytes
        mask = R.mask_bytes(nbytes, list(lf.values()))
        fresh_same_class()
        # two CDBs decoded one right after the other that *look alike when written down carelessly*: the same hexadecimal digits
        # when bytes below 10h are written with one digit (01 00 10 / 10 01 00 -> "1010"), the same text when bytes are joined
        # without separators. Each decodes to its own values
        runs, cur = [], []
        for i in range(1, nbytes):
            if mask[i] == 0xFF:
                cur.append(i)
            else:
                if len(cur) >= 2:
                    runs.append(cur)
                cur = []
        if len(cur) >= 2:
            runs.append(cur)
        for _ in range(0 if not runs else (40 if shard["n"] < 1000 else 400)):
            run = rng.choice(runs)
            L = len(run)
            t1 = [rng.choice([1, 2]) for _i in range(L)]
            if len(set(t1)) < 2:
                t1[0], t1[-1] = 1, 2
            t2 = list(t1)
            for _try in range(8):
                rng.shuffle(t2)
                if t2 != t1:
                    break
            if t2 == t1:
                continue
            digits = "".join(rng.choice("123456789abcdef") for _i in range(sum(t1)))

            def cut(ts):
                out, pos = [], 0
                for t in ts:
                    out.append(int(digits[pos:pos + t], 16))
                    pos += t
                return out

            pair = []
            for ts in (t1, t2):
                b = bytearray(nbytes)
                b[0] = c.op
                for idx, val in zip(run, cut(ts)):
                    b[idx] = val
                pair.append(bytes(b))
            if pair[0] == pair[1]:
                continue
            ctx.count("look_alike_cdbs_decoded_in_turn")
            try:
                d1 = cls.unmarshall_cdb(bytearray(pair[0]))
                d2 = cls.unmarshall_cdb(bytearray(pair[1]))
                d1b = cls.unmarshall_cdb(bytearray(pair[0]))
                back = [bytes(cls.marshall_cdb(dict(d))) for d in (d1, d2, d1b)]
                if back != [pair[0], pair[1], pair[0]]:
                    ctx.fail("C02:%s.look_alike_cdbs_confused" % c.name, "%s: %s and %s decoded in turn re-encode to %s" % (c.name, pair[0].hex(), pair[1].hex(), [x.hex() for x in back]),
                             {"cmd": c.name, "cdbs": [pair[0].hex(), pair[1].hex()]})
                    break
            except Exception as e:  # noqa: BLE001
                ctx.fail("C02:%s.roundtrip_raises" % c.name, "decoding look-alike CDBs raised %s" % type(e).__name__, {"cmd": c.name, "cdbs": [pair[0].hex(), pair[1].hex()]}, exc=e)
                break
        for _ in range(shard["n"]):
            b = bytearray(rng.getrandbits(8) & mask[i] for i in range(nbytes))
            b[0] = c.op
            ctx.case((c.name, "bytes", bytes(b)), sum(1 for x in b[1:] if x) >= 2)
            try:
                keep = bytes(b)
                d_b = cls.unmarshall_cdb(b)
                if _ % 2:
                    for i in range(1, len(b)):
                        b[i] ^= mask[i]  # the caller's buffer moves on
                back = cls.marshall_cdb(d_b)
                b = bytearray(keep)
            except Exception as e:  # noqa: BLE001
                ctx.fail("C02:%s.roundtrip_raises" % c.name, "bytes round trip raised", {"cmd": c.name, "bytes": b}, exc=e)
                continue
            if bytes(back) != bytes(b):
                ctx.fail("C02:%s.bytes_roundtrip" % c.name, "%s -> %s" % (bytes(b).hex(), bytes(back).hex()), {"cmd": c.name, "bytes": b})
            ctx.count("bytes_roundtrips")

        # (4) single-field perturbation
        for _ in range(max(20, shard["n"] // 4)):
            d = {n: gen.rand_value(rng, widths[n]) for n in names}
            d["opcode"] = c.op
            if not names:
                break
            k = rng.choice(names)
            d2 = dict(d)
            d2[k] = d[k] ^ (1 << rng.randrange(widths[k]))
            ctx.case((c.name, "perturb", k, tuple(sorted(d.items())), d2[k]), nz(d) >= 2)
            try:
                dec1 = cls.unmarshall_cdb(cls.marshall_cdb(d))
                dec2 = cls.unmarshall_cdb(cls.marshall_cdb(d2))
            except Exception as e:  # noqa: BLE001
                ctx.fail("C02:%s.roundtrip_raises" % c.name, "perturbation raised", {"cmd": c.name, "fields": d}, exc=e)
                continue
            for n in dec1:
                if n == k:
                    if dec1[n] == dec2[n]:
                        ctx.fail("C02:%s.perturb_lost.%s" % (c.name, k), "changing %s did not change its decoded value" % k, {"cmd": c.name, "a": d, "b": d2})
                elif dec1[n] != dec2[n]:
                    ctx.fail("C02:%s.crosstalk.%s" % (c.name, k), "changing %s changed decoded %s" % (k, n), {"cmd": c.name, "a": d, "b": d2})
            ctx.count("perturbations")
    finally:
        SCSICommand.build_cdb = orig


def finalize(merged, tier):
    c = merged["counters"]
    if c.get("build_cdb_hook_evaluations", 0) == 0:
        merged["inconclusive"].append("build_cdb hook never evaluated")
    return {"hook_evaluations": {"SCSICommand.build_cdb": c.get("build_cdb_hook_evaluations", 0)}}


def replay(rec, ctx):
    run({"id": rec["witness"]["cmd"], "cmd": rec["witness"]["cmd"], "n": 120, "base_first": str(rec.get("shard", "")).endswith(".base-first")}, ctx)
