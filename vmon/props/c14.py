"""C14 - operation codes, service actions, status codes are the T10 assignments.

Exhaustive walk of the live enumeration objects after import, judged against
vmon.spec.opcodes (my transcription of T10 op-num) and, as a second witness,
the #defines in /usr/include/scsi/scsi.h when present.
"""
import os
import re

LEVEL = "exploration"
RULE = (
    "exhaustive enumeration: every key of the five live opcode enumerations, every key of every "
    "service-action enumeration attached to them, every SCSI_STATUS name, and all 256 opcode values "
    "through SCSICommand.init_cdb; a case is one (table, name[, service action]) or one opcode value; "
    "all are distinct; non-trivial = has a reference value to be compared with"
)
ASSUMPTIONS = [
    "vmon/spec/opcodes.py is a correct transcription of the T10 op-num / SAM-5 status assignments",
    "SCC-2 MAINTENANCE IN/OUT service-action numbers are a declared reference gap (consistency only)",
]


def shards(tier, seed):
    return [{"id": "all"}]


def header_defines():
    out = {}
    p = "/usr/include/scsi/scsi.h"
    if not os.path.exists(p):
        return out
    for line in open(p, errors="replace"):
        m = re.match(r"#define\s+([A-Z0-9_]+)\s+0x([0-9a-fA-F]+)\b", line)
        if m:
            out[m.group(1)] = int(m.group(2), 16)
    return out


# scsi.h name -> library key (only names whose meaning is unambiguous)
HDR_MAP = {
    "TEST_UNIT_READY": "TEST_UNIT_READY", "REQUEST_SENSE": "REQUEST_SENSE", "FORMAT_UNIT": "FORMAT_UNIT",
    "READ_BLOCK_LIMITS": "READ_BLOCK_LIMITS", "REASSIGN_BLOCKS": "REASSIGN_BLOCKS", "READ_6": "READ_6", "WRITE_6": "WRITE_6",
    "READ_REVERSE": "READ_REVERSE_6", "INQUIRY": "INQUIRY", "RECOVER_BUFFERED_DATA": "RECOVER_BUFFERED_DATA",
    "MODE_SELECT": "MODE_SELECT_6", "MODE_SENSE": "MODE_SENSE_6", "START_STOP": "START_STOP_UNIT",
    "RECEIVE_DIAGNOSTIC": "RECEIVE_DIAGNOSTIC_RESULTS", "SEND_DIAGNOSTIC": "SEND_DIAGNOSTIC",
    "ALLOW_MEDIUM_REMOVAL": "PREVENT_ALLOW_MEDIUM_REMOVAL", "READ_CAPACITY": "READ_CAPACITY_10", "READ_10": "READ_10",
    "WRITE_10": "WRITE_10", "SEEK_10": "SEEK_10", "WRITE_VERIFY": "WRITE_AND_VERIFY_10", "VERIFY": "VERIFY_10",
    "PRE_FETCH": "PRE_FETCH_10", "SYNCHRONIZE_CACHE": "SYNCHRONIZE_CACHE_10", "READ_DEFECT_DATA": "READ_DEFECT_DATA_10",
    "WRITE_BUFFER": "WRITE_BUFFER", "READ_BUFFER": "READ_BUFFER_10", "READ_LONG": "READ_LONG_10", "WRITE_LONG": "WRITE_LONG_10",
    "WRITE_SAME": "WRITE_SAME_10", "READ_TOC": "READ_TOC_PMA_ATIP", "LOG_SELECT": "LOG_SELECT", "LOG_SENSE": "LOG_SENSE",
    "MODE_SELECT_10": "MODE_SELECT_10", "MODE_SENSE_10": "MODE_SENSE_10", "PERSISTENT_RESERVE_IN": "PERSISTENT_RESERVE_IN",
    "PERSISTENT_RESERVE_OUT": "PERSISTENT_RESERVE_OUT", "MOVE_MEDIUM": "MOVE_MEDIUM", "READ_12": "READ_12", "WRITE_12": "WRITE_12",
    "WRITE_VERIFY_12": "WRITE_AND_VERIFY_12", "READ_ELEMENT_STATUS": "READ_ELEMENT_STATUS", "SEND_VOLUME_TAG": "SEND_VOLUME_TAG",
    "RESERVE": "RESERVE_6", "RELEASE": "RELEASE_6", "RESERVE_10": "RESERVE_10", "RELEASE_10": "RELEASE_10",
    "POSITION_TO_ELEMENT": "POSITION_TO_ELEMENT", "REZERO_UNIT": "REWIND", "SPACE": "SPACE_6", "ERASE": None,
    "WRITE_FILEMARKS": "WRITE_FILEMARKS_6",
}


def run(shard, ctx):
    from vmon.sim import install

    install.install_fakes()  # before anything of pyscsi is imported
    walk(ctx, "after_import")
    exercise(ctx)
    walk(ctx, "after_use")


def snapshot():
    import pyscsi.pyscsi.scsi_enum_command as E

    from vmon.spec import opcodes as O

    snap = {}
    for setname in O.SETS:
        enum = getattr(E, setname)
        for key in enum.keys:
            oc = getattr(enum, key)
            snap[(setname, key)] = (oc.value, tuple(sorted((sk, getattr(oc.serviceaction, sk)) for sk in oc.serviceaction.keys)))
    return snap


def exercise(ctx):
    """use the library the way applications do -- attach facades to devices of every type and INQUIRY flag pattern,
    build every command with every opcode object of the right value, call every facade method -- because the tables are
    live, mutable objects: what they hold after use is what later commands are built from"""
    import pyscsi.pyscsi.scsi_enum_command as E
    from pyscsi.pyscsi.scsi import SCSI

    from vmon import harness
    from vmon.spec import cdb as S, dataout as DO, opcodes as O

    rng = ctx.rng("exercise")
    before = snapshot()
    # attach over plain devices whose INQUIRY data carries every flag pattern
    for devtype in range(32):
        for filler in (0x00, 0xFF, 0x08, 0xF7):
            def fill(cmd, devtype=devtype, filler=filler):
                if cmd.datain is not None and len(cmd.datain) >= 8:
                    for i in range(len(cmd.datain)):
                        cmd.datain[i] = filler
                    cmd.datain[0] = devtype
                    cmd.datain[4] = len(cmd.datain) - 5

            dev = harness.Recorder(E.spc, fill)
            try:
                s = SCSI(dev, 512)
                s.testunitready()
                s(dev)
                ctx.count("exercise_attaches_ok")
            except Exception:  # noqa: BLE001
                pass
            ctx.count("exercise_attaches")
    # every command class with every opcode object that carries its operation code, on every table
    for c in S.COMMANDS.values():
        a = DO.GEN[c.custom](rng)[0] if c.custom else harness.random_args(c, rng, cap=1024)
        for setname in O.SETS:
            enum = getattr(E, setname)
            for key in enum.keys:
                oc = getattr(enum, key)
                if oc.value != c.op:
                    continue
                try:
                    c.load()(oc, **harness.call_kwargs(c, DO.fresh(a) if c.custom else a))
                    ctx.count("exercise_constructions_ok")
                except Exception:  # noqa: BLE001
                    ctx.count("exercise_constructions_refused")
                ctx.count("exercise_constructions")
            if c.facade and setname in c.sets:
                dev = harness.Recorder(enum)
                try:
                    harness.facade_call(c, harness.make_facade(dev), DO.fresh(a) if c.custom else dict(a))
                    ctx.count("exercise_facade_calls_ok")
                except Exception:  # noqa: BLE001
                    pass
                ctx.count("exercise_facade_calls")
    after = snapshot()
    for k in sorted(set(before) | set(after)):
        ctx.case(("stable",) + k, True)
        if before.get(k) != after.get(k):
            b, a2 = before.get(k), after.get(k)
            what = "appeared" if b is None else "disappeared" if a2 is None else "changed"
            ctx.fail("C14:table_changed_by_use.%s.%s" % k, "%s.%s %s while the library was being used: %r -> %r" % (k[0], k[1], what, b, a2),
                     {"table": k[0], "name": k[1], "before": b, "after": a2})


def device_side_tables(ctx):
    """[(label, table)]: device.opcodes of real SCSIDevice / ISCSIDevice objects -- as created, after each command set was
    assigned by hand, and after a facade was attached to a device reporting each peripheral device type"""
    import sys

    import pyscsi.pyscsi.scsi_enum_command as E
    from pyscsi.pyscsi.scsi import SCSI

    from vmon.sim import install
    from vmon.spec import opcodes as O

    out = []
    for t in ("SCSIDevice", "ISCSIDevice"):
        mod = sys.modules["sgio" if t == "SCSIDevice" else "iscsi"]
        mk = (lambda: install.sgio_device()[0]) if t == "SCSIDevice" else install.iscsi_device
        try:
            dev = mk()
            out.append(("spc@%s.new" % t, dev.opcodes))
            for setname in O.SETS:
                dev.opcodes = getattr(E, setname)
                out.append(("%s@%s.assigned" % (setname, t), dev.opcodes))
            dev.close()
            for devtype, setname in ((0x00, "sbc"), (0x04, "sbc"), (0x07, "sbc"), (0x01, "ssc"), (0x05, "mmc"), (0x08, "smc"), (0x03, "spc"), (0x0D, "spc")):
                dev = mk()

                def handler(ev, devtype=devtype):
                    buf = ev.get("eff_in") if "eff_in" in ev else ev.get("in")
                    if ev["cdb"][0] == 0x12 and buf is not None and len(buf):
                        buf[0] = devtype
                    return 0, None

                mod.handler = handler
                try:
                    SCSI(dev, 512)
                finally:
                    mod.handler = None
                out.append(("%s@%s.attached_type_%02X" % (setname, t, devtype), dev.opcodes))
                dev.close()
        except Exception as e:  # noqa: BLE001
            ctx.fail("C14:device_table.raises.%s" % t, "reading the command set of a %s raised %s: %s" % (t, type(e).__name__, e), {"transport": t}, exc=e)
        mod.log = []
    return out


def walk(ctx, phase):
    import pyscsi.pyscsi.scsi_enum_command as E
    from pyscsi.pyscsi.scsi_command import SCSICommand

    from vmon.spec import opcodes as O

    hdr = header_defines()
    hdr_by_key = {}
    for hname, key in HDR_MAP.items():
        if key and hname in hdr:
            hdr_by_key[key] = hdr[hname]

    seen_values = {}
    total = referenced = 0
    # the module's tables, and the tables as devices present them (device.opcodes is what every facade method reads)
    tables = [(setname, getattr(E, setname)) for setname in O.SETS] + device_side_tables(ctx)
    for setname, enum in tables:
        if "@" in setname:
            std = getattr(E, setname.split("@")[0])
            ctx.count("device_side_tables_walked")
            if sorted(enum.keys) != sorted(std.keys):
                ctx.fail("C14:device_table.names.%s" % setname, "the command set of the device has other names than %s: %s"
                         % (setname.split("@")[0], sorted(set(enum.keys) ^ set(std.keys))[:6]), {"table": setname})
        for key in enum.keys:
            total += "@" not in setname
            oc = getattr(enum, key)
            ref = O.T10.get(key, O.CONTAINERS.get(key))
            ctx.case("op:%s:%s:%s" % (phase, setname, key), ref is not None,
                     sample={"table": setname, "name": key, "value": "%02x" % oc.value, "reference": ref})
            ctx.add("tables", setname)
            if ref is None:
                ctx.add("unreferenced_names", key)
            else:
                referenced += "@" not in setname
                if oc.value != ref:
                    ctx.fail("C14:opcode.%s.%s" % (setname, key),
                             "%s.%s is %02Xh, T10 assigns %02Xh" % (setname, key, oc.value, ref),
                             {"table": setname, "name": key, "value": oc.value, "reference": ref})
            if key in hdr_by_key:
                ctx.count("header_cross_checks")
                if ref is not None and hdr_by_key[key] != ref:
                    ctx.inconclusive_because("reference and scsi.h disagree on %s" % key)
            prev = seen_values.setdefault(key, (setname, oc.value))
            if prev[1] != oc.value:
                ctx.fail("C14:inconsistent.%s" % key,
                         "%s is %02Xh in %s but %02Xh in %s" % (key, prev[1], prev[0], oc.value, setname),
                         {"name": key, prev[0]: prev[1], setname: oc.value})
            # service actions
            sa = oc.serviceaction
            for sk in sa.keys:
                val = getattr(sa, sk)
                if key in O.SA:
                    sref = O.SA[key].get(sk)
                elif key in ("MAINTENANCE_IN", "MAINTENANCE_OUT"):
                    sref = O.GENERIC_SA.get(sk)  # SPC names are referenced; the SCC-2 names are a declared gap
                    if sref is None:
                        ctx.add("reference_gap_service_actions", "%s.%s" % (key, sk))
                else:
                    sref = O.GENERIC_SA.get(sk)
                ctx.case("sa:%s:%s:%s:%s" % (phase, setname, key, sk), sref is not None)
                ctx.count("service_actions_seen")
                if sref is None:
                    if key not in ("MAINTENANCE_IN", "MAINTENANCE_OUT"):
                        ctx.add("unreferenced_service_actions", "%s.%s" % (key, sk))
                    continue
                ctx.count("service_actions_referenced")
                if val != sref:
                    ctx.fail("C14:sa.%s.%s.%s" % (setname, key, sk),
                             "%s.%s service action %s is %02Xh, T10 assigns %02Xh" % (setname, key, sk, val, sref),
                             {"table": setname, "name": key, "sa": sk, "value": val, "reference": sref})
    if phase == "after_import":
        ctx.count("opcode_entries", total)
        ctx.count("opcode_entries_referenced", referenced)

    # status codes
    for name in E.SCSI_STATUS.keys:
        val = getattr(E.SCSI_STATUS, name)
        ref = O.STATUS.get(name, O.STATUS_OPTIONAL.get(name))
        ctx.case("status:%s:%s" % (phase, name), ref is not None, sample={"status": name, "value": val, "reference": ref})
        if ref is None:
            ctx.add("unreferenced_status_names", name)
        elif val != ref:
            ctx.fail("C14:status.%s" % name, "SCSI_STATUS.%s is %02Xh, SAM assigns %02Xh" % (name, val, ref),
                     {"name": name, "value": val, "reference": ref})
    for name, ref in O.STATUS.items():
        if getattr(E.SCSI_STATUS, name, None) != ref:
            ctx.fail("C14:status.%s" % name, "SCSI_STATUS.%s missing or wrong" % name, {"name": name, "reference": ref})
        if E.SCSI_STATUS[ref] != name:
            ctx.fail("C14:status_reverse.%s" % name, "SCSI_STATUS[%02Xh] is %r" % (ref, E.SCSI_STATUS[ref]), {"name": name})

    # obsolete enums: value consistency with T10 by name
    for name in E.OPCODE.keys:
        ref = O.T10.get(name, {"SERVICE_ACTION_IN": 0x9E}.get(name))
        ctx.case("obsolete:%s:%s" % (phase, name), ref is not None)
        if ref is not None and getattr(E.OPCODE, name) != ref:
            ctx.fail("C14:obsolete.OPCODE.%s" % name, "OPCODE.%s is %02Xh, T10 %02Xh" % (name, getattr(E.OPCODE, name), ref),
                     {"name": name})
    for name in E.SERVICE_ACTION_IN.keys:
        ref = O.GENERIC_SA.get(name)
        ctx.case("obsolete-sa:%s:%s" % (phase, name), ref is not None)
        if ref is not None and getattr(E.SERVICE_ACTION_IN, name) != ref:
            ctx.fail("C14:obsolete.SERVICE_ACTION_IN.%s" % name, "wrong value", {"name": name})

    # CDB length per group, all 256 values
    class Op:
        def __init__(self, v):
            self.value = v

    for v in range(256):
        want = O.group_length(v)
        ctx.case("len:%s:%02x" % (phase, v), True)
        try:
            cdb = SCSICommand.init_cdb(Op(v))
            got = len(cdb)
            if want is None:
                ctx.fail("C14:cdblen.accepted.group%d" % (v >> 5),
                         "opcode %02Xh (group %d: no fixed length) accepted with a %d-byte CDB" % (v, v >> 5, got), {"opcode": v})
            elif got != want or any(cdb):
                ctx.fail("C14:cdblen.group%d" % (v >> 5), "opcode %02Xh: %d-byte CDB, group prescribes %d" % (v, got, want),
                         {"opcode": v, "len": got})
        except Exception as e:  # noqa: BLE001
            if want is not None:
                ctx.fail("C14:cdblen.refused.group%d" % (v >> 5), "opcode %02Xh refused (%s), group prescribes %d bytes"
                         % (v, type(e).__name__, want), {"opcode": v}, exc=e)
            elif type(e).__name__ != "OpcodeException":
                ctx.fail("C14:cdblen.wrong_error.group%d" % (v >> 5), "opcode %02Xh refused with %s, not OpcodeException"
                         % (v, type(e).__name__), {"opcode": v}, exc=e)
        if phase == "after_import":
            ctx.count("opcode_values_checked")

    def judge_len(tag, v, thunk, wit):
        want = O.group_length(v)
        try:
            cdb = thunk()
            got = len(cdb)
            if want is None:
                ctx.fail("C14:cdblen.%s.accepted.group%d" % (tag, v >> 5), "opcode %02Xh (group %d: no fixed length) accepted with a %d-byte CDB (%s)" % (v, v >> 5, got, tag), wit)
            elif got != want:
                ctx.fail("C14:cdblen.%s.group%d" % (tag, v >> 5), "opcode %02Xh: %d-byte CDB, group prescribes %d (%s)" % (v, got, want, tag), wit)
        except Exception as e:  # noqa: BLE001
            if want is not None:
                ctx.fail("C14:cdblen.%s.refused.group%d" % (tag, v >> 5), "opcode %02Xh refused (%s), group prescribes %d bytes (%s)" % (v, type(e).__name__, want, tag), wit, exc=e)
            elif type(e).__name__ != "OpcodeException":
                ctx.fail("C14:cdblen.%s.wrong_error.group%d" % (tag, v >> 5), "opcode %02Xh refused with %s, not OpcodeException (%s)" % (v, type(e).__name__, tag), wit, exc=e)

    # the length belongs to the value an OpCode object has *now*: real OpCode objects whose value is set again (public setter),
    # and build_cdb(opcode=...) with another code than the one the command object was created with
    from pyscsi.pyscsi.scsi_cdb_testunitready import TestUnitReady
    from pyscsi.pyscsi.scsi_opcode import OpCode

    # application subclasses of OpCode whose value is computed (a vendor's base code plus an offset; a code looked up in a
    # quirk table): `value` is the operation code, whatever the object was constructed with
    class Computed(OpCode):
        def __init__(self, name, base, offset):
            OpCode.__init__(self, name, base, {})
            self.offset = offset

        @property
        def value(self):
            return (OpCode.value.fget(self) + self.offset) & 0xFF

    class Looked(OpCode):
        table = {}

        @property
        def value(self):
            return self.table[self.name]

    for base_code in (0x00, 0x08, 0x28, 0x88, 0xA0, 0xC0):
        for v2 in range(256):
            ctx.case("len-computed:%s:%02x:%02x" % (phase, base_code, v2), True)
            judge_len("opcode_subclass_with_computed_value", v2, lambda: SCSICommand.init_cdb(Computed("X", base_code, (v2 - base_code) & 0xFF)), {"opcode": v2, "constructed_with": base_code})
            Looked.table["Y"] = v2
            judge_len("opcode_subclass_with_looked_up_value", v2, lambda: SCSICommand.init_cdb(Looked("Y", base_code, {})), {"opcode": v2, "constructed_with": base_code})
            if phase == "after_import":
                ctx.count("opcode_subclass_probes", 2)
    for v1 in (0x00, 0x12, 0x28, 0x5E, 0x60, 0x7F, 0x88, 0xA8, 0xC0, 0xFF):
        for v2 in range(256):
            oc = OpCode("X", v1, {})
            try:
                SCSICommand.init_cdb(oc)
            except Exception:  # noqa: BLE001
                pass
            oc.value = v2
            ctx.case("len-reused:%s:%02x:%02x" % (phase, v1, v2), True)
            judge_len("opcode_object_reused", v2, lambda: SCSICommand.init_cdb(oc), {"opcode": v2, "earlier_value_of_the_object": v1})
            if O.group_length(v1) is not None:
                cmd = TestUnitReady(OpCode("TEST", v1, {}))
                ctx.case("len-build:%s:%02x:%02x" % (phase, v1, v2), True)
                judge_len("first_build_cdb", v2, lambda: cmd.build_cdb(opcode=v2), {"opcode": v2, "command_created_with": v1})
                judge_len("second_build_cdb", v2, lambda: cmd.build_cdb(opcode=v2), {"opcode": v2, "command_created_with": v1})
            if phase == "after_import":
                ctx.count("opcode_object_reuse_checks")

    # whatever a table hands out under a standard name (also through plain attribute access, for names it does not list)
    # carries the T10 value of that name
    names = dict(O.CONTAINERS)
    names.update(O.T10)
    for setname in O.SETS:
        enum = getattr(E, setname)
        for name, ref in names.items():
            try:
                oc = getattr(enum, name)
            except AttributeError:
                continue
            except Exception as e:  # noqa: BLE001
                ctx.fail("C14:lookup_raises.%s" % type(e).__name__, "%s.%s raised %s" % (setname, name, type(e).__name__), {"table": setname, "name": name}, exc=e)
                continue
            ctx.count("attribute_lookups_answered")
            val = getattr(oc, "value", oc)
            if val != ref:
                ctx.fail("C14:opcode.%s.%s" % (setname, name) if name in enum.keys else "C14:opcode_by_attribute.%s.%s" % (setname, name),
                         "%s.%s answers %r, T10 assigns %02Xh to that name%s" % (setname, name, val, ref, "" if name in enum.keys else " (the table does not list the name)"),
                         {"table": setname, "name": name, "value": val if isinstance(val, int) else repr(val), "reference": ref})
            elif isinstance(val, int) and O.group_length(val) is not None:
                try:
                    if len(SCSICommand.init_cdb(oc)) != O.group_length(val):
                        ctx.fail("C14:cdblen.by_name.%s" % name, "%s.%s: CDB length %d" % (setname, name, len(SCSICommand.init_cdb(oc))), {"table": setname, "name": name})
                except Exception as e:  # noqa: BLE001
                    ctx.fail("C14:cdblen.by_name.%s" % name, "%s.%s: init_cdb raised %s" % (setname, name, type(e).__name__), {"table": setname, "name": name}, exc=e)
        all_sa = dict(O.GENERIC_SA)
        for key in enum.keys:
            sa = getattr(enum, key).serviceaction
            refs = O.SA.get(key) if key in O.SA else (all_sa if key not in ("MAINTENANCE_IN", "MAINTENANCE_OUT") else all_sa)
            for sk, sref in refs.items():
                try:
                    val = getattr(sa, sk)
                except AttributeError:
                    continue
                if sk not in sa.keys and val != sref:
                    ctx.fail("C14:sa_by_attribute.%s.%s.%s" % (setname, key, sk), "%s.%s.serviceaction.%s answers %r although not listed; T10 assigns %02Xh" % (setname, key, sk, val, sref),
                             {"table": setname, "name": key, "sa": sk})

    # a copy of a table entry (copy.copy / copy.deepcopy, e.g. of a command holding it) is the same operation code
    import copy as _copy

    for setname in O.SETS:
        enum = getattr(E, setname)
        for key in enum.keys:
            oc = getattr(enum, key)
            for how, fn in (("copy", _copy.copy), ("deepcopy", _copy.deepcopy)):
                try:
                    dup = fn(oc)
                except Exception as e:  # noqa: BLE001
                    ctx.fail("C14:%s_of_opcode_raises.%s" % (how, type(e).__name__), "%s(%s.%s) raised %s" % (how, setname, key, e), {"table": setname, "name": key}, exc=e)
                    continue
                ctx.count("opcode_copies_checked")
                sa1 = sorted((k, getattr(oc.serviceaction, k)) for k in oc.serviceaction.keys)
                sa2 = sorted((k, getattr(dup.serviceaction, k)) for k in dup.serviceaction.keys)
                if dup.value != oc.value or dup.name != oc.name or sa1 != sa2:
                    ctx.fail("C14:%s_of_opcode_differs" % how, "%s(%s.%s) is %r/%02Xh with service actions %r; the entry is %r/%02Xh %r"
                             % (how, setname, key, dup.name, dup.value, sa2[:3], oc.name, oc.value, sa1[:3]), {"table": setname, "name": key, "copy_value": dup.value, "value": oc.value})
                elif O.group_length(oc.value) is not None and len(SCSICommand.init_cdb(dup)) != O.group_length(oc.value):
                    ctx.fail("C14:cdblen.%s_of_opcode" % how, "init_cdb(%s(%s.%s)) gives %d bytes" % (how, setname, key, len(SCSICommand.init_cdb(dup))), {"table": setname, "name": key})

    # reverse lookups (value -> name) on every enumeration, interleaved across tables: the name answered carries that value
    for rnd in range(2):
        for setname in (O.SETS if rnd == 0 else list(reversed(O.SETS))):
            enum = getattr(E, setname)
            for key in enum.keys:
                oc = getattr(enum, key)
                back = enum[oc]
                ctx.count("reverse_lookups_checked")
                if back == "" or getattr(enum, back, None) is None or getattr(enum, back).value != oc.value:
                    ctx.fail("C14:reverse_lookup.%s" % setname, "%s[%s.%s] answers %r" % (setname, setname, key, back), {"table": setname, "name": key, "answer": back})
                sa = oc.serviceaction
                for sk in sa.keys:
                    val = getattr(sa, sk)
                    back = sa[val]
                    ctx.count("reverse_lookups_checked")
                    if back == "" or getattr(sa, back, None) != val:
                        ctx.fail("C14:reverse_lookup.service_action", "%s.%s.serviceaction[%r] answers %r, which does not carry that value (asked for %s)" % (setname, key, val, back, sk),
                                 {"table": setname, "name": key, "sa": sk, "answer": back})
            for name in E.SCSI_STATUS.keys:
                val = getattr(E.SCSI_STATUS, name)
                if E.SCSI_STATUS[val] != name:
                    ctx.fail("C14:status_reverse.%s" % name, "SCSI_STATUS[%02Xh] is %r after other enumerations were asked" % (val, E.SCSI_STATUS[val]), {"name": name})

    # a vendor quirk applied to one table's entry (its value set through the public property, a service action added) stays in that
    # table: the same name in the other four tables keeps its T10 value.  Everything is restored afterwards.
    for setname in O.SETS:
        enum = getattr(E, setname)
        for key in enum.keys:
            oc = getattr(enum, key)
            others = [(o, getattr(getattr(E, o), key)) for o in O.SETS if o != setname and key in getattr(E, o).keys]
            if not others:
                continue
            before = [(o, x.value, sorted(x.serviceaction.keys)) for o, x in others]
            old_value = oc.value
            added = False
            try:
                oc.value = (old_value ^ 0x5A) & 0xFF
                try:
                    oc.serviceaction.add("VMON_QUIRK", 0x1F)
                    added = True
                except Exception:  # noqa: BLE001
                    pass
                after = [(o, x.value, sorted(x.serviceaction.keys)) for o, x in others]
                ctx.count("table_entry_isolation_checks")
                if after != before:
                    o_bad = next(o for (o, *_a), (_o2, *_b) in zip(after, before) if _a != _b)
                    ctx.fail("C14:table_entries_shared", "changing %s.%s (value / service actions) changed %s.%s as well" % (setname, key, o_bad, key), {"table": setname, "name": key, "other": o_bad})
            finally:
                oc.value = old_value
                if added:
                    try:
                        oc.serviceaction.remove("VMON_QUIRK")
                    except Exception:  # noqa: BLE001
                        pass

    # every facade method on every table, also the tables that do not list the command: either nothing is sent, or what is sent
    # carries the T10 operation code (and service action) of that command
    from vmon import harness
    from vmon.props.c13 import required_args
    from vmon.spec import cdb as S, dataout as DO
    import random as _random

    frng = _random.Random("c14facade:%s" % phase)
    for setname in O.SETS:
        for c in S.COMMANDS.values():
            if not c.facade:
                continue
            dev = harness.Recorder(getattr(E, setname))
            s = harness.make_facade(dev, 512)
            a = dict(required_args(c, frng))
            try:
                harness.facade_call(c, s, DO.fresh(a) if c.custom else dict(a))
            except Exception:  # noqa: BLE001
                pass
            ctx.count("facade_methods_on_tables")
            for sent, *_r in dev.calls:
                want_sa = c.sa[1] if c.sa else None
                got_sa = sent.cdb[1] & 0x1F if c.sa else None
                if sent.cdb[0] != c.op or got_sa != want_sa:
                    ctx.fail("C14:facade_sends_other_code.%s.%s" % (setname, c.facade), "%s on the %s table sent operation code %02Xh%s, T10 assigns %02Xh%s to that command"
                             % (c.facade, setname, sent.cdb[0], "" if got_sa is None else "/%02Xh" % got_sa, c.op, "" if want_sa is None else "/%02Xh" % want_sa),
                             {"table": setname, "method": c.facade, "listed": setname in c.sets})

    # names: OpCode.name vs key (observation only)
    for setname in O.SETS:
        enum = getattr(E, setname)
        for key in enum.keys:
            if getattr(enum, key).name != key:
                ctx.add("observation_opcode_name_differs_from_key", "%s.%s name=%s" % (setname, key, getattr(enum, key).name))


def finalize(merged, tier):
    from vmon.spec import opcodes as O

    c = merged["counters"]
    extra = {
        "exhaustive": True,
        "referenced_over_total": "%d/%d" % (c.get("opcode_entries_referenced", 0), c.get("opcode_entries", 0)),
        "reference_gaps": O.REFERENCE_GAPS,
    }
    if c.get("opcode_entries", 0) < 200 or c.get("opcode_values_checked", 0) not in (256, 512):  # once, or also under -O
        merged["inconclusive"].append("enumeration walk incomplete: %r" % c)
    if c.get("device_side_tables_walked", 0) < 56:
        merged["inconclusive"].append("device-side command sets walked: %d" % c.get("device_side_tables_walked", 0))
    for k in ("exercise_attaches_ok", "exercise_constructions_ok", "exercise_facade_calls_ok"):
        if c.get(k, 0) < 20:
            merged["inconclusive"].append("usage phase did not really use the library: %s=%d" % (k, c.get(k, 0)))
    return extra


def replay(rec, ctx):
    run({"id": "all"}, ctx)
