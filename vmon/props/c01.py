"""C01 - every CDB the library builds has the standard's wire format."""
import copy

PYOPT = 2  # every second shard also runs in an interpreter started with -O
LEVEL = "exploration"
RULE = (
    "for each of the 42 command classes x each opcode table that offers it: every int argument through its boundary set "
    "(0,1,max,msb,every single-bit value, every all-ones-minus-one-bit) while the other arguments sit at 0 / all-ones / random; "
    "the full 0/1 product of the flag arguments; N seeded random joint tuples; data-out commands take generated parameter "
    "dictionaries.  Each tuple is built through the constructor and (quick: sampled, thorough: all) through the facade over a "
    "recording device, fake sgio and fake iscsi.  distinct = hash(command, table, path, tuple); non-trivial = at least one "
    "argument other than block size/data is non-zero"
)
ASSUMPTIONS = [
    "vmon/spec/cdb.py transcribes the T10 CDB layouts correctly (Appendix A of DESIGN.md)",
    "arguments whose buffers would exceed 64 KiB (16 MiB for the few large cases) are clipped: high bits of 24/32-bit "
    "allocation/transfer lengths are exercised through marshall_cdb in C02 instead",
]


def shards(tier, seed):
    from vmon.spec import cdb as S

    out = []
    for name in S.COMMANDS:
        out.append({"id": name, "cmd": name, "nrand": 150 if tier == "quick" else 8000, "small": tier == "quick"})
    for name in S.COMMANDS:
        # the same in a process where a command without a class of its own was sent through the bare base class first
        out.append({"id": name + ".base-first", "cmd": name, "nrand": 20 if tier == "quick" else 500, "small": True, "base_first": True})
    return out


def build_case(c, a, rng):
    """for custom data-out commands `a` is produced by the dataout generators"""
    return a


def gen_cases(c, rng, shard):
    from vmon import harness
    from vmon.spec import dataout as DO

    if c.custom:
        n = shard["nrand"]
        for i in range(n):
            a, _exp = DO.GEN[c.custom](rng)
            yield "custom", a
        return
    for a in harness.walking_cases(c, rng, small=False):
        yield "walk", a
    for i, a in enumerate(harness.flag_cases(c, rng)):
        yield "flags", a
        if i % 3 == 0:
            yield "typed", harness.typed_variant(c, a)
    for a in harness.small_domain_cases(c, rng):
        yield "small_domain", a
    for seq in harness.hash_collision_cases(c, rng):
        for a in seq:
            yield "congruent", a
    if not c.custom:
        for a in harness.novel_products(c, rng):
            yield "source_literals", a
        # short allocation lengths (0..40: inside, at and between the fields of every fixed header) with every value of each
        # small field (a data type, a format selector) - the other arguments drawn
        alloc_names = [k for k, spec in c.args.items() if spec[0] == "alloc"]
        small_names = [k for k, spec in c.args.items() if spec[0] == "u" and 1 < spec[1] <= 4]
        for an in alloc_names:
            for n_ in range(0, 41):
                for sn in small_names or [None]:
                    for v in (range(1 << c.args[sn][1]) if sn else [None]):
                        a = harness.random_args(c, rng, cap=2048)
                        a[an] = n_
                        if sn:
                            a[sn] = v
                        yield "short_allocation_lengths", a
    for i in range(shard["nrand"]):
        a = harness.random_args(c, rng)
        yield "rand", a
        if i % 10 == 0:
            yield "typed", harness.typed_variant(c, a)
    if c.xfer in ("alloc", "read", "write", "allocarg"):
        for a in harness.huge_cases(c, rng):
            yield "huge", a
    if c.xfer in ("alloc", "allocarg") and not c.custom:
        # an allocation length for which the process has no memory (a 32-bit length in a small container): either the request is
        # refused with MemoryError or the CDB says what was asked -- really allocated, not through the length-only stand-in
        for k, spec in c.args.items():
            if spec[0] == "alloc" and spec[1] >= 32:
                a = harness.random_args(c, rng, cap=2048)
                a[k] = rng.choice([0xFFFFFFF0, 0xC0000000, 0xFFFFFFFF])
                yield "unallocatable", a
    bname = next((k for k, spec in c.args.items() if spec[0] == "blockdata"), None)
    if bname:
        # WRITE SAME prepared without its block (attached later with cmd.dataout = ...): the flags in the CDB are the caller's
        for i in range(6 if shard["small"] else 24):
            a = harness.random_args(c, rng)
            a[bname] = None
            if "ndob" in a:
                a["ndob"] = i % 2
            yield "block_attached_later", a
    wname = next((k for k, spec in c.args.items() if spec[0] == "wdata"), None)
    if wname:
        # TRANSFER LENGTH is the caller's, whatever the size of the buffer he hands over: zero blocks with a (pool) buffer of some
        # blocks, n blocks with a larger buffer
        for i in range(12 if shard["small"] else 60):
            a = harness.random_args(c, rng)
            bs = a.get("blocksize") or 512
            a["tl"] = 0 if i % 2 == 0 else rng.choice([1, 2, 7, 8])
            a[wname] = harness.pattern_bytes((a["tl"] + rng.choice([1, 1, 2, 8, 16])) * bs + rng.choice([0, 0, 1, bs // 2]), i)
            yield "buffer_larger_than_transfer", a
    if c.xfer in ("alloc", "read", "allocarg") and not shard["small"]:
        from vmon.spec import cdb as S

        for _ in range(3):
            yield "big", harness.random_args(c, rng, cap=S.BIGCAP)


def observe(ctx, c, setname, path, a, cdb, expect_op):
    from vmon import harness

    for mech, msg in harness.check_cdb(c, cdb, a, expect_op):
        ctx.fail("C01:%s.%s%s" % (c.name, mech, "" if path == "ctor" else "@" + path),
                 "%s on %s via %s: %s" % (c.name, setname, path, msg),
                 {"cmd": c.name, "table": setname, "path": path, "args": a, "cdb": bytes(cdb) if not isinstance(cdb, (type(None),)) else None})


TICK = [0]
CAPTURED = []  # keyword values of the most recent SCSICommand.build_cdb call (hook installed by run())


HELD_CDBS = []
GHOST_RNG = __import__("random").Random("c01ghosts")


def run_one(ctx, c, setname, kind, a, do_facade, transports):
    from vmon import harness
    from vmon.spec import dataout as DO

    del CAPTURED[:]
    rep = (c.name, setname, harness.args_repr(a) if not c.custom else repr(a))
    nontriv = harness.nontrivial_args(a) or bool(c.custom)
    full = dict(harness.defaults(c))
    full.update(a)
    for k, v in list(full.items()):
        if v is None and c.args.get(k, (None,))[0] != "extra_tl":
            full[k] = 0
    ctx.add("kinds", kind)
    for k, v in a.items():
        if isinstance(v, int) and k in c.args and c.args[k][0] in ("u", "alloc", "tl", "cdtl"):
            w = c.args[k][1]
            cls = "zero" if v == 0 else "ones" if v == (1 << w) - 1 else "onebit" if v & (v - 1) == 0 else "other"
            ctx.add("field_classes", "%s.%s:%s" % (c.name, k, cls))
    if kind == "huge":
        with harness.huge_buffers():
            run_one(ctx, c, setname, "huge*", a, do_facade, transports)
        return
    # -- constructor
    try:
        cmd = harness.construct(c, setname, DO.fresh(a) if c.custom else a)
    except MemoryError:
        if kind == "unallocatable":
            ctx.count("unallocatable_requests_refused")
            ctx.case(("ctor",) + rep, True)
            return
        raise
    except Exception as e:  # noqa: BLE001
        ctx.case(("ctor",) + rep, nontriv)
        ctx.fail("C01:%s.constructor_raises.%s" % (c.name, type(e).__name__),
                 "%s(%s) on %s raised %s: %s" % (c.name, kind, setname, type(e).__name__, e),
                 {"cmd": c.name, "table": setname, "args": a}, exc=e)
        return
    ctx.case(("ctor",) + rep, nontriv,
             sample={"cmd": c.name, "table": setname, "args": a, "cdb": bytes(cmd.cdb)} if ctx.want_sample() else None)
    ctx.add("tables_reached", "%s@%s" % (c.name, setname))
    if c.custom:
        full["_outlen"] = len(cmd.dataout)
    observe(ctx, c, setname, "ctor", full, cmd.cdb, c.op)
    ctx.count("cdbs_checked")
    # CDBs of commands that no longer exist (a trace list, a transport queue holds the bytes; the command object was dropped):
    # they keep the values they were built with while further commands are built
    for held, was, who in HELD_CDBS:
        if bytes(held) != was:
            ctx.fail("C01:%s.held_cdb_changed_after_its_command_was_dropped" % who, "the CDB of a dropped %s command changed while other commands were built: %s, was %s" % (who, bytes(held).hex(), was.hex()),
                     {"cmd": who, "then_built": c.name})
            del HELD_CDBS[:]
            break
    ctx.count("held_cdbs_rechecked", len(HELD_CDBS))
    if kind != "huge*" and TICK[0] % 3 == 0:
        try:
            # (other values than this case's: a buffer that is handed to the next command would otherwise be refilled with the
            # very same bytes)
            ga = DO.GEN[c.custom](GHOST_RNG)[0] if c.custom else harness.random_args(c, GHOST_RNG, cap=2048)
            ghost = harness.construct(c, setname, ga)
            HELD_CDBS.append((ghost.cdb, bytes(ghost.cdb), c.name))
            del ghost
            if len(HELD_CDBS) > 12:
                HELD_CDBS.pop(0)
        except Exception:  # noqa: BLE001
            pass
    # other public ways to the same bytes: decode + encode again (how a caller patches one field of an existing command), and the
    # command after its debug print helper ran
    if kind != "huge*":
        try:
            again = type(cmd).marshall_cdb(type(cmd).unmarshall_cdb(cmd.cdb))
            observe(ctx, c, setname, "reencoded", full, again, c.op)
            ctx.count("reencoded_cdbs_checked")
        except Exception as e:  # noqa: BLE001
            ctx.fail("C01:%s.reencode_raises.%s" % (c.name, type(e).__name__), "marshall_cdb(unmarshall_cdb(cdb)) raised %s" % e, {"cmd": c.name, "args": a}, exc=e)
        TICK[0] += 1
        if TICK[0] % 4 == 0:
            # arguments given by position, in the documented order
            try:
                pos = harness.construct_positional(c, setname, DO.fresh(a) if c.custom else a)
                observe(ctx, c, setname, "positional", full, pos.cdb, c.op)
                ctx.count("positional_constructions_checked")
                if do_facade and c.facade:
                    import pyscsi.pyscsi.scsi_enum_command as E

                    dev = harness.Recorder(getattr(E, setname))
                    try:
                        harness.facade_call_positional(c, harness.make_facade(dev), DO.fresh(a) if c.custom else dict(a))
                    except Exception:  # noqa: BLE001
                        if not dev.calls:
                            raise  # refused before sending; what decoding an empty reply raises afterwards is not C01's business
                    for cmd2, _raw, _i, _o in dev.calls[:1]:
                        observe(ctx, c, setname, "facade_positional", full, cmd2.cdb, c.op)
                        ctx.count("positional_facade_calls_checked")
            except Exception as e:  # noqa: BLE001
                ctx.fail("C01:%s.positional_call_raises.%s" % (c.name, type(e).__name__), "%s with its arguments given by position raised %s: %s" % (c.name, type(e).__name__, e),
                         {"cmd": c.name, "table": setname, "args": a}, exc=e)
        if TICK[0] % 6 == 1:
            # a deep copy of the command is a command of its own: editing the copy's CDB in place leaves this one alone
            import copy as _copy

            try:
                dup = _copy.deepcopy(cmd)
                for i in range(1, len(dup.cdb)):
                    dup.cdb[i] ^= 0xFF
                observe(ctx, c, setname, "after_deepcopy_edited", full, cmd.cdb, c.op)
                ctx.count("cdbs_checked_after_copy_edit")
            except Exception as e:  # noqa: BLE001
                ctx.fail("C01:%s.deepcopy_raises.%s" % (c.name, type(e).__name__), "copy.deepcopy(cmd) raised %s" % e, {"cmd": c.name, "args": a}, exc=e)
        if TICK[0] % 6 == 2:
            # a shallow copy that is given a CDB of its own (a template command copied per extent, `c.cdb = c.build_cdb(...)` or any
            # other bytearray assigned): the template keeps the CDB it was built with
            import copy as _copy

            try:
                twin = _copy.copy(cmd)
                twin.cdb = bytearray(b ^ 0xFF for b in cmd.cdb)
                twin.cdb = bytearray(len(cmd.cdb))
                observe(ctx, c, setname, "after_shallow_copy_reassigned", full, cmd.cdb, c.op)
                ctx.count("cdbs_checked_after_shallow_copy")
            except Exception as e:  # noqa: BLE001
                ctx.fail("C01:%s.copy_raises.%s" % (c.name, type(e).__name__), "copy.copy(cmd) / assigning its cdb raised %s" % e, {"cmd": c.name, "args": a}, exc=e)
        if hasattr(cmd, "print_cdb") and TICK[0] % 5 == 0:
            import contextlib
            import io

            try:
                with contextlib.redirect_stdout(io.StringIO()):
                    cmd.print_cdb()
                observe(ctx, c, setname, "after_print_cdb", full, cmd.cdb, c.op)
                ctx.count("cdbs_checked_after_print_cdb")
            except Exception as e:  # noqa: BLE001
                ctx.fail("C01:%s.print_cdb_raises.%s" % (c.name, type(e).__name__), "cmd.print_cdb() raised %s" % e, {"cmd": c.name, "args": a}, exc=e)
    # the CDB rebuilt on the same object from the same field values (a polling loop re-issuing the command)
    if CAPTURED and kind != "huge*":
        try:
            cmd.cdb = cmd.build_cdb(**CAPTURED[-1])
            observe(ctx, c, setname, "rebuilt", full, cmd.cdb, c.op)
            cmd.cdb = cmd.build_cdb(**CAPTURED[-1])
            observe(ctx, c, setname, "rebuilt", full, cmd.cdb, c.op)
            ctx.count("rebuilt_cdbs_checked")
        except Exception as e:  # noqa: BLE001
            ctx.fail("C01:%s.rebuild_raises.%s" % (c.name, type(e).__name__), "cmd.build_cdb(same fields) raised %s" % e, {"cmd": c.name, "args": a}, exc=e)
    # -- facade over a recording device
    if do_facade and c.facade:
        import pyscsi.pyscsi.scsi_enum_command as E

        dev = harness.Recorder(getattr(E, setname))
        s = harness.make_facade(dev)
        try:
            harness.facade_call(c, s, DO.fresh(a) if c.custom else dict(a))
        except Exception as e:  # noqa: BLE001
            if not dev.calls:
                ctx.fail("C01:%s.facade_raises.%s" % (c.name, type(e).__name__),
                         "facade %s on %s raised %s before sending: %s" % (c.facade, setname, type(e).__name__, e),
                         {"cmd": c.name, "table": setname, "args": a}, exc=e)
        ctx.case(("facade",) + rep, nontriv)
        for cmd2, _raw, _i, _o in dev.calls[:1]:
            if c.custom:
                full["_outlen"] = len(cmd2.dataout)
            observe(ctx, c, setname, "facade", full, cmd2.cdb, c.op)
            ctx.count("cdbs_checked")
            ctx.count("facade_cdbs_checked")
    # -- the facade attached for real (SCSI(dev)) to a device whose standard INQUIRY data is anything a device of that type may
    #    report (VERSION 00h..07h, every capability bit, 36..96 bytes): what the device says about itself does not change the CDB
    if do_facade and c.facade and TICK[0] % 8 == 3 and kind != "huge*":
        import random as _random

        import pyscsi.pyscsi.scsi_enum_command as E
        from pyscsi.pyscsi.scsi import SCSI

        from vmon.spec import datain as D

        f = D.FORMATS["inquiry.standard"]
        irng = _random.Random("c01inq:%d" % TICK[0])
        v = f.gen(irng)
        v["peripheral_device_type"], v["peripheral_qualifier"] = {"sbc": 0x00, "mmc": 0x05, "ssc": 0x01, "smc": 0x08, "spc": 0x03}.get(setname, 0), 0
        v["version"] = irng.randrange(8)
        std = f.encode(v)

        def fill(cmd_, std=std):
            if cmd_.cdb[0] == 0x12 and not cmd_.cdb[1] & 1 and len(cmd_.datain) >= 5 and not fill.done:
                k = min(len(std), len(cmd_.datain))
                cmd_.datain[:k] = std[:k]
                fill.done = True

        fill.done = False
        dev = harness.Recorder(E.spc, fill)
        try:
            s_att = SCSI(dev, 0)
            dev.opcodes = getattr(E, setname)
            del dev.calls[:]
            try:
                harness.facade_call(c, s_att, DO.fresh(a) if c.custom else dict(a))
            except Exception:  # noqa: BLE001
                pass
            for cmd2, _raw, _i, _o in dev.calls[:1]:
                if c.custom:
                    full["_outlen"] = len(cmd2.dataout)
                observe(ctx, c, setname, "attached_facade", full, cmd2.cdb, c.op)
                ctx.count("attached_facade_cdbs_checked")
        except Exception as e:  # noqa: BLE001
            ctx.fail("C01:attach_raises.%s" % type(e).__name__, "SCSI(dev) raised %s" % e, {"inquiry": std}, exc=e)
    # -- the cdb as received by the bindings
    for tname, mk in transports:
        dev, log = mk(setname)
        s = harness.make_facade(dev)
        cmd_t = None
        try:
            cmd_t = harness.facade_call(c, s, DO.fresh(a) if c.custom else dict(a))
        except Exception:  # noqa: BLE001
            pass
        ctx.case((tname,) + rep, nontriv)
        for ev in log[:1]:
            if c.custom:
                full["_outlen"] = ev["out_len"]
            observe(ctx, c, setname, tname, full, ev["cdb"], c.op)
            ctx.count("cdbs_checked")
            ctx.count("%s_cdbs_checked" % tname)
        # the same command object sent again after its CDB was edited in place (the next LBA, another page): what reaches the
        # binding is the CDB the object holds now
        if cmd_t is not None and log and len(cmd_t.cdb) > 2 and kind != "huge*":
            try:
                del log[:]
                cmd_t.cdb[len(cmd_t.cdb) - 2] ^= 0x01
                dev.execute(cmd_t)
                ctx.count("resends_after_in_place_edit")
                if log and bytes(log[0]["cdb"]) != bytes(cmd_t.cdb):
                    ctx.fail("C01:%s.resent_cdb_is_stale@%s" % (c.name, tname), "the command object was edited in place and sent again over %s: the binding received %s, the object holds %s"
                             % (tname, bytes(log[0]["cdb"]).hex(), bytes(cmd_t.cdb).hex()), {"cmd": c.name, "table": setname, "args": a, "transport": tname})
            except Exception:  # noqa: BLE001
                pass


def run(shard, ctx):
    from vmon import selfcheck
    from vmon.sim import install

    install.install_fakes()
    from vmon import harness
    from vmon.spec import cdb as S

    c = S.COMMANDS[shard["cmd"]]
    if shard["cmd"] == "TestUnitReady" and selfcheck.run_all():
        ctx.inconclusive_because("reference self-check failed")
        return
    rng = ctx.rng()
    transports = install.transport_factories()
    from pyscsi.pyscsi.scsi_command import SCSICommand

    if shard.get("base_first"):
        from pyscsi.pyscsi.scsi_opcode import OpCode

        try:
            generic = SCSICommand(OpCode("START_STOP_UNIT", 0x1B, {}), 0, 0)
            generic.cdb = generic.build_cdb(opcode=0x1B)
            SCSICommand.marshall_cdb({"opcode": 0x35})
            SCSICommand.unmarshall_cdb(bytes(10))
        except Exception:  # noqa: BLE001
            pass
        ctx.count("base_class_used_first")

    orig_build = SCSICommand.build_cdb

    def capturing_build(self, **kw):
        if not CAPTURED:
            CAPTURED.append(dict(kw))
        return orig_build(self, **kw)

    SCSICommand.build_cdb = capturing_build
    n = 0
    others = [x for x in S.COMMANDS.values() if x.name != c.name]
    for setname in c.sets:
        for kind, a in gen_cases(c, rng, shard):
            n += 1
            if n % 5 == 0:
                # some other command is built in between: what this command encodes must not depend on it
                o = rng.choice(others)
                try:
                    from vmon.spec import dataout as DO

                    harness_construct_other(o, rng, DO)
                    ctx.count("other_commands_built_in_between")
                except Exception:  # noqa: BLE001
                    pass
            if n % 400 == 1:
                # calls *outside* the quantifier (values wider than their field) happen in between, in every class that has
                # a field narrower than its bytes: later in-range commands must not be affected by them
                for o in S.COMMANDS.values():
                    if o.custom:
                        continue
                    for k_bad, v in o.args.items():
                        if v[0] != "u" or not v[1] % 8:
                            continue
                        nb = (v[1] + 7) // 8
                        for val in ((1 << (8 * nb)) - 1, (1 << (8 * nb - 1)) - 1, 1 << (8 * nb - 1), 0xFF, 0x7F, 0x80, 0x3F, 0x1F):
                            a_bad = harness.base_args(o, "zero", rng)
                            a_bad[k_bad] = val
                            a_bad = harness.fill_derived(o, a_bad, rng)
                            try:
                                harness.construct(o, o.sets[0], a_bad)
                                ctx.count("out_of_range_calls_in_between")
                            except Exception:  # noqa: BLE001
                                ctx.count("out_of_range_calls_refused")
            do_tr = transports if (not shard["small"] or n % 7 == 0) else []
            run_one(ctx, c, setname, kind, a, True, do_tr)


def harness_construct_other(o, rng, DO):
    from vmon import harness

    a = DO.GEN[o.custom](rng)[0] if o.custom else harness.random_args(o, rng, cap=2048)
    cmd = harness.construct(o, o.sets[0], a)
    type(cmd).unmarshall_cdb(cmd.cdb)


def finalize(merged, tier):
    from vmon.spec import cdb as S

    want = sum(len(c.sets) for c in S.COMMANDS.values())
    got = len(merged["sets"].get("tables_reached", ()))
    c = merged["counters"]
    extra = {"commands_x_tables_reached": "%d/%d" % (got, want)}
    if c.get("cdbs_checked", 0) == 0:
        merged["inconclusive"].append("no CDB was observed")
    if c.get("sgio_cdbs_checked", 0) == 0 or c.get("iscsi_cdbs_checked", 0) == 0:
        merged["inconclusive"].append("binding stand-ins never received a CDB")
    return extra


def replay(rec, ctx):
    from vmon.sim import install

    install.install_fakes()
    from vmon.spec import cdb as S

    w = rec["witness"]
    c = S.COMMANDS[w["cmd"]]
    a = decode_args(w["args"])
    run_one(ctx, c, w["table"], "replay", a, True, install.transport_factories())


def decode_args(a):
    def dec(v):
        if isinstance(v, str) and v.startswith("hex:"):
            h = v[4:]
            if ".." in h:
                h, rest = h.split("..", 1)
                n = int(rest.strip("()").split()[0])
                b = bytearray.fromhex(h)
                return bytearray((bytes(b) * (n // max(1, len(b)) + 1))[:n])
            return bytearray.fromhex(h)
        if isinstance(v, dict):
            return {k: dec(x) for k, x in v.items()}
        if isinstance(v, list):
            return [dec(x) for x in v]
        return v

    return dec(copy.deepcopy(a))
