"""C15 - commands never go through a stale device handle; handles are released.

Event-sequence enumeration over real node files (tmpfs) with invariants
evaluated inside the fake sgio.execute (the moment the command would hit the
kernel) and at quiescent points after every event (/proc/self/fd)."""
import itertools
import os

PYOPT = 2  # every second shard also runs in an interpreter started with -O
LEVEL = "fault_enumeration"
RULE = (
    "all sequences over {E exec, F exec->CHECK CONDITION, e/f the same with en_raw_sense=True, R replug (node replaced: new inode), U unplug, X replug whose "
    "stale-handle close() fails, O replug whose re-open fails once} up to length 4 (quick) / 5 (thorough), each followed by one of {nothing, close(), with-exit, "
    "with-exit-by-exception, facade with-exit}, x detection {on,off} x {read-only, read-write}; plus ISCSIDevice close/with "
    "sequences.  Invariants at the binding: handle open, inode of the handle == inode at the path (detection on), original "
    "handle kept (detection off), sgio.execute never reached for a vanished node (detection on); at quiescent points exactly "
    "one descriptor on the node while open and none after close; underlying close() ran exactly once per handle.  distinct = "
    "hash(config, sequence); non-trivial = >=1 replug/unplug/close-failure followed by an exec"
)
ASSUMPTIONS = [
    "replug = create + rename over the path (new inode while the old handle is open); unplug = unlink",
    "replacement of the node between the library's own check and the ioctl (TOCTOU inside one execute) is outside the quantifier",
    "when closing the stale handle fails the error may or may not propagate; demanded: no command through the stale handle, the "
    "next command uses a fresh handle, the stale descriptor is not leaked",
]

NONTERM = "EFefRUXO"  # e/f: the same commands executed with en_raw_sense=True (the ATA pass-through convention)
TERM = ["", "C", "W", "Y", "S"]


def shards(tier, seed):
    L = 4 if tier == "quick" else 5
    out = []
    for detect in (True, False):
        for rw in (False, True):
            for link in (False, True, "chardev"):
                if tier == "quick":
                    out.append({"id": "d%d-rw%d-l%s" % (detect, rw, {False: 0, True: 1}.get(link, link)), "detect": detect, "rw": rw, "link": link, "L": L, "first": None})
                else:
                    for f in NONTERM:
                        out.append({"id": "d%d-rw%d-l%s-%s" % (detect, rw, {False: 0, True: 1}.get(link, link), f), "detect": detect, "rw": rw, "link": link, "L": L, "first": f})
        out.append({"id": "facade-d%d" % detect, "facade": True, "detect": detect, "L": 4 if tier == "quick" else 6})
    # the same with commands that have a data-out or a data-in phase instead of TEST UNIT READY
    for rw in (False, True):
        for ck in ("write", "mixed"):
            if tier == "quick":
                out.append({"id": "d1-rw%d-l0-%s" % (rw, ck), "detect": True, "rw": rw, "link": False, "L": L, "first": None, "cmd": ck})
            else:
                for f in NONTERM:
                    out.append({"id": "d1-rw%d-l0-%s-%s" % (rw, ck, f), "detect": True, "rw": rw, "link": False, "L": L, "first": f, "cmd": ck})
    # long quiet stretches (hundreds to thousands of commands on one device object) before the node is replaced or goes away
    out.append({"id": "long-quiet", "long_quiet": True, "reps": 1 if tier == "quick" else 6})
    # the caller's own close() ... open(), and earlier nodes that return to the path (renamed aside and back, a link that flips
    # between two live nodes)
    out.append({"id": "reopen-flipback", "reopen": True, "L": 6 if tier == "quick" else 8})
    # a process without standard input (a daemon, a cron job): the device node is then opened on descriptor 0
    out.append({"id": "d1-rw0-l0-no-stdin", "detect": True, "rw": False, "link": False, "L": 3 if tier == "quick" else 4, "first": None, "no_stdin": True})
    out.append({"id": "iscsi", "iscsi": True})
    out.append({"id": "two-users", "two_users": True})
    out.append({"id": "forked", "forked": True})
    return out


CONDITIONS = [(0x70, 6, 0x29, 0x00), (0x70, 6, 0x3F, 0x03), (0x72, 6, 0x3F, 0x05), (0x70, 6, 0x3F, 0x0E), (0x72, 6, 0x28, 0x00), (0x70, 2, 0x04, 0x01), (0x70, 2, 0x3A, 0x00),
              (0x72, 6, 0x3F, 0x03), (0x70, 5, 0x24, 0x00), (0x70, 5, 0x25, 0x00), (0x72, 4, 0x44, 0x00), (0x70, 6, 0x3F, 0x05), (0x72, 0xB, 0x47, 0x03), (0x70, 3, 0x11, 0x00),
              (0x70, 6, 0x2A, 0x09), (0x72, 6, 0x29, 0x02)]


class FileProxy:
    """file object whose close() really closes and then fails when armed"""

    def __init__(self, f, world):
        self._f = f
        self._w = world
        self.close_calls = 0
        self.real_closes = 0
        world.handles.append(self)

    def close(self):
        self.close_calls += 1
        if not self._f.closed:
            self.real_closes += 1
        self._f.close()
        if self._w.fail_next_close:
            self._w.fail_next_close = False
            raise OSError(5, "injected: close() of the stale handle failed")

    def fileno(self):
        return self._f.fileno()

    @property
    def closed(self):
        return self._f.closed

    @property
    def name(self):
        return self._f.name

    def __getattr__(self, k):
        return getattr(self._f, k)


class World:
    def __init__(self):
        import sys

        from vmon.sim import install

        install.install_fakes()
        import pyscsi.pyscsi.scsi_device as sd

        self.sd = sd
        self.sg = sys.modules["sgio"]
        self.handles = []
        self.fail_next_close = False
        self.fail_next_open = False
        self.open_modes = []
        self.opened_paths = []
        w = self

        def vopen(path, mode="r", *a, **kw):
            w.open_modes.append(mode)
            w.opened_paths.append(path)
            if w.fail_next_open:
                w.fail_next_open = False
                raise OSError(13, "injected: re-open of the replaced node failed")
            return FileProxy(open(path, mode, *a, **kw), w)

        sd.open = vopen  # module global: intercepts exactly the device-node opens
        self.status = 0
        self.sense = None
        self.sg.handler = lambda ev: (self.status, self.sense)


def run_sequence(ctx, w, seq, term, detect, rw, link=False, facade=False, cmdkind="tur", replug_kind=None):
    import pyscsi.pyscsi.scsi_enum_command as E
    from pyscsi.pyscsi.scsi import SCSI
    from pyscsi.pyscsi.scsi_cdb_testunitready import TestUnitReady

    from vmon.sim import devnode
    from vmon.spec import sense as SN

    node = devnode.new_node(link=link, own_dir=len(seq) % 2 == 1)
    del w.handles[:]
    del w.open_modes[:]
    w.fail_next_close = False
    w.fail_next_open = False
    w.sg.log = []
    w.sg.pre_hooks = []
    cfg = "detect_%s" % ("on" if detect else "off")
    wit = {"sequence": (seq if len(seq) < 40 else "%s...(%d events)...%s" % (seq[:8], len(seq), seq[-12:])) + term, "detect": detect, "readwrite": rw, "node_is_symlink": link,
           "through_facade": facade, "commands": cmdkind}
    state = {"exists": True, "original": None, "pending_close_failure": False, "pending_open_failure": False, "handle_lost": False, "reached": 0}

    def fail(mech, msg):
        ctx.fail("C15:%s.%s" % (cfg, mech), "%s after events %r" % (msg, wit["sequence"][: state.get("pos", 0) + 1]), wit)

    def at_binding(ev):
        state["reached"] += 1
        f = ev["file"]
        if ev["file_closed"]:
            fail("command_through_closed_handle", "sgio.execute received a closed file")
            return
        if detect:
            if not state["exists"]:
                fail("command_sent_to_vanished_node", "sgio.execute reached although the node is gone")
                return
            cur = os.stat(node).st_ino
            if ev["ino"] != cur:
                fail("command_through_stale_handle", "handle inode %s, node inode %s" % (ev["ino"], cur))
        else:
            if f is not state["original"]:
                fail("handle_replaced_although_detection_off", "file object changed with detection disabled")

    w.sg.pre_hooks.append(at_binding)
    # the documented fourth argument (buffering, as for open()): unbuffered, default, line / block sizes
    buffering = (None, 0, -1, 4096, None, 0, 8192, None)[(len(seq) * 5 + seq.count("R") * 3 + seq.count("F")) % 8]
    wit["buffering"] = buffering
    try:
        dev = w.sd.SCSIDevice(node, rw, detect) if buffering is None else w.sd.SCSIDevice(node, rw, detect, buffering)
    except Exception as e:  # noqa: BLE001
        ctx.fail("C15:open_raises.%s" % type(e).__name__, "SCSIDevice(%s) raised %s" % (node, e), wit, exc=e)
        return False
    if (len(seq) + seq.count("U")) % 4 == 1:
        # a shallow copy of the device object (a second view with another command set) that is dropped again: the original's
        # handle is untouched
        import copy

        twin = copy.copy(dev)
        del twin  # (no cycle: it goes away at once)
        wit["shallow_copy_dropped"] = True
    state["original"] = dev._file
    # the device type an attach stored, any of them (tapes, changers, unknown ones): handles are handled alike for all
    dtype = (0x00, 0x01, 0x05, 0x08, 0x0E, 0x1F, None, 0x01, 0x02, 0x0D)[(len(seq) * 3 + seq.count("R") + (1 if rw else 0)) % 10]
    if dtype is not None:
        dev.devicetype = dtype
    wit["device_type_stored"] = dtype
    if w.open_modes[-1:] != ["w+b" if rw else "rb"]:
        fail("open_mode", "opened with mode %r" % w.open_modes[-1:])
    dev.opcodes = E.spc
    is_open = True
    fac = None
    if facade:
        if len(seq) % 2:
            # a first attach attempt whose probe is answered with CHECK CONDITION: it fails, and leaves the caller's device as
            # it was (open, usable)
            w.status, w.sense = 2, SN.build(0x70, 0, 6, 0x29, 0, 18)
            try:
                SCSI(dev)
                fail("failed_probe_not_reported", "SCSI(dev) returned normally although the probe was answered with CHECK CONDITION")
            except Exception:  # noqa: BLE001
                pass
            ctx.count("failed_attach_probes")
            if len(devnode.open_fds_on(node)) != 1 or dev._file.closed:
                fail("device_released_by_failed_attach", "after a failed SCSI(dev) the caller's device has %d descriptors on the node (closed=%s)" % (len(devnode.open_fds_on(node)), dev._file.closed))
                return False
        w.status, w.sense = 0, None
        try:
            fac = SCSI(dev)  # attach: one INQUIRY through the binding
        except Exception as e:  # noqa: BLE001
            fail("facade_attach_raises.%s" % type(e).__name__, "SCSI(dev) raised %r" % e)
            return False
        dev.opcodes = E.spc
    nontrivial = False
    disturbed = False

    def quiescent(where):
        if state.get("bare_open"):
            return
        n = len(devnode.open_fds_on(node))
        want = 1 if is_open else 0
        if state["handle_lost"] and is_open and n in (0, 1):
            return  # the injected open failure left the device without a handle until the next successful command
        if n != want:
            fail("descriptor_leak" if n > want else "descriptor_missing", "%d descriptors on the node %s, expected %d" % (n, where, want))

    quiescent("after open")
    for pos, evn in enumerate(seq):
        state["pos"] = pos
        if evn in "EFef":
            raw = evn in "ef"
            evn = evn.upper()
            if disturbed:
                nontrivial = True
            # (the conditions that tempt a transport to act on its own: unit attentions about resets, changed media, changed
            # inquiry data / identifiers / LUN inventory; not-ready and error conditions; both sense formats)
            cc = CONDITIONS[(len(seq) * 7 + pos * 3 + seq.count("F") + seq.count("f")) % len(CONDITIONS)]
            w.status, w.sense = (0, None) if evn in "Ee" else (2, SN.build(cc[0], 0, cc[1], cc[2], cc[3], 18 if cc[0] < 0x72 else 8))
            before = state["reached"]
            armed_close, armed_open = w.fail_next_close, w.fail_next_open
            ck = cmdkind if cmdkind != "mixed" else ("tur", "write", "read", "write")[(len(seq) * 3 + pos * 5 + seq.count("E")) % 4]
            if ck == "write":
                # a command with a data-out phase (WRITE(10) of one block) / a data-in phase (INQUIRY)
                from pyscsi.pyscsi.scsi_cdb_write10 import Write10

                cmd = Write10(E.sbc.WRITE_10, 512, 7 + pos, 1, bytearray(512))
                ctx.count("data_out_commands")
            elif ck == "read":
                from pyscsi.pyscsi.scsi_cdb_inquiry import Inquiry

                cmd = Inquiry(E.spc.INQUIRY, alloclen=96)
                ctx.count("data_in_commands")
            else:
                cmd = TestUnitReady(E.spc.TEST_UNIT_READY)
            try:
                if raw:
                    ctx.count("raw_sense_executes")
                    if fac is not None and pos % 2:
                        fac.execute(cmd, en_raw_sense=True)
                    else:
                        dev.execute(cmd, en_raw_sense=True)
                else:
                    dev.execute(cmd)
                outcome, exc = "returned", None
            except Exception as e:  # noqa: BLE001
                outcome, exc = "raised", e
            sent = state["reached"] - before
            # an injected failure counts for this command when the library consumed it now (it stays armed while the
            # library has no reason to close / re-open, e.g. because the node is gone)
            pend = armed_close and not w.fail_next_close
            opend = armed_open and not w.fail_next_open
            must_close = armed_close and detect and state["exists"]
            must_open = armed_open and detect and state["exists"]
            if opend:
                # the re-open failed: the error must surface, nothing may be sent; the next command recovers
                state["handle_lost"] = True
                if outcome == "returned" or sent:
                    fail("reopen_failure_hidden", "re-open of the replaced node failed but execute %s and sgio.execute was reached %d times" % (outcome, sent))
                continue_after = True
            else:
                continue_after = False
                if outcome == "returned" or (evn == "F" and sent == 1):
                    state["handle_lost"] = False
            if continue_after:
                pass
            elif detect and not state["exists"]:
                if outcome == "returned":
                    fail("vanished_node_not_reported", "execute returned normally although the node is gone")
            elif pend:
                # close of the stale handle failed: error may propagate (command then not sent) or not
                if outcome == "returned" and sent != 1:
                    fail("command_lost", "execute returned but sgio.execute was reached %d times" % sent)
            else:
                if sent != 1:
                    fail("command_not_sent_once", "sgio.execute reached %d times for one execute()" % sent)
                if evn == "E" and outcome != "returned":
                    fail("healthy_execute_raises.%s" % type(exc).__name__, "execute on a healthy node raised %r" % exc)
                if evn == "F" and raw:
                    # the caller asked for the sense data instead of the exception (either way is C07's business, not ours)
                    if exc is not None and not isinstance(exc, dev.CheckCondition):
                        fail("raw_sense_execute_raises.%s" % type(exc).__name__, "execute(en_raw_sense=True) raised %r" % exc)
                elif evn == "F" and not isinstance(exc, dev.CheckCondition):
                    fail("check_condition_not_raised", "CHECK CONDITION gave %s" % (type(exc).__name__ if exc else "no exception"))
            if must_close and w.fail_next_close:
                w.fail_next_close = False
                fail("stale_handle_not_closed", "the node was replaced but closing the stale handle was never attempted")
            if must_open and not must_close and w.fail_next_open:
                w.fail_next_open = False
                fail("stale_handle_not_reopened", "the node was replaced but no re-open was attempted")
            if state["exists"] or not detect:
                quiescent("after exec")
        elif evn == "A":
            # the facade is attached again, to the very device it already holds
            w.status, w.sense = 0, None
            before = state["reached"]
            try:
                fac(dev)
            except Exception as e:  # noqa: BLE001
                if state["exists"] or not detect:
                    fail("facade_reattach_raises.%s" % type(e).__name__, "re-attaching the facade to its own device raised %r" % e)
            else:
                if state["reached"] - before != 1:
                    fail("facade_reattach_command_count", "re-attach sent %d commands" % (state["reached"] - before))
            dev.opcodes = E.spc
            if state["exists"] or not detect:
                quiescent("after re-attach")
        elif evn == "R":
            # the ways a name gets another node: renamed over, the old node moved aside first (it lives on under another name),
            # the old node having a second name of its own
            rk = replug_kind or devnode.REPLUG_KINDS[(len(seq) + pos * 2 + seq.count("R")) % len(devnode.REPLUG_KINDS)]
            devnode.replug(node, rk)
            if not link:
                ctx.add("replug_kinds", rk)
            state["exists"] = True
            disturbed = True
        elif evn in "PQ":
            # the caller releases the device and opens it again himself (close() ... open() on the same object); Q: open() alone,
            # as a caller does who handles replugs himself (detection off)
            try:
                if evn == "P":
                    dev.close()
                dev.open()
                if state["exists"] and os.fstat(dev._file.fileno()).st_ino != os.stat(node).st_ino:
                    fail("callers_open_not_on_the_node_at_the_path", "after the caller's %sopen() the device's handle is on inode %d, the node at the path has inode %d"
                         % ("close() ... " if evn == "P" else "", os.fstat(dev._file.fileno()).st_ino, os.stat(node).st_ino))
                state["original"] = dev._file
                state["handle_lost"] = False
            except Exception as e:  # noqa: BLE001
                if state["exists"]:
                    fail("reopen_by_caller_raises.%s" % type(e).__name__, "close() ... open() by the caller raised %r" % e)
                    return False
                state["handle_lost"] = True
            ctx.count("caller_reopens")
            if evn == "Q":
                # (open() on an open device replaces the file object; the unchanged library leaves the old one to the garbage
                # collector, and the harness holds a reference to every handle: descriptors are not counted in such a sequence)
                state["bare_open"] = True
            if state["exists"]:
                quiescent("after the caller's %sopen()" % ("close() ... " if evn == "P" else ""))
        elif evn == "B":
            # the node that was at the path before returns to it (same inode, still alive)
            if state["exists"] and devnode.flip_back(node):
                ctx.count("earlier_nodes_returned_to_the_path")
                disturbed = True
        elif evn == "U":
            if state["exists"]:
                # the ways a node vanishes: the name is gone, it dangles, it resolves to itself, its directory is gone
                kind = devnode.UNPLUG_KINDS[(len(seq) // 2 + pos + seq.count("U")) % len(devnode.UNPLUG_KINDS)]
                ctx.add("unplug_kinds", devnode.unplug(node, kind))
            state["exists"] = False
            disturbed = True
        elif evn == "X":
            devnode.replug(node, devnode.REPLUG_KINDS[(len(seq) + pos) % len(devnode.REPLUG_KINDS)])
            state["exists"] = True
            w.fail_next_close = True
            state["pending_close_failure"] = True
            disturbed = True
        elif evn == "O":
            devnode.replug(node)
            state["exists"] = True
            w.fail_next_open = True
            state["pending_open_failure"] = True
            disturbed = True
        ctx.count("events")
    state["pos"] = len(seq)
    # a close failure armed but never consumed must not leak into the terminal close
    if w.fail_next_close:
        w.fail_next_close = False
    w.fail_next_open = False
    if term:
        try:
            if term == "C":
                dev.close()
            elif term == "W":
                with dev:
                    pass
            elif term == "Y":
                try:
                    with dev:
                        raise KeyboardInterrupt if False else RuntimeError("body failed")
                except RuntimeError:
                    pass
            elif term == "S":
                s = SCSI(None)
                s.device = dev
                # left normally, by an ordinary exception, or by one that is not an Exception (Ctrl-C, sys.exit(), a generator
                # closed while suspended inside the block): the handle is released in every case
                how = (len(seq) + seq.count("E")) % 5
                wit["facade_block_left_by"] = ("end of block", "RuntimeError", "KeyboardInterrupt", "SystemExit", "GeneratorExit")[how]
                if how == 0:
                    with s:
                        pass
                elif how == 4:
                    def gen():
                        with s:
                            yield 1

                    g = gen()
                    next(g)
                    g.close()
                else:
                    ex_t = (None, RuntimeError, KeyboardInterrupt, SystemExit)[how]
                    try:
                        with s:
                            raise ex_t("leaving the block")
                    except ex_t:
                        pass
        except Exception as e:  # noqa: BLE001
            fail("close_raises.%s" % type(e).__name__, "terminal %s raised %r" % (term, e))
        is_open = False
        quiescent("after close")
        # ... and stays released exactly once when the objects go away afterwards
        dev = fac = s = cmd = None
        w.dropped = getattr(w, "dropped", 0) + 1
        if w.dropped % 64 == 0:
            import gc

            gc.collect()
        quiescent("after dropping the device object")
        for h in w.handles:
            if h.real_closes != 1 and not state.get("bare_open"):
                fail("handle_closed_%d_times" % h.real_closes, "an OS handle was released %d times" % h.real_closes)
    else:
        # still open: every superseded handle must be closed
        live = [h for h in w.handles if not h.closed]
        if len(live) != 1 and not (state["handle_lost"] and len(live) == 0):
            fail("superseded_handles_open_%d" % len(live), "%d handles open at the end" % len(live))
        try:
            dev.close()
        except Exception:  # noqa: BLE001
            pass
    devnode.remove_all(node)
    return nontrivial


def run_two_users(ctx):
    """two device objects for the same node, obtained the way applications obtain them (init_device), alive at the same time:
    every interleaving of their commands and releases; releasing one never takes the other's handle away, and in the end each OS
    handle was released exactly once"""
    w = World()  # installs the binding stand-ins: before anything of pyscsi is imported
    import pyscsi.pyscsi.scsi_enum_command as E
    from pyscsi.pyscsi.scsi_cdb_testunitready import TestUnitReady
    from pyscsi.utils import init_device

    from vmon.sim import devnode

    for rw1, rw2 in ((False, False), (True, True), (False, True)):
        for link in (False, True):
            for script in itertools.product("12ab", repeat=4):
                # 1/2: a command through user 1/2; a/b: user 1/2 releases its device (close or with-exit)
                if "a" not in script and "b" not in script:
                    continue
                node = devnode.new_node(link=link)
                del w.handles[:]
                w.sg.log = []
                w.sg.pre_hooks = []
                w.status, w.sense = 0, None
                wit = {"two_users_of_one_node": True, "readwrite": [rw1, rw2], "node_is_symlink": link, "script": "".join(script)}
                bad = []
                w.sg.pre_hooks.append(lambda ev: bad.append("closed") if ev["file_closed"] else None)
                try:
                    users = {"1": init_device(node, rw1), "2": init_device(node, rw2)}
                except Exception as e:  # noqa: BLE001
                    ctx.fail("C15:two_users.open_raises.%s" % type(e).__name__, "second init_device on the same node raised %s" % e, wit, exc=e)
                    devnode.remove_all(node)
                    continue
                released = set()
                for u in users.values():
                    u.opcodes = E.spc
                for step, ch in enumerate(script):
                    who = "1" if ch in "1a" else "2"
                    if who in released:
                        continue  # a released device is not used again
                    dev = users[who]
                    if ch in "12":
                        before = len(w.sg.log)
                        try:
                            dev.execute(TestUnitReady(E.spc.TEST_UNIT_READY))
                        except Exception as e:  # noqa: BLE001
                            ctx.fail("C15:two_users.execute_raises.%s" % type(e).__name__, "user %s, whose device was never released, cannot execute after step %d of %r (the other user released its own device): %s"
                                     % (who, step, "".join(script), e), wit, exc=e)
                            break
                        if len(w.sg.log) - before != 1 or bad:
                            ctx.fail("C15:two_users.command_through_closed_handle" if bad else "C15:two_users.command_not_sent_once",
                                     "user %s at step %d of %r: %d commands reached the binding%s" % (who, step, "".join(script), len(w.sg.log) - before, ", through a closed file" if bad else ""), wit)
                            break
                    else:
                        try:
                            if step % 2:
                                dev.close()
                            else:
                                with dev:
                                    pass
                        except Exception as e:  # noqa: BLE001
                            ctx.fail("C15:two_users.close_raises.%s" % type(e).__name__, "releasing user %s raised %s" % (who, e), wit, exc=e)
                        released.add(who)
                for who, dev in users.items():
                    if who not in released:
                        try:
                            dev.close()
                        except Exception as e:  # noqa: BLE001
                            ctx.fail("C15:two_users.close_raises.%s" % type(e).__name__, "final release of user %s raised %s" % (who, e), wit, exc=e)
                users = dev = None
                left = devnode.open_fds_on(node)
                if left:
                    ctx.fail("C15:two_users.descriptor_leak", "%d descriptors on the node after both users released their devices" % len(left), wit)
                for h in w.handles:
                    if h.real_closes != 1:
                        ctx.fail("C15:two_users.handle_closed_%d_times" % h.real_closes, "an OS handle was released %d times" % h.real_closes, wit)
                        break
                ctx.case(("two-users", rw1, rw2, link, script), True, sample=wit if ctx.want_sample() else None)
                ctx.count("two_user_scripts")
                devnode.remove_all(node)


def run_forked(ctx):
    """a device opened in one process and used and released in a forked child (pre-forking servers, multiprocessing with the fork
    start method): in the child, too, close() / leaving a with block releases every handle the child holds exactly once; the
    parent's handle stays usable and is released by the parent"""
    import json
    import sys

    w = World()  # installs the stand-ins before anything of pyscsi is imported
    import pyscsi.pyscsi.scsi_enum_command as E
    from pyscsi.pyscsi.scsi import SCSI
    from pyscsi.pyscsi.scsi_cdb_testunitready import TestUnitReady

    from vmon.sim import devnode

    isc = sys.modules["iscsi"]
    isc.handler = None
    for transport in ("sgio", "iscsi"):
        for detect in ((True, False) if transport == "sgio" else (True,)):
            for hist in ("", "E", "RE", "ERE", "EE"):
                if transport == "iscsi" and "R" in hist:
                    continue
                for term in ("C", "W", "Y", "S"):
                    del w.handles[:]
                    w.sg.log = []
                    w.sg.pre_hooks = []
                    isc.contexts[:] = []
                    if transport == "sgio":
                        node = devnode.new_node()
                        dev = w.sd.SCSIDevice(node, True, detect)
                    else:
                        from vmon.sim import install

                        node = None
                        dev = install.iscsi_device()
                    dev.opcodes = E.spc
                    wit = {"transport": transport, "detect": detect, "history_in_child": hist, "released_by": term}
                    ctx.case(("forked", transport, detect, hist, term), True, sample=wit if ctx.want_sample() else None)
                    ctx.count("forked_histories")
                    rfd, wfd = os.pipe()
                    pid = os.fork()
                    if pid == 0:
                        out = {"error": None}
                        try:
                            os.close(rfd)
                            for ev in hist:
                                if ev == "R":
                                    devnode.replug(node)
                                else:
                                    dev.execute(TestUnitReady(E.spc.TEST_UNIT_READY))
                            try:
                                if term == "C":
                                    dev.close()
                                elif term == "W":
                                    with dev:
                                        pass
                                elif term == "Y":
                                    try:
                                        with dev:
                                            raise RuntimeError("x")
                                    except RuntimeError:
                                        pass
                                else:
                                    s = SCSI(None)
                                    s.device = dev
                                    with s:
                                        pass
                            except Exception as e:  # noqa: BLE001
                                out["error"] = "release raised %s: %s" % (type(e).__name__, e)
                            if transport == "sgio":
                                out["handles_closed"] = [bool(h.closed) for h in w.handles]
                                out["real_closes"] = [h.real_closes for h in w.handles]
                                out["fds"] = len(devnode.open_fds_on(node))
                            else:
                                out["disconnects"] = [c.disconnects for c in isc.contexts]
                                out["connected"] = [bool(c.connected) for c in isc.contexts]
                        except BaseException as e:  # noqa: BLE001
                            out["error"] = "%s: %s" % (type(e).__name__, e)
                        try:
                            os.write(wfd, json.dumps(out).encode())
                        finally:
                            os._exit(0)
                    os.close(wfd)
                    data = b""
                    while True:
                        chunk = os.read(rfd, 65536)
                        if not chunk:
                            break
                        data += chunk
                    os.close(rfd)
                    os.waitpid(pid, 0)
                    try:
                        out = json.loads(data.decode())
                    except ValueError:
                        ctx.inconclusive_because("forked child gave no report")
                        return
                    if out.get("error"):
                        ctx.fail("C15:forked.child_error", "in the forked child: %s" % out["error"], wit)
                    elif transport == "sgio" and (out["fds"] != 0 or not all(out["handles_closed"]) or any(n != 1 for n in out["real_closes"])):
                        ctx.fail("C15:forked.handle_not_released_once_in_child", "after the release in the forked child: %d descriptors on the node, handles closed %r, closes per handle %r"
                                 % (out["fds"], out["handles_closed"], out["real_closes"]), wit)
                    elif transport == "iscsi" and (out["disconnects"] != [1] or any(out["connected"])):
                        ctx.fail("C15:forked.session_not_released_once_in_child", "after the release in the forked child: disconnects %r" % out["disconnects"], wit)
                    # the parent's own handle is untouched by what the child did, works, and is released by the parent
                    try:
                        if transport == "sgio" and "R" in hist:
                            pass  # the child replaced the node: the parent follows the replug or reports it, as in the sequences above
                        else:
                            dev.execute(TestUnitReady(E.spc.TEST_UNIT_READY))
                        dev.close()
                    except Exception as e:  # noqa: BLE001
                        ctx.fail("C15:forked.parent_device_unusable.%s" % type(e).__name__, "after a forked child used and released its copy, the parent's device raised %s" % e, wit, exc=e)
                    if transport == "sgio":
                        n = len(devnode.open_fds_on(node))
                        if n != 0:
                            ctx.fail("C15:forked.parent_descriptor_leak", "%d descriptors on the node after the parent's close" % n, wit)
                        devnode.remove_all(node)
                    elif [c.disconnects for c in isc.contexts] != [1]:
                        ctx.fail("C15:forked.parent_session_not_released_once", "parent's session disconnects %r" % [c.disconnects for c in isc.contexts], wit)


def run(shard, ctx):
    if shard.get("forked"):
        return run_forked(ctx)
    if shard.get("iscsi"):
        return run_iscsi(ctx)
    if shard.get("two_users"):
        return run_two_users(ctx)
    if shard.get("no_stdin"):
        try:
            os.close(0)
        except OSError:
            pass
    w = World()
    if shard.get("no_stdin"):
        from vmon.sim import devnode as _dn

        probe = _dn.new_node()
        with open(probe, "rb") as fh:
            if fh.fileno() != 0:
                ctx.inconclusive_because("descriptor 0 is not free in this process")
                return
        ctx.count("shards_run_without_standard_input")
    if shard.get("facade"):
        for n in range(0, shard["L"] + 1):
            for tup in itertools.product("EFeRA", repeat=n):
                if "A" not in tup:
                    continue
                for term in ("", "S"):
                    nt = run_sequence(ctx, w, "".join(tup), term, shard["detect"], True, False, True)
                    ctx.case((shard["detect"], "facade", "".join(tup), term), True, sample={"detect": shard["detect"], "through_facade": True, "sequence": "".join(tup) + term} if ctx.want_sample() else None)
                    ctx.count("sequences")
        ctx.add("sequence_max_length", shard["L"])
        return
    if shard.get("reopen"):
        for n in range(2, shard["L"] + 1):
            for tup in itertools.product("ERPBQ", repeat=n):
                seq = "".join(tup)
                if not (set(seq) & set("PBQ")) or not seq.endswith("E") or any(x + x in seq for x in "RPBQ") or seq.count("Q") > 2:
                    continue
                for rw, detect in ((False, True), (True, True), (True, False)):
                    if not detect and "Q" not in seq and "P" not in seq:
                        continue
                    nt = run_sequence(ctx, w, seq, "C", detect, rw, False, False, "tur", "moved-aside")
                    ctx.case(("reopen-flipback", rw, detect, seq), bool(nt))
                    ctx.count("sequences")
                    ctx.count("reopen_flipback_sequences")
        return
    if shard.get("long_quiet"):
        from vmon import srcdict

        # (lengths the library's source mentions are among them: a threshold written down there is crossed)
        quiet = sorted({40, 129, 257, 1030, 4100} | {v + d for v in srcdict.small(5000) if v >= 16 for d in (0, 1)} | {v + d for v in srcdict.novel_small(20000) for d in (0, 1, 2)})
        if len(quiet) > 40:
            quiet = quiet[:: len(quiet) // 40 + 1] + quiet[-1:]
        for rep in range(shard["reps"]):
            for n in quiet:
                for ev in "RUX":
                    for link in (False, True):
                        seq = "E" * (n + rep) + ev + "EEEEEEEEE"
                        nt = run_sequence(ctx, w, seq, "C", True, bool((n + rep) % 2), link, False, ("tur", "mixed")[rep % 2])
                        ctx.case(("long-quiet", n + rep, ev, link), bool(nt))
                        ctx.count("sequences")
                        ctx.count("long_quiet_sequences")
                        ctx.add("quiet_commands_before_the_event", n + rep)
        return
    detect, rw, L = shard["detect"], shard["rw"], shard["L"]
    link = shard.get("link", False)
    if link == "chardev":
        from vmon.sim import devnode

        if not devnode.chardev_possible():
            ctx.count("chardev_nodes_unavailable")  # mknod not permitted here: this configuration cannot be driven
            return
    for n in range(0, L + 1):
        for tup in itertools.product(NONTERM, repeat=n):
            if shard["first"] and (not tup or tup[0] != shard["first"]):
                if not (shard["first"] == "E" and not tup):
                    continue
            seq = "".join(tup)
            for term in TERM:
                nt = run_sequence(ctx, w, seq, term, detect, rw, link, False, shard.get("cmd", "tur"))
                ctx.case((detect, rw, link, seq, term), bool(nt), sample={"detect": detect, "readwrite": rw, "node_is_symlink": link, "sequence": seq + term} if ctx.want_sample() else None)
                ctx.count("sequences")
    ctx.add("sequence_max_length", L)


URL1 = "iscsi://127.0.0.1:3260/iqn.2003-01.org.example:target0/0"
URL2 = "iscsi://192.0.2.7:3260/iqn.2003-01.org.example:target1/3"


def run_iscsi(ctx):
    import sys

    from vmon.sim import install

    install.install_fakes()
    import pyscsi.pyscsi.scsi_enum_command as E
    from pyscsi.pyscsi.scsi import SCSI
    from pyscsi.pyscsi.scsi_cdb_testunitready import TestUnitReady

    import gc

    isc = sys.modules["iscsi"]
    st = {"status": 0}
    def handler(ev):
        if st.get("raise") is not None:
            exc, st["raise"] = st["raise"], None
            raise exc
        return st["status"], b"\x70\x00\x06" + bytes(15) if st["status"] == 2 else None

    isc.handler = handler
    for n in range(0, 4):
        # E GOOD, F CHECK CONDITION, T the binding's pseudo status for a failed task, X the binding itself raises (connection reset,
        # timeout, broken pipe: an OSError out of command())
        for tup in itertools.product("EFTX", repeat=n):
            for term in ("C", "W", "Y", "S"):
                isc.contexts[:] = []
                dev = install.iscsi_device()
                ctxs = list(isc.contexts)
                wit = {"sequence": "".join(tup) + term, "transport": "iscsi"}
                for evn in tup:
                    # T: the binding's pseudo status for a failed / timed-out task
                    st["status"] = 0 if evn in "EX" else 2 if evn == "F" else (0x0F000001, 0x0F000002)[len(tup) % 2]
                    if evn == "X":
                        st["raise"] = (ConnectionResetError(104, "injected: connection reset by peer"), TimeoutError("injected: timed out"), BrokenPipeError(32, "injected"),
                                       OSError(5, "injected: I/O error"))[(len(tup) + tup.index("X")) % 4]
                        ctx.count("iscsi_binding_raised")
                    try:
                        dev.execute(TestUnitReady(E.spc.TEST_UNIT_READY))
                    except Exception:  # noqa: BLE001
                        pass
                try:
                    if term == "C":
                        dev.close()
                    elif term == "W":
                        with dev:
                            pass
                    elif term == "Y":
                        try:
                            with dev:
                                raise RuntimeError("x")
                        except RuntimeError:
                            pass
                    else:
                        s = SCSI(None)
                        s.device = dev
                        with s:
                            pass
                except Exception as e:  # noqa: BLE001
                    ctx.fail("C15:iscsi.close_raises.%s" % type(e).__name__, "close raised %r" % e, wit, exc=e)
                ctx.case(("iscsi", tup, term), False, sample=wit if ctx.want_sample() else None)
                ctx.count("iscsi_sequences")
                st["raise"] = None
                allc = list(isc.contexts)  # every session the device ever connected, not only its first
                if len(ctxs) != 1 or any(c.disconnects != 1 or c.connected for c in allc):
                    ctx.fail("C15:iscsi.session_not_released_once", "sessions connected by the device: %d, disconnects %r, still connected %r" % (len(allc), [c.disconnects for c in allc], [c.connected for c in allc]), wit)
                # the same object connected again with its public open(url) and released again: the new session is released
                # exactly once as well, and the earlier one stays as it was
                for again in range(2):
                    known = list(isc.contexts)
                    try:
                        dev.open(URL2 if again else URL1)
                    except Exception as e:  # noqa: BLE001
                        ctx.fail("C15:iscsi.reopen_raises.%s" % type(e).__name__, "open(url) on a released device raised %r" % e, wit, exc=e)
                        break
                    new = [c for c in isc.contexts if not any(c is k for k in known)]
                    st["status"] = 0
                    try:
                        dev.execute(TestUnitReady(E.spc.TEST_UNIT_READY))
                    except Exception as e:  # noqa: BLE001
                        ctx.fail("C15:iscsi.reopened_device_unusable.%s" % type(e).__name__, "a command on the re-opened device raised %r" % e, wit, exc=e)
                    try:
                        if (len(tup) + again) % 2:
                            dev.close()
                        else:
                            with dev:
                                pass
                    except Exception as e:  # noqa: BLE001
                        ctx.fail("C15:iscsi.close_raises.%s" % type(e).__name__, "close after re-open raised %r" % e, wit, exc=e)
                    ctx.count("iscsi_reopen_histories")
                    if len(new) != 1 or new[0].disconnects != 1 or new[0].connected:
                        ctx.fail("C15:iscsi.reopened_session_not_released_once", "after release, open(url), release: the later session was released %r times (connected: %r)"
                                 % ([c.disconnects for c in new], [c.connected for c in new]), dict(wit, reopened=again + 1))
                        break
                    if any(c.disconnects != 1 for c in ctxs):
                        ctx.fail("C15:iscsi.earlier_session_released_again", "releasing the re-opened device disconnected the earlier session again", dict(wit, reopened=again + 1))
                        break
                # the session stays released exactly once when the device object goes away afterwards
                dev = s = None
                gc.collect()
                ctx.count("iscsi_objects_dropped")
                every = list(isc.contexts)  # (the first session and the ones of the later open(url) calls)
                if any(c.disconnects != 1 for c in every):
                    ctx.fail("C15:iscsi.session_released_again_when_object_dropped", "disconnect() ran %r times on the device's sessions once the released device object was garbage collected" % [c.disconnects for c in every], wit)


def finalize(merged, tier):
    c = merged["counters"]
    if c.get("sequences", 0) == 0 or c.get("events", 0) == 0:
        merged["inconclusive"].append("no event sequence executed")
    for k, least in (("forked_histories", 50), ("iscsi_binding_raised", 100), ("iscsi_reopen_histories", 100)):
        if c.get(k, 0) < least:
            merged["inconclusive"].append("monitor hardly reached: %s=%d" % (k, c.get(k, 0)))
    return {"exhaustive": True, "exhaustive_dimension": "all event sequences up to length %s over the 8-event alphabet x 5 endings x 8 configurations"
            % ",".join(sorted(merged["sets"].get("sequence_max_length", ["?"])))}


def replay(rec, ctx):
    w = rec["witness"]
    if "history_in_child" in w:
        return run_forked(ctx)
    if w.get("transport") == "iscsi":
        return run_iscsi(ctx)
    seq = w["sequence"]
    term = seq[-1] if seq and seq[-1] in "CWYS" else ""
    body = seq[:-1] if term else seq
    run_sequence(ctx, World(), body, term, w["detect"], w["readwrite"], w.get("node_is_symlink", False), w.get("through_facade", False))
