"""C16 - attaching to a device selects the command set of its peripheral device type."""
LEVEL = "exploration"
RULE = (
    "exhaustive: 32 peripheral device types x 8 qualifiers x {SG_IO, iSCSI} single attaches against a simulated target; "
    "histories: all 1024 ordered type pairs (attach, re-attach the same facade to a fresh device) on both transports and seeded "
    "(quick) / all 32768 (thorough) triples.  Observed: the CDBs the target received during attach (exactly one standard "
    "INQUIRY), device.devicetype, device.opcodes (identity and the opcodes actually used by inquiry/testunitready/reportluns "
    "and a type-specific command afterwards), and that earlier devices keep their own set.  distinct = hash(transport, type "
    "sequence, qualifier); non-trivial = type != 0 or a re-attach"
)
ASSUMPTIONS = [
    "types 02h and 09h are not named by the statement: only 'primary commands offered' is demanded for them",
    "vmon/sim/target.py + fake bindings",
]

EXPECT = {0x00: "sbc", 0x04: "sbc", 0x07: "sbc", 0x01: "ssc", 0x05: "mmc", 0x08: "smc"}
PROBE = {"sbc": ("READ_16", 0x88), "ssc": ("REWIND", 0x01), "mmc": ("READ_CD", 0xBE), "smc": ("MOVE_MEDIUM", 0xA5)}


def shards(tier, seed):
    out = []
    for t in ("sgio", "iscsi"):
        out.append({"id": "single-" + t, "kind": "single", "transport": t})
        out.append({"id": "pairs-" + t, "kind": "pairs", "transport": t})
        out.append({"id": "revisit-" + t, "kind": "revisit", "transport": t})
        if tier == "quick":
            out.append({"id": "triples-" + t, "kind": "triples", "transport": t, "n": 500, "all": False})
        else:
            for a in range(0, 32, 4):
                out.append({"id": "triples-%s-%d" % (t, a), "kind": "triples", "transport": t, "first": list(range(a, a + 4)), "all": True})
    return out


class World:
    def __init__(self, transport):
        import sys

        from vmon.sim import install

        install.install_fakes()
        self.transport = transport
        self.install = install
        self.mod = sys.modules["sgio" if transport == "sgio" else "iscsi"]
        self.by_dev = {}
        self.by_ino = {}
        self.closed_handle_events = 0
        self.mod.handler = self.route
        self.n = 0
        self.known = 0
        self.interrupt = None

    def route(self, ev):
        if self.interrupt is not None:
            exc, self.interrupt = self.interrupt, None
            raise exc  # the user interrupts the program (Ctrl-C), it exits, a generator is closed: not an Exception
        if ev.get("file_closed"):
            self.closed_handle_events += 1
        if self.transport == "sgio" and self.by_ino:
            # the unit behind the *handle* (as the kernel sees it), not behind the name the handle was opened with
            import os

            ino = os.fstat(ev["file"].fileno()).st_ino
            if ino in self.by_ino:
                return self.by_ino[ino].handle(ev)
        if self.transport == "sgio":
            key = ev["file"].name
        else:
            key = ev["lun"]
        return self.by_dev[key].handle(ev)

    def new_device(self, devtype, qualifier=0):
        from vmon.sim.target import Target

        if len(self.mod.log) > 5000:
            self.mod.log = []
        if len(self.by_dev) > 2000:
            self.by_dev.clear()
        t = Target(devtype, qualifier)
        self.n += 1
        # identification strings as devices really send them: ASCII, NUL or FFh padded, 8-bit characters, all zero
        t.vendor, t.product, t.rev = [(b"VMON    ", b"SIMULATED LUN   ", b"0001"), (b"ACME\xff\xff\xff\xff", b"Bridge\xff\xff\xff\xff\xff\xff\xff\xff\xff\xff", b"\xff\xff\xff\xff"),
                                     (b"M\xfcller ", b"Ger\xe4t \xb5SD      ", b"1.0\xb0"), (b"USB\0\0\0\0\0", b"Flash\0\0\0\0\0\0\0\0\0\0\0", b"\0\0\0\0"),
                                     (bytes(8), bytes(16), bytes(4)), (b"\xe6\x97\xa5\xe6\x9c\xac  ", b"\xe3\x83\x87\xe3\x82\xa3\xe3\x82\xb9\xe3\x82\xaf    ", b"v\xc2\xb2 ")][self.n % 6]
        if self.n % 3 == 0:
            # ... and as real units call themselves (every entry meets every device type over a run)
            from vmon.sim.target import KNOWN_IDS

            self.known += 1
            t.vendor, t.product = KNOWN_IDS[(self.known * 7 + devtype) % len(KNOWN_IDS)]
        t.vendor, t.product, t.rev = t.vendor.ljust(8)[:8], t.product.ljust(16)[:16], t.rev.ljust(4)[:4]
        # standard INQUIRY data of every legal size: the minimum, the usual ones, and more than the 96 bytes asked for
        t.inquiry_length = (96, 36, 96, 97, 128, 255, 256, 260, 74, 58, 100, 200)[self.n % 12]
        if self.transport == "sgio" and self.n % 4 == 1:
            # the node named through a directory link and '..' (the kernel resolves '..' behind the link's target), by way of the
            # documented helper
            import os

            from pyscsi.utils import init_device

            from vmon.sim import devnode

            node = devnode.new_node(own_dir=True)
            d = os.path.dirname(node)
            os.mkdir(os.path.join(d, "sub"))
            link = os.path.join(devnode.base(), "l%d" % self.n)
            os.symlink(os.path.join(d, "sub"), link)
            path = link + "/../" + os.path.basename(node)
            self.by_ino[os.stat(node).st_ino] = t
            self.by_dev[path] = t
            self.by_dev[node] = t
            dev = init_device(path, True)
        elif self.transport == "sgio":
            dev, node = self.install.sgio_device()
            self.by_dev[node] = t
            import os as _os

            self.by_ino.pop(_os.stat(node).st_ino, None)  # an inode number of a removed node may come back
            if self.n % 5 == 2:
                # a shallow copy of the device object that is dropped again leaves the device as it was
                import copy
                import gc

                twin = copy.copy(dev)
                del twin
                gc.collect()
        else:
            # several logical units behind one portal/target/initiator, as real targets have
            dev = self.install.iscsi_device("iscsi://10.0.0.1:3260/iqn.2003-01.org.example:shared/%d" % self.n)
            self.by_dev[self.n] = t
        return dev, t

    def close(self, dev):
        try:
            dev.close()
        except Exception:  # noqa: BLE001
            pass


def check_attached(ctx, dev, tgt, devtype, wit, first_cmd_index=0, others=()):
    import pyscsi.pyscsi.scsi_enum_command as E

    log = tgt.log[first_cmd_index:]
    if len(log) != 1:
        ctx.fail("C16:attach_command_count_%d" % min(len(log), 3), "attach issued %d commands: %r" % (len(log), [r.get("name") for r in log]), wit)
    elif log[0].get("name") != "Inquiry" or log[0]["cdb"][0] != 0x12 or log[0]["fields"]["evpd"] or log[0]["fields"]["page_code"]:
        ctx.fail("C16:attach_not_standard_inquiry", "attach sent %s" % log[0]["cdb"].hex(), wit)
    if tgt.anomalies:
        ctx.fail("C16:target_anomaly", "target: %s" % tgt.anomalies[0], wit)
    if getattr(dev, "devicetype", None) != devtype:
        ctx.fail("C16:devicetype", "device.devicetype=%r, target reports %02Xh" % (getattr(dev, "devicetype", None), devtype), wit)
    want = EXPECT.get(devtype)
    ops = dev.opcodes
    if want:
        if ops is not getattr(E, want):
            ctx.fail("C16:wrong_command_set.type_%02x" % devtype, "type %02Xh got %s, expected %s" % (devtype, name_of(ops), want), wit)
        else:
            k, v = PROBE[want]
            if getattr(getattr(ops, k, None), "value", None) != v:
                ctx.fail("C16:command_set_content.%s" % want, "%s.%s is not %02Xh" % (want, k, v), wit)
    for k, v in (("INQUIRY", 0x12), ("TEST_UNIT_READY", 0x00), ("REPORT_LUNS", 0xA0)):
        if getattr(getattr(ops, k, None), "value", None) != v:
            ctx.fail("C16:primary_command_missing.%s" % k, "type %02Xh: selected set %s does not offer %s=%02Xh" % (devtype, name_of(ops), k, v), wit)
    ctx.count("attach_checks")


def name_of(ops):
    import pyscsi.pyscsi.scsi_enum_command as E

    for n in ("spc", "sbc", "ssc", "smc", "mmc"):
        if ops is getattr(E, n):
            return n
    return repr(ops)


def use_service_action_commands(ctx, s, dev, tgt, wit):
    """readcapacity16 (9Eh) and reportpriority (A3h) look their opcode up by key suffix in the attached device's own table:
    one command with that opcode if the table has such a key, otherwise refused with nothing sent"""
    for meth, suffix, op in (("readcapacity16", "9E", 0x9E), ("reportpriority", "A3", 0xA3)):
        has = any(k.endswith(suffix) for k in dev.opcodes.keys)
        n0 = len(tgt.log)
        try:
            getattr(s, meth)()
            raised = None
        except Exception as e:  # noqa: BLE001
            raised = e
        sent = [r["cdb"][0] for r in tgt.log[n0:]]
        ctx.count("service_action_calls")
        if has and sent != [op]:
            ctx.fail("C16:service_action_command_not_sent.%s" % meth, "%s on %s sent %r" % (meth, name_of(dev.opcodes), sent), wit)
        if not has and sent:
            ctx.fail("C16:command_from_another_command_set.%s" % meth, "%s sent opcode(s) %r although the attached device's set (%s) does not define it" % (meth, sent, name_of(dev.opcodes)), wit)


def use_primary(ctx, s, tgt, wit):
    n0 = len(tgt.log)
    try:
        s.inquiry()
        s.testunitready()
        s.reportluns()
    except Exception as e:  # noqa: BLE001
        ctx.fail("C16:primary_command_fails.%s" % type(e).__name__, "primary command failed after attach: %s" % e, wit, exc=e)
        return
    ops = [r["cdb"][0] for r in tgt.log[n0:]]
    if ops != [0x12, 0x00, 0xA0]:
        ctx.fail("C16:primary_command_opcodes", "inquiry/testunitready/reportluns sent opcodes %r" % ops, wit)
    ctx.count("primary_command_rounds")


def run(shard, ctx):
    w = World(shard["transport"])
    from pyscsi.pyscsi.scsi import SCSI

    rng = ctx.rng()
    t = shard["transport"]
    if shard["kind"] == "single":
        for devtype in range(32):
            for q in range(8):
                dev, tgt = w.new_device(devtype, q)
                wit = {"transport": t, "types": [devtype], "qualifier": q}
                ctx.case((t, devtype, q), devtype != 0, sample={"transport": t, "type": devtype, "qualifier": q} if ctx.want_sample() else None)
                ctx.add("types", devtype)
                try:
                    s = SCSI(dev)
                except Exception as e:  # noqa: BLE001
                    ctx.fail("C16:attach_raises.%s" % type(e).__name__, "SCSI(dev) raised %s" % e, wit, exc=e)
                    w.close(dev)
                    continue
                check_attached(ctx, dev, tgt, devtype, wit)
                use_primary(ctx, s, tgt, wit)
                w.close(dev)
        # every type and qualifier once more with the shortest and the longest standard INQUIRY data (ADDITIONAL LENGTH 1Fh and
        # FFh) and with the flag bytes as units of older standards fill them (LINKED + CMDQUE, everything set, RELADR / WBUS / SYNC)
        for devtype in range(32):
            for q in range(8):
                for length, flags7, version in ((36, 0x0A, 4), (260, 0x02, 5), (260, 0xFF, 6), (96, 0xBA, 2), (132, 0x0A, 3)):
                    dev, tgt = w.new_device(devtype, q)
                    tgt.inquiry_length, tgt.version = length, version
                    tgt.inquiry_or = {7: flags7, 6: 0x08 if flags7 == 0xFF else 0}
                    wit = {"transport": t, "types": [devtype], "qualifier": q, "inquiry_bytes": length, "inquiry_byte_7": flags7, "inquiry_version": version}
                    ctx.case((t, devtype, q, length, flags7), True)
                    ctx.count("attaches_over_lengths_and_flag_bytes")
                    try:
                        SCSI(dev)
                    except Exception as e:  # noqa: BLE001
                        ctx.fail("C16:attach_raises.%s" % type(e).__name__, "SCSI(dev) raised %s" % e, wit, exc=e)
                        w.close(dev)
                        continue
                    check_attached(ctx, dev, tgt, devtype, wit)
                    w.close(dev)
        # units of every age: each VERSION (0 = no standard claimed, 1..7 = SCSI-1 .. SPC-5) and RESPONSE DATA FORMAT, with
        # qualifiers other than 000b too; the selection follows the peripheral device type field alone
        for version in list(range(8)) + [0x80, 0x83]:
            for rdf in (0, 1, 2):
                for devtype in (0x00, 0x01, 0x05, 0x08, 0x0C, 0x1F):
                    for q in (0, 1, 3, 5):
                        dev, tgt = w.new_device(devtype, q)
                        tgt.version, tgt.response_data_format = version, rdf
                        wit = {"transport": t, "types": [devtype], "qualifier": q, "inquiry_version": version, "response_data_format": rdf}
                        ctx.case((t, devtype, q, version, rdf), True)
                        ctx.count("attaches_to_units_of_other_versions")
                        try:
                            SCSI(dev)
                        except Exception as e:  # noqa: BLE001
                            ctx.fail("C16:attach_raises.%s" % type(e).__name__, "SCSI(dev) raised %s" % e, wit, exc=e)
                            w.close(dev)
                            continue
                        check_attached(ctx, dev, tgt, devtype, wit)
                        w.close(dev)
        return
    if shard["kind"] == "revisit":
        if t == "sgio":
            run_relinked(ctx, w, SCSI, rng)
        run_attach_faults(ctx, w, SCSI, t)
        run_interrupted_attaches(ctx, w, SCSI, t)
        return run_revisit(ctx, w, SCSI, t, rng)
    seqs = []
    if shard["kind"] == "pairs":
        seqs = [(a, b) for a in range(32) for b in range(32)]
    elif shard["all"]:
        seqs = [(a, b, c) for a in shard["first"] for b in range(32) for c in range(32)]
    else:
        seqs = [tuple(rng.choice([0, 1, 3, 4, 5, 7, 8, 0x0C, 0x1F, rng.randrange(32)]) for _ in range(3)) for _ in range(shard["n"])]
    for seq in seqs:
        wit = {"transport": t, "types": list(seq)}
        ctx.case((t,) + tuple(seq), True, sample=wit if ctx.want_sample() else None)
        devs = []
        s = None
        ok = True
        for i, devtype in enumerate(seq):
            dev, tgt = w.new_device(devtype, 0)
            default = dev.opcodes
            try:
                if s is None:
                    s = SCSI(dev)
                else:
                    s(dev)
            except Exception as e:  # noqa: BLE001
                ctx.fail("C16:attach_raises.%s" % type(e).__name__, "attach %d raised %s" % (i, e), wit, exc=e)
                ok = False
                break
            check_attached(ctx, dev, tgt, devtype, dict(wit, step=i))
            if devtype not in EXPECT and devtype not in (2, 3, 9) and devs:
                # unrecognised type on a fresh device: must show its own default, not the previous device's set
                prev = devs[-1][0].opcodes
                if dev.opcodes is prev and prev is not default:
                    ctx.fail("C16:previous_command_set_leaked", "fresh device of type %02Xh shows the previous device's %s" % (devtype, name_of(prev)), dict(wit, step=i))
            # earlier devices keep their own selection
            for (d0, t0, ty0, ops0) in devs:
                if d0.opcodes is not ops0 or getattr(d0, "devicetype", None) != ty0:
                    ctx.fail("C16:earlier_device_changed", "device attached earlier (type %02Xh) changed its command set" % ty0, dict(wit, step=i))
            if s.device is not dev:
                ctx.fail("C16:facade_not_reattached", "facade still points to the earlier device", dict(wit, step=i))
            use_service_action_commands(ctx, s, dev, tgt, dict(wit, step=i))
            devs.append((dev, tgt, devtype, dev.opcodes))
        if ok and devs:
            use_primary(ctx, s, devs[-1][1], wit)
        for d in devs:
            w.close(d[0])
        ctx.count("histories")


def run_relinked(ctx, w, SCSI, rng):
    """the device path is a persistent name (a symlink); the name is moved to another unit (another node of another type) while
    the device object lives; the next attach of that device object probes, and selects for, the unit the path names now.  Before it,
    a public helper's result for the values the attach itself converts is edited in place (it is the caller's)."""
    import os

    import pyscsi.utils.converter as conv
    from pyscsi.pyscsi.scsi_device import SCSIDevice

    from vmon.sim import devnode
    from vmon.sim.target import Target

    for t1, t2 in ((0x00, 0x01), (0x01, 0x00), (0x05, 0x08), (0x08, 0x05), (0x00, 0x0C), (0x07, 0x05), (0x01, 0x01)):
        for detect in (True, False):
            for pollute in (False, True, "chardev"):
                if pollute == "chardev" and not devnode.chardev_possible():
                    ctx.count("chardev_nodes_unavailable")
                    continue
                # a persistent name (symlink), or a character special file whose replacement has the same device number
                node = devnode.new_node(link="chardev" if pollute == "chardev" else True)
                a, b = Target(t1, 0), Target(t2, 0)
                w.by_ino[os.stat(node).st_ino] = a
                wit = {"transport": "sgio", "types": [t1, t2], "path_is_symlink": pollute != "chardev", "path_is_character_device": pollute == "chardev", "detect_replugged": detect}
                ctx.case(("relinked", t1, t2, detect, pollute), True, sample=wit if ctx.want_sample() else None)
                ctx.count("relinked_histories")
                if pollute is True:
                    for args in ((96, 2), (96, 1), (0x12, 1), (0, 1), (96,), (0, 2)):
                        try:
                            x = conv.scsi_int_to_ba(*args)
                            x += b"\xde\xad"
                            x[0] ^= 0xFF
                        except Exception:  # noqa: BLE001
                            pass
                try:
                    dev = SCSIDevice(node, False, detect)
                    s = SCSI(dev)
                    check_attached(ctx, dev, a, t1, dict(wit, step=0))
                    devnode.replug(node)
                    w.by_ino[os.stat(node).st_ino] = b
                    n_b = len(b.log)
                    s(dev)
                except Exception as e:  # noqa: BLE001
                    ctx.fail("C16:attach_raises.%s" % type(e).__name__, "attach over a re-pointed persistent name raised %s" % e, wit, exc=e)
                    w.by_ino.clear()
                    continue
                if detect:
                    if len(b.log) - n_b != 1 or getattr(dev, "devicetype", None) != t2 or (EXPECT.get(t2) and name_of(dev.opcodes) != EXPECT[t2]):
                        ctx.fail("C16:relinked_path_probes_old_unit", "the path now names a type %02Xh unit; the re-attach sent it %d INQUIRYs and selected type %r / %s"
                                 % (t2, len(b.log) - n_b, getattr(dev, "devicetype", None), name_of(dev.opcodes)), wit)
                w.close(dev)
                w.by_ino.clear()
                devnode.remove_all(node)


def run_attach_faults(ctx, w, SCSI, t):
    """the first k INQUIRYs of an attach are answered with CHECK CONDITION (pending UNIT ATTENTIONs, NOT READY ...):
    attach either fails, or -- if the library retries -- ends with the type a GOOD INQUIRY really reported"""
    from vmon.spec import sense as SN

    faults = [("cc", 0x70, key, asc) for key, asc in ((6, 0x29), (6, 0x28), (2, 0x04), (5, 0x24))]
    # ... in descriptor format, with every sense key, and additional sense codes whose low nibble looks like a harmless key
    faults += [("cc", rc, key, asc) for rc in (0x72, 0x73, 0x71) for key, asc in ((0xB, 0x00), (0xB, 0x10), (4, 0x40), (4, 0x41), (3, 0x11), (0, 0x00), (1, 0x17), (6, 0x29))]
    # ... and with other statuses than CHECK CONDITION: named ones, obsolete ones, and the pseudo statuses a binding reports
    # for a cancelled / failed / timed-out task
    faults += [("status", st, None, None) for st in (0x08, 0x18, 0x28, 0x30, 0x40, 0x04, 0x10, 0x22, 0x14, 0xFF, 0x0F000000, 0x0F000001, 0x0F000002)]
    ncase = 0
    for devtype in (0x01, 0x05, 0x08, 0x00, 0x1F):
        for k in (1, 2, 3):
            for kind, rc, key, asc in faults:
                if kind == "status" and (k > 1 or (t == "sgio" and rc > 0xFF)):
                    continue
                ncase += 1
                if ncase % 3 == 0:
                    # what other users of the library did before must not matter: a facade on another unit sent a command whose
                    # sense the caller looks at himself (ATA PASS-THROUGH; answered GOOD, or with CHECK CONDITION)
                    dev0, tgt0 = w.new_device(0, 0)
                    try:
                        s0 = SCSI(dev0)
                        tgt0.faults[tgt0.n] = (0, None) if ncase % 2 else (2, SN.build(0x72, 0, 1, 0x00, 0x1D, 8))
                        (s0.atapassthrough16 if ncase % 4 < 2 else s0.atapassthrough12)(4, 2, 1, 1, 0, 0, 0, 1, 0, 0xEC)
                        ctx.count("attach_faults_after_raw_sense_command")
                    except Exception as e:  # noqa: BLE001
                        ctx.count("raw_sense_command_raised_%s" % type(e).__name__)
                    w.close(dev0)
                dev, tgt = w.new_device(devtype, 0)
                for i in range(k):
                    tgt.faults[i] = (2, SN.build(rc, 0, key, asc, i, 18 if rc < 0x72 else 8)) if kind == "cc" else (rc, None)
                wit = {"transport": t, "types": [devtype], "inquiry_failures": k, "sense": [rc, key, asc] if kind == "cc" else None, "status": rc if kind == "status" else 2}
                ctx.add("attach_fault_kinds", "%s:%x" % (kind, rc))
                ctx.case((t, "attach-faults", devtype, k, kind, rc, key, asc), True, sample=wit if ctx.want_sample() else None)
                ctx.count("attach_fault_cases")
                try:
                    SCSI(dev)
                    ok = True
                except Exception:  # noqa: BLE001
                    ok = False
                good = [r for r in tgt.log if r.get("name") == "Inquiry" and "fault" not in r]
                if ok and (not good or getattr(dev, "devicetype", None) != devtype or (EXPECT.get(devtype) and name_of(dev.opcodes) != EXPECT[devtype])):
                    ctx.fail("C16:attach_succeeds_without_inquiry_data", "attach returned normally after %d failed INQUIRYs and %d good ones: devicetype=%r set=%s, target is type %02Xh"
                             % (k, len(good), getattr(dev, "devicetype", None), name_of(dev.opcodes), devtype), wit)
                w.close(dev)


def run_interrupted_attaches(ctx, w, SCSI, t):
    """an attach that is interrupted by something that is not an Exception (KeyboardInterrupt, SystemExit, GeneratorExit out of the
    probe), then the same attach again on the same facade: it probes the device and selects its command set like any attach"""
    for devtype in (0x00, 0x01, 0x05, 0x08, 0x0C):
        for exc_t in (KeyboardInterrupt, SystemExit, GeneratorExit):
            for first in (True, False):
                dev0, _t0 = w.new_device(0x03, 0)
                dev, tgt = w.new_device(devtype, 0)
                wit = {"transport": t, "types": [devtype], "attach_interrupted_by": exc_t.__name__, "interrupted_attach_was_the_facades_first": first}
                ctx.case((t, "interrupted", devtype, exc_t.__name__, first), True)
                ctx.count("interrupted_attaches")
                s = None
                try:
                    if first:
                        w.interrupt = exc_t("interrupted")
                        try:
                            s = SCSI(dev)
                        except exc_t:
                            pass
                        w.interrupt = None
                        s = SCSI(dev0)
                    else:
                        s = SCSI(dev0)
                        w.interrupt = exc_t("interrupted")
                        try:
                            s(dev)
                        except exc_t:
                            pass
                        w.interrupt = None
                    del tgt.log[:]
                    s(dev)
                except Exception as e:  # noqa: BLE001
                    ctx.fail("C16:attach_raises.%s" % type(e).__name__, "attach after an interrupted attach raised %s" % e, wit, exc=e)
                    continue
                finally:
                    w.interrupt = None
                check_attached(ctx, dev, tgt, devtype, wit)
                w.close(dev)
                w.close(dev0)


def run_revisit(ctx, w, SCSI, t, rng):
    """one facade moved back and forth between a few live devices, including re-attaching to the device it already holds;
    every device must stay usable and keep the set of its own type"""
    import itertools

    patterns = [p for n in (2, 3, 4) for p in itertools.product((0, 1, 2), repeat=n) if len(set(p)) < len(p)]
    for pat in patterns:
        for types in ((0, 1, 5), (8, 0x1F, 0), (5, 5, 3), (7, 4, 1)):
            devs = [w.new_device(ty, 0) for ty in types]
            wit = {"transport": t, "types": list(types), "attach_order": list(pat)}
            ctx.case((t, "revisit", types, pat), True, sample=wit if ctx.want_sample() else None)
            ctx.count("histories")
            s = None
            w.closed_handle_events = 0
            try:
                for i in pat:
                    dev, tgt = devs[i]
                    n0 = len(tgt.log)
                    if s is None:
                        s = SCSI(dev)
                    else:
                        s(dev)
                    check_attached(ctx, dev, tgt, types[i], dict(wit, step=i), first_cmd_index=n0)
                    use_primary(ctx, s, tgt, wit)
                    for j, (d2, t2) in enumerate(devs):
                        want = EXPECT.get(types[j])
                        if hasattr(d2, "_devicetype") and want and name_of(d2.opcodes) != want:
                            ctx.fail("C16:earlier_device_changed", "device %d (type %02Xh) now has %s" % (j, types[j], name_of(d2.opcodes)), wit)
            except Exception as e:  # noqa: BLE001
                ctx.fail("C16:attach_raises.%s" % type(e).__name__, "attach order %r raised %s" % (pat, e), wit, exc=e)
            if w.closed_handle_events:
                ctx.fail("C16:command_through_closed_handle", "%d commands went through a closed device handle" % w.closed_handle_events, wit)
            for d in devs:
                w.close(d[0])


def finalize(merged, tier):
    c = merged["counters"]
    if c.get("attach_checks", 0) == 0:
        merged["inconclusive"].append("no attach observed")
    return {"exhaustive": len(merged["sets"].get("types", ())) == 32, "exhaustive_dimension": "32 peripheral device types x 8 qualifiers x 2 transports; all ordered type pairs"}


def replay(rec, ctx):
    for s in shards(rec.get("tier", "quick"), rec.get("seed", 0)):
        if s["id"] == rec.get("shard"):
            run(s, ctx)
