"""C04 - well-formed device responses are decoded to the values the device sent."""
LEVEL = "exploration"
RULE = (
    "per response format (27 reference encoders): every numeric field through its boundary set with the other fields at "
    "0 / all-ones; seeded random value trees; list formats with 0,1,2,3,... descriptors; each response once exact and once "
    "followed by non-zero garbage up to the allocation length; decoded by Command.unmarshall_datain directly and as cmd.result "
    "after the facade method ran over a device that copies the response into cmd.datain.  Oracle: every reference field must "
    "be present and equal in the library's result (extra keys allowed).  distinct = hash(format, path, response bytes, "
    "garbage flag); non-trivial = >=1 non-zero field and, for list formats, >=1 descriptor"
)
ASSUMPTIONS = [
    "vmon/spec/datain.py encoders follow SPC-4/SBC-3/SMC-3/MMC-6/SAT-3 (DESIGN.md Appendix B)",
    "reference gaps (SOP TransportID routing id position, mode pages other than 02/0A/0A-01/1D, multi-page MODE SENSE) are not decided",
]

LIST_FORMATS = {"inquiry.vpd00", "inquiry.vpd80", "inquiry.vpd83", "getlbastatus", "reportluns", "reporttargetportgroups", "reportpriority",
                "readelementstatus", "prin.readkeys", "prin.readfullstatus"}


def shards(tier, seed):
    from vmon.spec import datain as D

    return [{"id": n, "fmt": n, "n": 150 if tier == "quick" else 6000, "small": tier == "quick"} for n in D.FORMATS]


def modes(f, shard):
    if hasattr(f, "walk_modes"):
        for m in f.walk_modes(small=shard["small"]):
            yield m
    if f.name in LIST_FORMATS or f.name.startswith("prin.readres"):
        big = (40, 300, 511, 512, 513, 1024) if shard["small"] else (40, 300, 511, 512, 513, 1024, 1400, 4095, 4096, 4097, 9000)
        edges = (15, 16, 17, 31, 32, 33, 63, 64, 65, 127, 128, 129, 255, 256, 257)
        if not shard["small"]:
            edges = tuple(range(5, 70)) + edges[9:]
        for n in (0, 1, 2, 3, 4) + edges + big:
            if n > 300 and f.name in ("inquiry.vpd83", "prin.readfullstatus", "reportpriority"):
                continue  # 2-byte page length / allocation cannot hold that many
            if f.name == "reporttargetportgroups":
                yield ("count", n, 0)
                yield ("count", n, 1)
            else:
                yield ("count", n)
    if f.name == "inquiry.vpd83":
        from vmon.spec.datain import DESIGNATOR_KINDS

        for k in DESIGNATOR_KINDS:
            for _ in range(3 if shard["small"] else 40):
                yield ("kind", k)
    if f.name == "readcd":
        for lay in f.layouts():
            for tl in (1, 2, 3) if not shard["small"] else (1, 2):
                yield ("layout", lay, tl)
    for _ in range(shard["n"]):
        yield "rand"


def has_descriptor(v):
    for k, x in v.items():
        if isinstance(x, list) and x:
            return True
    return False


def judge(ctx, f, path, v, b, res, wit):
    from vmon.spec import datain as D

    exp = f.expect(v)
    diffs = D.subset_diff(exp, res)
    seen = set()
    import re

    for p, msg in diffs:
        p = re.sub(r"lun\d+", "lun<i>", p)
        key = "C04:%s%s" % (f.name, p)
        if key in seen:
            continue
        seen.add(key)
        ctx.fail(key, "%s via %s: %s %s" % (f.name, path, p, msg), wit)


def run(shard, ctx):
    from vmon import gen, harness
    from vmon.spec import datain as D

    f = D.FORMATS[shard["fmt"]]
    rng = ctx.rng()
    import pyscsi.pyscsi.scsi_enum_command as E

    held = []  # results of earlier decodes the caller still holds: (result object, its printed form when it was returned)
    from vmon.spec import cdb as S, dataout as DO

    builders = [c for c in S.COMMANDS.values() if c.custom]
    it = 0
    for mode in modes(f, shard):
        it += 1
        if it % 9 == 1:
            # the application also *sends* parameter lists between two responses (MODE SELECT after MODE SENSE, PERSISTENT RESERVE
            # OUT, EXTENDED COPY): building them does not change how the next response is decoded
            for c in builders:
                try:
                    harness.construct(c, c.sets[0], DO.GEN[c.custom](rng)[0])
                    ctx.count("parameter_lists_built_in_between")
                except Exception:  # noqa: BLE001
                    pass
        v = f.gen(rng, mode)
        b = f.encode(v)
        nontriv = gen.nonzero(D.strip_private(f.expect(v))) and (f.name not in LIST_FORMATS or has_descriptor(v) or has_descriptor(f.expect(v)))
        for garbage in (False, True):
            buf = bytearray(b)
            if garbage:
                buf += bytes(rng.randrange(1, 256) for _ in range(rng.choice([1, 4, 24, 100])))
            wit = {"format": f.name, "mode": mode, "value": D.strip_private(v), "response": bytes(b), "garbage": garbage}
            ctx.case((f.name, "direct", bytes(buf)), nontriv, sample={"format": f.name, "response": bytes(b), "value": D.strip_private(f.expect(v))}
                     if ctx.want_sample() and not garbage else None)
            ctx.count("unmarshall_calls")
            ctx.add("modes", "%s:%s" % (f.name, mode[0] if isinstance(mode, tuple) else mode))
            variant = (0, 0, 1, 2)[TICK[0] % 4]
            TICK[0] += 1
            ctx.add("call_variants", ("bytearray+keywords", "bytes", "positional")[variant])
            wit["call"] = ("bytearray, keyword arguments", "immutable bytes", "extra arguments by position")[variant]
            try:
                res = f.lib_decode(buf, v, variant)
            except Exception as e:  # noqa: BLE001
                ctx.fail("C04:%s.raises.%s" % (f.name, type(e).__name__), "%s: unmarshall_datain raised %s: %s" % (f.name, type(e).__name__, e), wit, exc=e)
                continue
            judge(ctx, f, "direct", v, b, res, wit)
            # what earlier decodes returned belongs to the caller: decoding another response must not change it
            for old, was in held:
                if repr(old) != was:
                    ctx.fail("C04:%s.earlier_result_changed" % f.name, "%s: a result returned by an earlier decode changed when another response was decoded" % f.name, wit)
                    del held[:]
                    break
            ctx.count("earlier_results_rechecked", len(held))
            if TICK[0] % 3 == 0 and not garbage:
                # the caller works on what he got (edits values in place, empties lists): the same response decoded again -- a device
                # polled twice gives the same bytes -- is decoded to what the device sent, not to the caller's edits
                from vmon.props.c06 import scribble_all

                try:
                    twin = f.lib_decode(bytearray(b), v, 0)
                    scribble_all(twin)
                    if isinstance(twin, dict):
                        for x in twin.values():
                            if isinstance(x, list):
                                del x[:]
                    res2 = f.lib_decode(bytearray(b), v, 0)
                    ctx.count("decoded_again_after_caller_edited_result")
                    judge(ctx, f, "direct, after the caller edited an earlier result of the same response", v, b, res2, wit)
                except Exception as e:  # noqa: BLE001
                    ctx.fail("C04:%s.raises.%s" % (f.name, type(e).__name__), "%s: decoding the same response again raised %s: %s" % (f.name, type(e).__name__, e), wit, exc=e)
            held.append((res, repr(res)))
            if len(held) > 3:
                held.pop(0)
            # through the facade
            call = f.facade(v, len(buf))
            if call is None:
                continue
            method, kw = call

            def fill(cmd, buf=buf):
                n = min(len(buf), len(cmd.datain))
                cmd.datain[:n] = buf[:n]

            dev = harness.Recorder(getattr(E, f.facade_table), fill)
            s = harness.make_facade(dev)
            ctx.case((f.name, "facade", bytes(buf)), nontriv)
            ctx.count("facade_calls")
            try:
                cmd = getattr(s, method)(**kw)
                res = cmd.result
            except Exception as e:  # noqa: BLE001
                ctx.fail("C04:%s.facade_raises.%s" % (f.name, type(e).__name__), "%s: facade %s raised %s: %s" % (f.name, method, type(e).__name__, e),
                         dict(wit, method=method, kwargs=kw), exc=e)
                continue
            if len(cmd.datain) < len(b) and f.name == "readcd":
                # READ CD announces sectors, not bytes: the buffer the facade allocated must hold the sectors it asked for
                ctx.fail("C04:readcd.facade_buffer_too_small", "readcd(%r) allocated %d bytes, the %d requested sectors of this layout are %d bytes"
                         % (kw, len(cmd.datain), v["_tl"], len(b)), dict(wit, method=method, kwargs=kw))
                continue
            judge(ctx, f, "facade", v, b, res, dict(wit, method=method, kwargs=kw))
            if f.name.startswith("readdiscinformation.type") and not garbage:
                # a drive answers with another data type than the one asked for (older drives ignore the DATA TYPE bits and send
                # standard disc information): what is decoded is what the device sent, in the layout its own type field names
                asked = (int(f.name[-1]) + 1 + TICK[0] % 2) % 3
                kw2 = dict(kw, data_type=asked)
                dev2 = harness.Recorder(getattr(E, f.facade_table), fill)
                ctx.count("disc_information_of_another_type_than_asked")
                try:
                    res2 = getattr(harness.make_facade(dev2), method)(**kw2).result
                    judge(ctx, f, "facade, data type %d asked for" % asked, v, b, res2, dict(wit, method=method, kwargs=kw2))
                except Exception as e:  # noqa: BLE001
                    ctx.fail("C04:%s.facade_raises.%s" % (f.name, type(e).__name__), "%s: facade %s(data_type=%d) raised %s: %s" % (f.name, method, asked, type(e).__name__, e),
                             dict(wit, method=method, kwargs=kw2), exc=e)


TICK = [0]


def finalize(merged, tier):
    from vmon.spec import datain as D

    c = merged["counters"]
    if c.get("unmarshall_calls", 0) == 0 or c.get("facade_calls", 0) == 0:
        merged["inconclusive"].append("decoders never reached")
    return {"formats": sorted(D.FORMATS), "reference_gaps": D.REFERENCE_GAPS}


def replay(rec, ctx):
    w = rec["witness"]
    run({"id": w["format"], "fmt": w["format"], "n": 60, "small": True}, ctx)
