"""C19 - the transport bindings are optional; a missing one is refused, not half-used.

One child interpreter per binding-presence configuration (the _has_* flags are
evaluated at import time)."""
import os
import sys

LEVEL = "exploration"
RULE = (
    "4 presence configurations of the sgio / iscsi bindings (stand-in module in sys.modules, or a meta-path blocker that makes "
    "the import raise ImportError), each in its own interpreter: every module under pyscsi is imported; all 42 commands are "
    "built, encoded and decoded; facade methods run over a plain device object; init_device / SCSIDevice / ISCSIDevice are "
    "called with device strings of every class (existing and missing /dev/ nodes, '/dev', '/devx/sg0', 'dev/sg0', ' /dev/sg0', "
    "iscsi:// URLs, 'ISCSI://', 'iscsi:/', '', 'file:///dev/sg0', random strings) x read-only/read-write x default/explicit "
    "initiator name.  sys.addaudithook records open and socket events; the fake iscsi records Context/URL/connect.  distinct = "
    "hash(configuration, entry point, device string, flags); non-trivial = a refusal or a device-opening case"
)
ASSUMPTIONS = ["stand-in modules model binding presence; absence is modelled by an import blocker (the real extensions are not installed here either)"]

CONFIGS = [("none", False, False), ("sgio", True, False), ("iscsi", False, True), ("both", True, True)]


VERSIONS = ["1.1.2", "1.1.10", "1.2.0", "10.0.1", "1.1.19", "2.0"]  # what a binding's package metadata may say


HOSTNAMES = ["x" * 64, "rack12..example", "b\u00fccher-host", "node_01.example", "-edge-.example.", "a" * 63 + "." + "b" * 63 + "." + "c" * 63 + "." + "d" * 59, "UPPER.Example.COM", "localhost"]
INITIATOR_NAMES = ["naa.62004567BA64678D0123456789ABCDEF", "naa.52004567BA64678D", "naa.6001405a1b2c3d4e5f60718293a4b5c6", "NAA.52004567ba64678d", "eui.02004567A425678D",
                   "eui.acde48234667abcd", "EUI.02004567A425678D", "iqn.2001-04.com.example:storage:diskarrays-sn-a8675309", "iqn.2001-04.com.example",
                   "iqn.1993-08.org.debian:01:6e4ac0c1a2b3", "iqn.2001-04.de.b\u00fccher:host-a", "iqn.1991-05.com.microsoft:win-host.corp.example.com",
                   "iqn.2003-01.org.example:" + "n" * 190]


def shards(tier, seed):
    out = [{"id": n, "sgio": s, "iscsi": i, "n": 30 if tier == "quick" else 2500, "version": VERSIONS[(seed + k) % len(VERSIONS)], "fresh_imports": n == "none"} for k, (n, s, i) in enumerate(CONFIGS)]
    # the library as it is installed: built from the tree (setup.py build, what a wheel would contain), not the source directory
    out += [{"id": "built-" + n, "sgio": s, "iscsi": i, "n": 10 if tier == "quick" else 100, "version": VERSIONS[(seed + 3 + k) % len(VERSIONS)], "built": True}
            for k, (n, s, i) in enumerate(CONFIGS) if n in ("none", "both")]
    out += [{"id": "zipped-" + n, "sgio": s, "iscsi": i, "n": 5 if tier == "quick" else 50, "version": VERSIONS[(seed + 1 + k) % len(VERSIONS)], "built": "zip"}
            for k, (n, s, i) in enumerate(CONFIGS) if n in ("none", "both")]
    # both bindings installed, once per release string of their package metadata
    out += [{"id": "both-v" + v, "sgio": True, "iscsi": True, "n": 2, "version": v} for v in VERSIONS]
    # ... and on machines with unusual host names
    out += [{"id": "host-%d" % i, "sgio": True, "iscsi": bool(i % 2 == 0), "n": 2, "version": VERSIONS[i % len(VERSIONS)], "hostname": h} for i, h in enumerate(HOSTNAMES)]
    return out


def use_built_copy(ctx, zipped=False):
    """build the tree under test into a scratch directory and put *that* first on the import path"""
    import shutil
    import subprocess

    from vmon import repo
    from vmon.sim import devnode

    src = os.path.join(devnode.base(), "src")
    out = os.path.join(devnode.base(), "built")
    shutil.copytree(repo.REPO, src, ignore=shutil.ignore_patterns(".git", "build", "*.egg-info", "__pycache__"))
    env = dict(os.environ, SETUPTOOLS_SCM_PRETEND_VERSION="0.0.0")  # the copy carries no git metadata for setuptools_scm
    env.pop("PYTHONWARNINGS", None)
    p = subprocess.run([sys.executable, "setup.py", "-q", "build", "--build-lib", out], cwd=src, env=env, stdout=subprocess.PIPE, stderr=subprocess.STDOUT, timeout=300)
    if p.returncode != 0 or not os.path.isdir(os.path.join(out, "pyscsi")):
        ctx.inconclusive_because("the tree could not be built: %s" % p.stdout.decode(errors="replace")[-300:])
        return False
    if zipped:
        # ... packed into one archive (zipapp / pex style bundles, PYTHONPATH=libs.zip): everything the build put next to the
        # modules is inside the archive, there is no directory on disk
        import zipfile

        arch = os.path.join(out, "libs.zip")
        with zipfile.ZipFile(arch, "w") as z:
            for root, _dirs, files in os.walk(out):
                for fn in files:
                    full = os.path.join(root, fn)
                    if full != arch and "__pycache__" not in full:
                        z.write(full, os.path.relpath(full, out))
        shutil.rmtree(os.path.join(out, "pyscsi"))
        out = arch
        ctx.count("zipped_copies")
    # what the built distribution *requires*: the two bindings are optional (extras), never unconditional requirements
    eggbase = os.path.join(devnode.base(), "egg")
    os.makedirs(eggbase, exist_ok=True)
    p2 = subprocess.run([sys.executable, "setup.py", "-q", "egg_info", "--egg-base", eggbase], cwd=src, env=env, stdout=subprocess.PIPE, stderr=subprocess.STDOUT, timeout=300)
    req = [os.path.join(r, "requires.txt") for r, _d, fs in os.walk(eggbase) if "requires.txt" in fs]
    if p2.returncode == 0:
        ctx.count("distribution_metadata_read")
        unconditional = []
        if req:
            for line in open(req[0]):
                line = line.strip()
                if line.startswith("["):
                    if not line.startswith("[:"):
                        break  # extras follow ('[:marker]' sections are still unconditional requirements under a marker)
                    continue
                if line:
                    unconditional.append(line)
        bad = [r for r in unconditional if any(b in r.lower().replace("_", "-") for b in ("sgio", "iscsi"))]
        ctx.case(("metadata", "requires"), True)
        if bad:
            ctx.fail("C19:%s.binding_is_a_hard_requirement" % "built", "the built distribution requires %r unconditionally: the library cannot be installed without that binding" % bad, {"requires": unconditional})
    if zipped is None:
        pass
    sys.path[:] = [out] + [x for x in sys.path if os.path.realpath(x) != repo.REPO]
    # the development install of /repo (an editable finder at the end of sys.meta_path) would answer for whatever the built copy lacks
    sys.meta_path[:] = [f for f in sys.meta_path if "__editable__" not in str(getattr(f, "__module__", "")) and "Editable" not in type(f).__name__]
    ctx.count("built_copies")
    return True


def binding_metadata(shard):
    """dist-info directories as an installed cython-sgio / cython-iscsi leaves them, with this shard's version string"""
    from vmon.sim import devnode

    site = os.path.join(devnode.base(), "site")
    for present, dist in ((shard["sgio"], "cython_sgio"), (shard["iscsi"], "cython_iscsi")):
        if present:
            d = os.path.join(site, "%s-%s.dist-info" % (dist, shard["version"]))
            os.makedirs(d, exist_ok=True)
            with open(os.path.join(d, "METADATA"), "w") as f:
                f.write("Metadata-Version: 2.1\nName: %s\nVersion: %s\n" % (dist.replace("_", "-"), shard["version"]))
            open(os.path.join(d, "RECORD"), "w").close()
            open(os.path.join(d, "INSTALLER"), "w").write("pip\n")
    sys.path.append(site)


class Blocker:
    def __init__(self, names):
        self.names = names

    def find_spec(self, name, path=None, target=None):
        if name in self.names:
            raise ImportError("blocked for this configuration: %s" % name)
        return None


def traveling_devices(ctx, cfg, shard, sdm, idm):
    import base64
    import json
    import pickle
    import subprocess

    from vmon import repo as _repo
    from vmon.sim import devnode

    made = []
    if shard["sgio"]:
        node = devnode.new_node("sg77")
        try:
            made.append(("SCSIDevice", sdm.SCSIDevice(node, True), node))
        except Exception:  # noqa: BLE001
            pass
    if shard["iscsi"]:
        try:
            made.append(("ISCSIDevice", idm.ISCSIDevice("iscsi://192.0.2.9:3260/iqn.2003-01.org.example:t/2", "iqn.2003-01.org.example:travel"), None))
        except Exception:  # noqa: BLE001
            pass
    for name, dev, node in made:
        blobs = []
        for proto in range(2, pickle.HIGHEST_PROTOCOL + 1):
            try:
                blobs.append((proto, pickle.dumps(dev, proto)))
            except Exception:  # noqa: BLE001
                ctx.count("device_objects_that_do_not_pickle")
        try:
            dev.close()
        except Exception:  # noqa: BLE001
            pass
        for proto, blob in blobs[:2]:
            code = (
                "import sys, json, pickle, base64\n"
                "sys.path.insert(0, %r)\n"
                "sys.modules['sgio'] = None; sys.modules['iscsi'] = None\n"
                "opened = []\n"
                "def hook(ev, args):\n"
                "    if ev == 'open' and isinstance(args[0], str) and args[0].startswith('/dev/'): opened.append(args[0])\n"
                "    if ev.startswith('socket.connect'): opened.append(ev)\n"
                "sys.addaudithook(hook)\n"
                "out = {}\n"
                "try:\n"
                "    d = pickle.loads(base64.b64decode(%r))\n"
                "    out['loaded'] = type(d).__name__\n"
                "except BaseException as e:\n"
                "    out['raised'] = type(e).__name__\n"
                "out['opened'] = opened\n"
                "print(json.dumps(out))\n"
            ) % (_repo.REPO, base64.b64encode(blob).decode())
            p = subprocess.run([sys.executable, "-B", "-c", code], stdout=subprocess.PIPE, stderr=subprocess.PIPE, timeout=120)
            ctx.case((cfg, "traveling-device", name, proto), True)
            ctx.count("device_objects_sent_to_an_interpreter_without_bindings")
            try:
                r = json.loads(p.stdout.decode().strip().splitlines()[-1])
            except Exception:  # noqa: BLE001
                ctx.inconclusive_because("the receiving interpreter gave no answer: %s" % p.stderr.decode(errors="replace")[-200:])
                continue
            wit = {"configuration": cfg, "device": name, "pickle_protocol": proto, "receiver": r}
            if r.get("opened"):
                ctx.fail("C19:neither.traveling_device_opened_without_binding", "a %s pickled where its binding is installed and loaded where it is missing opened %r" % (name, r["opened"]), wit)
            elif r.get("raised") != "NotImplementedError":
                ctx.fail("C19:neither.traveling_device_not_refused", "a %s pickled where its binding is installed and loaded where it is missing: %s, not NotImplementedError"
                         % (name, "came up as a %s" % r["loaded"] if "loaded" in r else "raised %s" % r.get("raised")), wit)


def run(shard, ctx):
    import importlib
    import pkgutil
    import socket

    from vmon.sim import devnode, fake_iscsi, fake_sgio

    if "pyscsi.pyscsi.scsi_device" in sys.modules or "pyscsi.pyiscsi.iscsi_device" in sys.modules:
        ctx.inconclusive_because("pyscsi device modules were imported before the configuration was set up")
        return
    cfg = shard["id"]
    if shard.get("hostname") is not None:
        # the machine's host name is part of the environment (it ends up in the default initiator name): any name the system
        # allows -- a 64-character label, empty labels, characters outside ASCII, underscores
        socket.gethostname = lambda _h=shard["hostname"]: _h
        ctx.count("configurations_with_unusual_host_names")
    if shard.get("built") and not use_built_copy(ctx, zipped=shard.get("built") == "zip"):
        return
    binding_metadata(shard)
    ctx.add("binding_versions", shard["version"])
    blocked = []
    if shard["sgio"]:
        sys.modules["sgio"] = fake_sgio.make_module()
    else:
        sys.modules.pop("sgio", None)
        blocked.append("sgio")
    if shard["iscsi"]:
        sys.modules["iscsi"] = fake_iscsi.make_module()
    else:
        sys.modules.pop("iscsi", None)
        blocked.append("iscsi")
    sys.meta_path.insert(0, Blocker(blocked))
    audit = []

    def hook(event, args):
        if event == "open":
            audit.append(("open", args[0], args[2] & os.O_ACCMODE if isinstance(args[2], int) else args[1]))
        elif event.startswith("socket.") and event not in ("socket.gethostname", "socket.__new__"):
            audit.append((event,) + tuple(map(str, args[:2])))

    sys.addaudithook(hook)

    # 1. every module imports
    try:
        import pyscsi
    except Exception as e:  # noqa: BLE001
        ctx.case((cfg, "import", "pyscsi"), True)
        ctx.fail("C19:%s.import_fails.pyscsi" % cfg, "import pyscsi raised %s: %s" % (type(e).__name__, e), {"configuration": cfg, "module": "pyscsi"}, exc=e)
        return
    where = os.path.realpath(pyscsi.__file__)
    if bool(shard.get("built")) != (os.sep + "built" + os.sep in where):
        ctx.inconclusive_because("pyscsi was imported from %s in configuration %s" % (where, cfg))
        return

    mods = []

    def walk_error(name):
        e = sys.exc_info()[1]
        ctx.case((cfg, "import", name), True)
        ctx.fail("C19:%s.import_fails.%s" % (cfg, name.split(".")[-1]), "import %s raised %s: %s" % (name, type(e).__name__, e), {"configuration": cfg, "module": name}, exc=e)

    for mi in pkgutil.walk_packages(pyscsi.__path__, "pyscsi.", onerror=walk_error):
        ctx.case((cfg, "import", mi.name), True, sample={"configuration": cfg, "import": mi.name} if ctx.want_sample() else None)
        try:
            importlib.import_module(mi.name)
            mods.append(mi.name)
        except Exception as e:  # noqa: BLE001
            ctx.fail("C19:%s.import_fails.%s" % (cfg, mi.name.split(".")[-1]), "import %s raised %s: %s" % (mi.name, type(e).__name__, e), {"configuration": cfg, "module": mi.name}, exc=e)
    ctx.count("modules_imported", len(mods))
    # the same modules the way programs (and the library itself) spell it -- `import a.b.c as m`, `from a.b import c`, attribute
    # access from the top package, importlib.reload -- reach the very module objects
    import functools

    for name in mods:
        ns = {}
        parent, _dot, leaf = name.rpartition(".")
        for how, stmt in (("import ... as", "import %s as m" % name), ("from ... import", "from %s import %s as m" % (parent, leaf))):
            try:
                exec(stmt, ns)
                ok = ns["m"] is sys.modules[name]
                err = None
            except Exception as e:  # noqa: BLE001
                ok, err = False, e
            ctx.count("import_spellings_tried")
            if not ok:
                ctx.fail("C19:%s.import_spelling_fails" % cfg, "`%s` %s" % (stmt, "raised %s: %s" % (type(err).__name__, err) if err else "gives another object than sys.modules[%r]" % name),
                         {"configuration": cfg, "module": name, "statement": stmt}, exc=err)
                break
        try:
            if functools.reduce(getattr, name.split(".")[1:], sys.modules["pyscsi"]) is not sys.modules[name]:
                raise AttributeError("another object")
        except AttributeError as e:
            ctx.fail("C19:%s.import_spelling_fails" % cfg, "attribute access %s from the top package: %s" % (name, e), {"configuration": cfg, "module": name, "statement": "attribute access"}, exc=e)
    if any("import_spelling_fails" in k for k in ctx.failures):
        return  # nothing further can be driven in a configuration whose modules cannot be imported the usual way
    if shard.get("fresh_imports"):
        # ... and each module as the *first* thing a fresh interpreter imports after `import pyscsi` (no other import has run that
        # could have repaired anything), in both spellings
        import concurrent.futures
        import subprocess

        from vmon import repo as _repo

        top = os.path.dirname(os.path.dirname(os.path.realpath(pyscsi.__file__)))

        def fresh(modname):
            parent, _dot, leaf = modname.rpartition(".")
            out = []
            for stmt in ("import %s as m" % modname, "from %s import %s as m" % (parent, leaf)):
                code = "import sys; sys.path.insert(0, %r); import pyscsi; %s; assert m is sys.modules[%r]" % (top, stmt, modname)
                p = subprocess.run([sys.executable, "-B", "-S", "-c", code], stdout=subprocess.PIPE, stderr=subprocess.PIPE, timeout=120,
                                   env=dict(os.environ, PYTHONPATH=os.pathsep.join(x for x in sys.path if x and "site-packages" in x)))
                out.append((stmt, p.returncode, p.stderr.decode(errors="replace")[-300:]))
            return modname, out

        with concurrent.futures.ThreadPoolExecutor(8) as ex:
            for modname, res in ex.map(fresh, [m for m in mods if m.count(".") >= 1]):
                for stmt, rc, err in res:
                    ctx.case((cfg, "fresh-import", stmt), True)
                    ctx.count("fresh_interpreter_imports")
                    if rc != 0:
                        ctx.fail("C19:%s.import_spelling_fails" % cfg, "in a fresh interpreter, after `import pyscsi`: `%s` fails: %s" % (stmt, err.strip().splitlines()[-1] if err.strip() else rc),
                                 {"configuration": cfg, "module": modname, "statement": stmt})
                        break
    try:
        import pyscsi.pyiscsi.iscsi_device as idm
        import pyscsi.pyscsi.scsi_device as sdm
    except Exception as e:  # noqa: BLE001
        ctx.fail("C19:%s.device_module_unimportable" % cfg, "device modules cannot be imported in configuration %s: %s: %s" % (cfg, type(e).__name__, e),
                 {"configuration": cfg}, exc=e)
        return

    if (sdm._has_sgio and not shard["sgio"]) or (idm._has_iscsi and not shard["iscsi"]):
        ctx.inconclusive_because("configuration %s not in effect: _has_sgio=%s _has_iscsi=%s" % (cfg, sdm._has_sgio, idm._has_iscsi))
        return
    if (shard["sgio"] and not sdm._has_sgio) or (shard["iscsi"] and not idm._has_iscsi):
        # the stand-in is importable (it sits in sys.modules) and carries the metadata of an installed release: the library itself
        # decided not to use it
        ctx.case((cfg, "binding recognised"), True)
        ctx.fail("C19:%s.present_binding_not_used" % cfg, "the %s binding is installed (release %s) but the library treats it as missing (_has_sgio=%s _has_iscsi=%s)"
                 % ("sgio" if shard["sgio"] and not sdm._has_sgio else "iscsi", shard["version"], sdm._has_sgio, idm._has_iscsi), {"configuration": cfg, "binding_release": shard["version"]})
        return

    # 2. every command builds / encodes / decodes
    from vmon import harness
    from vmon.spec import cdb as S, dataout as DO

    rng = ctx.rng()
    for c in S.COMMANDS.values():
        a = DO.GEN[c.custom](rng)[0] if c.custom else harness.random_args(c, rng, cap=4096)
        ctx.case((cfg, "command", c.name), True)
        try:
            cmd = harness.construct(c, c.sets[0], a)
            d = c.load().unmarshall_cdb(cmd.cdb)
            if bytes(c.load().marshall_cdb(d)) != bytes(cmd.cdb):
                ctx.fail("C19:%s.command_roundtrip" % cfg, "%s does not round-trip" % c.name, {"configuration": cfg, "cmd": c.name})
            ctx.count("commands_built")
        except Exception as e:  # noqa: BLE001
            ctx.fail("C19:%s.command_unusable" % cfg, "%s: %s: %s" % (c.name, type(e).__name__, e), {"configuration": cfg, "cmd": c.name}, exc=e)

    # 3. facade over a plain device object
    import pyscsi.pyscsi.scsi_enum_command as E
    from pyscsi.pyscsi.scsi import SCSI

    class Plain:
        def __init__(self):
            self.opcodes = E.spc
            self.n = 0

        def execute(self, cmd, en_raw_sense=False):
            self.n += 1

        def close(self):
            pass

    # "any device object": also one that is a container of its own command log (empty, hence false, until the first command),
    # one whose truth value reports something else, one that compares equal to None or to everything
    class LogList(list):
        opcodes = E.spc

        def execute(self, cmd, en_raw_sense=False):
            self.append(bytes(cmd.cdb))

        n = property(len)

        def close(self):
            pass

    class Unconnected(Plain):
        def __bool__(self):
            return False

    class Sized(Plain):
        def __len__(self):
            return 0

    class EqualsAnything(Plain):
        def __eq__(self, other):
            return True

        def __ne__(self, other):
            return False

        __hash__ = object.__hash__

    class Slotted:
        __slots__ = ("opcodes", "n", "devicetype")

        def __init__(self):
            self.opcodes = E.spc
            self.n = 0

        def execute(self, cmd, en_raw_sense=False):
            self.n += 1

        def close(self):
            pass

    # ... and device objects whose execute() declares the flag in another legitimate way: keyword-only, or swallowed by **kwargs
    # (a wrapper that forwards to a real device)
    class KeywordOnly(Plain):
        def execute(self, cmd, *, en_raw_sense=False):
            self.n += 1

    class Forwarding(Plain):
        def execute(self, cmd, **kwargs):
            if set(kwargs) - {"en_raw_sense"}:
                raise TypeError("unexpected %r" % sorted(kwargs))
            self.n += 1

    class ExtraOptions(Plain):
        def execute(self, cmd, en_raw_sense=False, timeout=30, retries=0):
            self.n += 1

    class ClosesTrue(Plain):
        def close(self):
            return True

    class ClosesSelf(Plain):
        def close(self):
            return self

    class ClosesCount(Plain):
        def close(self):
            return 1

    # an application's device that is a context manager of its own (a bus lock taken for a batch, a pooled session): however the
    # facade treats it, what it enters it leaves
    class OwnContext(Plain):
        entered = 0
        left = 0
        closed = 0

        def __enter__(self):
            type(self).entered += 1
            self.held = getattr(self, "held", 0) + 1
            return self

        def __exit__(self, *exc):
            type(self).left += 1
            self.held -= 1
            return False

        def close(self):
            self.closed += 1

    # a device that fails the attach probe (busy, a pending unit attention) is still the caller's: the facade does not close it
    class FailsOnce(Plain):
        closes = 0

        def execute(self, cmd, en_raw_sense=False):
            self.n += 1
            if self.n == 1:
                raise OSError(16, "device busy")

        def close(self):
            self.closes += 1

    for reattach in (False, True):
        fo = FailsOnce()
        ctx.case((cfg, "facade-plain", "attach fails", reattach), True)
        try:
            if reattach:
                s = SCSI(Plain(), 512)
                s(fo)
            else:
                SCSI(fo, 512)
            ctx.fail("C19:%s.facade_plain_device" % cfg, "the attach probe raised in the device, SCSI(dev) returned normally", {"configuration": cfg, "device_object": "FailsOnce"})
        except OSError:
            pass
        except Exception as e:  # noqa: BLE001
            ctx.fail("C19:%s.facade_plain_device" % cfg, "the attach probe raised OSError in the device, the caller got %s" % type(e).__name__, {"configuration": cfg, "device_object": "FailsOnce"}, exc=e)
        if fo.closes:
            ctx.fail("C19:%s.facade_closed_the_callers_device" % cfg, "after an attach whose probe failed the facade had called close() on the caller's device object (%d times)" % fo.closes,
                     {"configuration": cfg, "device_object": "FailsOnce", "attached_by": "s(dev)" if reattach else "SCSI(dev)"})
        else:
            try:
                s2 = SCSI(fo, 512)  # the retry works on the same object
                s2.testunitready()
            except Exception as e:  # noqa: BLE001
                ctx.fail("C19:%s.facade_plain_device" % cfg, "the retry of the attach over the same device object raised %s" % e, {"configuration": cfg, "device_object": "FailsOnce"}, exc=e)

    for kind in (Plain, LogList, Unconnected, Sized, EqualsAnything, Slotted, KeywordOnly, Forwarding, ExtraOptions, ClosesTrue, ClosesSelf, ClosesCount, OwnContext):
        for reattach in (False, True):
            wit = {"configuration": cfg, "device_object": kind.__name__, "attached_by": "s(dev)" if reattach else "SCSI(dev)"}
            ctx.case((cfg, "facade-plain", kind.__name__, reattach), True)
            try:
                p = kind()
                if reattach:
                    s = SCSI(Plain(), 512)
                    s(p)
                else:
                    s = SCSI(p, 512)
                s.testunitready()
                s.read10(1, 1)
                s.inquiry(evpd=1, page_code=0x80)
                with s:
                    pass
                # an exception raised inside the with block reaches the caller, whatever the device's close() returns
                try:
                    with s:
                        raise LookupError("raised inside the with block")
                except LookupError:
                    pass
                else:
                    ctx.fail("C19:%s.facade_plain_device" % cfg, "facade over a plain device object (%s): an exception raised inside `with SCSI(dev)` did not reach the caller" % kind.__name__, wit)
                if kind is OwnContext:
                    ctx.count("own_context_devices")
                    if getattr(p, "held", 0) != 0:
                        ctx.fail("C19:%s.facade_left_device_context_entered" % cfg, "a device object that is a context manager of its own was entered %d times more than it was left by two `with SCSI(dev)` blocks"
                                 % p.held, wit)
                if p.n != 4 or p.opcodes is not E.sbc or getattr(p, "devicetype", None) != 0:
                    ctx.fail("C19:%s.facade_plain_device" % cfg, "facade over a plain device object (%s): %d commands reached it (1 INQUIRY + 3 expected), command set %r, devicetype %r"
                             % (kind.__name__, p.n, p.opcodes, getattr(p, "devicetype", None)), wit)
                ctx.count("facade_plain_ok")
            except Exception as e:  # noqa: BLE001
                ctx.fail("C19:%s.facade_plain_device" % cfg, "facade over a plain device object (%s) raised %s: %s" % (kind.__name__, type(e).__name__, e), wit, exc=e)

    # a device object that travels (pickle: a worker pool, a job queue) from this configuration into an interpreter where the
    # bindings are missing: if it can be sent at all, it is refused there like any other request for that transport, and no file
    # is opened for it
    if shard["sgio"] or shard["iscsi"]:
        traveling_devices(ctx, cfg, shard, sdm, idm)

    # application subclasses of the device classes with an opener of their own (O_NONBLOCK / O_EXCL for sg nodes, a login with
    # digests or CHAP) that does not delegate: a request the transport has to refuse is refused before that opener runs
    class OwnOpenS(sdm.SCSIDevice):
        ran = []

        def open(self, *a, **kw):
            type(self).ran.append(a)

    class OwnOpenI(idm.ISCSIDevice):
        ran = []

        def open(self, *a, **kw):
            type(self).ran.append(a)

    refuse_s = ["iscsi://192.0.2.1/iqn.2003-01.org.example:t/0", "sda", "", "dev/sg0", "/DEV/sg0", "file:///dev/sg0"] + ([] if shard["sgio"] else [os.path.join(devnode.base(), "sg5"), "/dev/sg0"])
    refuse_i = ["/dev/sg0", "iscsi:/192.0.2.1/x/0", "ISCSI://192.0.2.1/x/0", "", "http://192.0.2.1/x/0"] + ([] if shard["iscsi"] else ["iscsi://192.0.2.1:3260/iqn.2003-01.org.example:t/0"])
    for kls, strings, label in ((OwnOpenS, refuse_s, "SCSIDevice"), (OwnOpenI, refuse_i, "ISCSIDevice")):
        for dstr in strings:
            del kls.ran[:]
            ctx.case((cfg, "subclass-own-open", label, dstr), True)
            ctx.count("subclass_openers_probed")
            try:
                kls(dstr)
                got = "an object"
            except NotImplementedError:
                got = None
            except Exception as e:  # noqa: BLE001
                got = "%s: %s" % (type(e).__name__, e)
            wit = {"configuration": cfg, "class": "subclass of %s with its own open()" % label, "device_string": dstr}
            if got is not None:
                ctx.fail("C19:%s.not_refused.subclass_with_own_open.%s" % (cfg, label), "a subclass of %s with its own open(), asked for %r, gave %s instead of NotImplementedError" % (label, dstr, got), wit)
            elif kls.ran:
                ctx.fail("C19:%s.opened_before_refusing.subclass_with_own_open.%s" % (cfg, label), "the subclass's opener ran for %r before the refusal" % dstr, wit)

    # 4./5. device strings
    from pyscsi.utils import init_device

    node = devnode.new_node()
    missing = os.path.join(devnode.base(), "does-not-exist")
    # node names as they occur under /dev (generic, disk, tape, optical, nvme, by-id links in a sub-directory)
    os.makedirs(os.path.join(devnode.base(), "disk", "by-id"), exist_ok=True)
    more_nodes = [devnode.new_node(n) for n in ("sg12", "sda", "sdb1", "st0", "nst0", "sr0", "sr1", "scd0", "cdrom", "cdrw", "dvd", "nvme0n1", "bsg-0:0:0:0")]
    more_nodes.append(devnode.new_node(os.path.join("disk", "by-id", "wwn-0x5000c500a1b2c3d4"), link=True))
    # names the library's source spells out and the recorded baseline does not have (vmon/srcdict.py; none on the unchanged tree)
    import re as _re

    from vmon import srcdict

    for lit in srcdict.novel_strings()[:40]:
        for word in _re.findall(r"[A-Za-z][A-Za-z0-9_-]{1,15}", lit)[:4]:
            for nm in (word, word + "0", word + "1"):
                if not os.path.lexists(os.path.join(devnode.base(), nm)):
                    more_nodes.append(devnode.new_node(nm))
                    ctx.count("node_names_from_source_literals")
    # a udev link resolved by hand (dirname(link) + readlink(link)): '..' components that stay inside the device directory
    more_nodes.append(os.path.join(devnode.base(), "disk", "by-id", "..", "..", "sda"))
    more_nodes.append(os.path.join(devnode.base(), "disk", "..", "sr0"))
    more_nodes.append(os.path.join(devnode.base(), ".", "st0"))
    more_nodes.append(devnode.base() + os.sep + os.sep + "sdb1")
    strings = [node, missing] + more_nodes + [
               "iscsi://user%secret@192.0.2.7:3260/iqn.2003-01.org.example:t/1", "iscsi://user@192.0.2.7/iqn.2003-01.org.example:t/2",
               "iscsi://[2001:db8::7]:3260/iqn.2003-01.org.example:t/0", "iscsi://chap%pass%word@h:1/iqn.x:y/255", "/dev", "/devx/sg0", "dev/sg0", " /dev/sg0", "/DEV/sg0", "iscsi://192.0.2.7:3260/iqn.2003-01.org.example:t/0",
               "iscsi://h/iqn/0", "ISCSI://h/iqn/0", "iscsi:/h/iqn/0", "iscsi//h", "", "file:///dev/sg0", "sg0", "\\\\.\\PhysicalDrive0",
               # strings a URL *parser* would reject or normalise (unbalanced brackets in a CHAP secret or host, hosts in brackets
               # that are no IP literal, full-width look-alikes of / ? # @ :): the library does not parse, the binding does
               "iscsi://backup%Xk2[9qLm7Zp4@192.0.2.7:3260/iqn.2003-01.org.example:t/1", "iscsi://u%p]w@192.0.2.7/iqn.2003-01.org.example:t/0", "iscsi://[not-an-ip]:3260/iqn.x:y/0",
               "iscsi://[2001:db8::7/iqn.x:y/0", "iscsi://h\uff0fx/iqn.x:y/0", "iscsi://user\uff20h/iqn.x:y/0", "iscsi://h:3260/iqn.x:y/0?opt=1#frag", "iscsi://h:port/iqn.x:y/0", "iscsi://h:99999/iqn.x:y/0",
               "nbd://[2001:db8::7/export", "rbd://pool]/image", "http://[::1", "x://\uff03", "nbd://h\uff1a1/x",
               # logical unit numbers beyond one byte (the binding does the wire encoding, the library passes the number on)
               "iscsi://192.0.2.7:3260/iqn.2003-01.org.example:t/256", "iscsi://192.0.2.7:3260/iqn.2003-01.org.example:t/300",
               "iscsi://192.0.2.7:3260/iqn.2003-01.org.example:t/4660", "iscsi://192.0.2.7:3260/iqn.2003-01.org.example:t/16383",
               "iscsi://192.0.2.7:3260/iqn.2003-01.org.example:t/16384", "iscsi://192.0.2.7:3260/iqn.2003-01.org.example:t/65535",
               # unsupported strings with characters that mean something to string formatting
               "iscsi:/user%secret@h/iqn/0", "ISCSI://user%secret@h/t/1", "file:///dev/disk%201.img", "nbd://host/export%2Fa", "%s", "%d", "100%", "/devx/%s",
               "{}", "{0}", "{dev}", "nbd://{host}/x", "\\N{BULLET}", "a\nb", "dev\x00"]
    for _ in range(shard["n"]):
        strings.append("".join(rng.choice("abc/:de.v-_ 0%{}s") for _ in range(rng.randint(1, 14))))
    # device arguments that are not str at all (a path as bytes, a one-element list ...): neither transport handles them
    strings += [node.encode(), bytearray(node.encode()), os.fsencode(more_nodes[0]), [node], (node,), b"iscsi://h/iqn/0", ["iscsi://h/iqn/0"]]
    isc = sys.modules.get("iscsi")
    default_iqn = "iqn.2018-01.org.pyscsi:%s" % socket.gethostname()
    # an open that the system refuses (write-protected medium, a node the user may not write, a busy unit): the refusal reaches
    # the caller; a device that silently holds a handle of another access mode than was asked for is not "opened as requested"
    if shard["sgio"]:
        import errno as _errno

        import builtins as _bi

        state = {"errno": None, "modes": ()}

        def failing_open(path, mode="r", *a, **kw):
            if state["errno"] is not None and path == node and (not state["modes"] or any(ch in mode for ch in state["modes"])):
                raise OSError(state["errno"], os.strerror(state["errno"]), path)
            return _bi.open(path, mode, *a, **kw)

        sdm.open = failing_open
        try:
            for err in (_errno.EACCES, _errno.EROFS, _errno.EPERM, _errno.EBUSY, _errno.ENXIO, _errno.ENOMEDIUM, _errno.EMFILE, _errno.EIO):
                for rw, modes in ((True, "+w"), (True, ""), (False, "")):
                    for entry in ("init_device", "SCSIDevice"):
                        state["errno"], state["modes"] = err, modes
                        wit = {"configuration": cfg, "entry": entry, "device": node, "readwrite": rw, "open_fails_with": _errno.errorcode[err], "only_when_writing": bool(modes)}
                        ctx.case((cfg, "open-refused", entry, rw, err, modes), True)
                        ctx.count("refused_opens")
                        try:
                            obj = init_device(node, rw) if entry == "init_device" else sdm.SCSIDevice(node, rw)
                            exc = None
                        except Exception as e:  # noqa: BLE001
                            obj, exc = None, e
                        state["errno"] = None
                        if obj is not None:
                            import fcntl

                            f = getattr(obj, "_file", None)
                            fl = fcntl.fcntl(f.fileno(), fcntl.F_GETFL) & os.O_ACCMODE if f is not None and not f.closed else None
                            ctx.fail("C19:%s.refused_open_not_reported" % cfg, "%s(%r, read_write=%s): the open was refused with %s, yet a device was returned (its handle has access mode %r, asked for %s)"
                                     % (entry, "node", rw, _errno.errorcode[err], fl, "O_RDWR" if rw else "O_RDONLY"), wit)
                            try:
                                obj.close()
                            except Exception:  # noqa: BLE001
                                pass
                        elif not isinstance(exc, OSError) or exc.errno != err:
                            ctx.fail("C19:%s.refused_open_reported_as_something_else" % cfg, "%s: the open was refused with %s, the caller got %r" % (entry, _errno.errorcode[err], exc), wit, exc=exc)
        finally:
            del sdm.open
    n_iscsi = 0
    # relative device strings ("sg0", "%d" ...) must open nothing; a changed tree that does open them would create files in the
    # working directory, so the loop runs inside the scratch device directory (removed with it), never in the checkout
    _cwd_names = os.path.join(devnode.base(), "cwd")
    os.makedirs(_cwd_names, exist_ok=True)
    os.chdir(_cwd_names)
    for dev in strings:
        # read_write is a truth value: whatever is true asks for a read-write handle
        rws = (False, True) if dev not in (node, more_nodes[1]) else (False, True, 0, 1, 2, 3, "rw", 1.5, os.O_RDWR, None, "", [], [1])
        for rw in rws:
            klass = "other" if not isinstance(dev, str) else "sgio" if dev[:5] == "/dev/" else "iscsi" if dev[:8] == "iscsi://" else "other"
            inames = (None, "iqn.2003-01.org.example:explicit")
            if klass == "iscsi":
                # initiator names in every format RFC 3720/3980 define (and the case variants they allow)
                n_iscsi += 1
                inames += tuple(INITIATOR_NAMES[(n_iscsi * 3 + j) % len(INITIATOR_NAMES)] for j in range(3))
            for iname in inames:
                for entry in ("init_device", "SCSIDevice", "ISCSIDevice"):
                    if entry == "SCSIDevice" and iname is not None:
                        continue
                    if entry == "ISCSIDevice" and rw:
                        continue
                    del audit[:]
                    if isc is not None:
                        del isc.calls[:]
                    wit = {"configuration": cfg, "entry": entry, "device": dev, "readwrite": rw, "initiator_name": iname}
                    try:
                        if entry == "init_device":
                            obj = init_device(dev, rw) if iname is None else init_device(dev, rw, iname)
                        elif entry == "SCSIDevice":
                            obj = sdm.SCSIDevice(dev, rw)
                        else:
                            obj = idm.ISCSIDevice(dev, iname or "")
                        exc = None
                    except Exception as e:  # noqa: BLE001
                        obj, exc = None, e
                    opens = [a for a in audit if a[0] == "open" and (a[1] == dev or (not isinstance(dev, str) and str(a[1]).startswith(("/dev/", "b'/dev/"))))]
                    socks = [a for a in audit if a[0] != "open"]
                    conns = list(isc.calls) if isc is not None else []
                    want_sg = klass == "sgio" and entry in ("init_device", "SCSIDevice") and shard["sgio"]
                    want_is = klass == "iscsi" and entry in ("init_device", "ISCSIDevice") and shard["iscsi"]
                    ctx.case((cfg, entry, dev if isinstance(dev, str) else repr(dev), repr(rw), iname), True, sample=dict(wit, outcome=type(exc).__name__ if exc else type(obj).__name__) if ctx.want_sample() else None)
                    ctx.add("string_classes", "%s:%s" % (klass, entry))
                    ctx.count("device_string_cases")
                    if socks:
                        ctx.fail("C19:%s.socket_activity" % cfg, "socket events %r" % socks[:2], wit)
                    if want_sg:
                        if dev == missing:
                            # read-only: the OS reports the missing node; read-write ('w+b') creates the file by definition of the mode
                            if not rw and not isinstance(exc, OSError):
                                ctx.fail("C19:%s.missing_node" % cfg, "missing node gave %r" % (exc or obj), wit)
                            if obj is not None:
                                obj.close()
                            if os.path.exists(missing):
                                os.unlink(missing)
                        elif exc is not None or type(obj).__name__ != "SCSIDevice":
                            ctx.fail("C19:%s.sgio_device_not_returned" % cfg, "%s(%r) gave %r" % (entry, dev, exc or obj), wit, exc=exc)
                        else:
                            mode = os.O_RDWR if rw else os.O_RDONLY
                            if [a[2] for a in opens] != [mode]:
                                ctx.fail("C19:%s.open_path_or_mode" % cfg, "opens on the requested path: %r, expected exactly one with access mode %s"
                                         % (opens, "O_RDWR" if rw else "O_RDONLY"), wit)
                            other = [a for a in audit if a[0] == "open" and a[1] != dev and str(a[1]).startswith("/dev/")]
                            if other:
                                ctx.fail("C19:%s.opened_other_path" % cfg, "opened %r" % other, wit)
                            # the descriptor the binding will get really has the requested access mode
                            import fcntl

                            from pyscsi.pyscsi.scsi_cdb_testunitready import TestUnitReady

                            sgm = sys.modules["sgio"]
                            sgm.log = []
                            try:
                                obj.execute(TestUnitReady(E.spc.TEST_UNIT_READY))
                                if bytes(sgm.log[0]["cdb"]) != bytes(6):
                                    ctx.fail("C19:%s.first_command_altered" % cfg, "TEST UNIT READY on the device opened on %r reached the binding as %s" % (dev, bytes(sgm.log[0]["cdb"]).hex()), wit)
                                fl = fcntl.fcntl(sgm.log[0]["file"].fileno(), fcntl.F_GETFL) & os.O_ACCMODE
                                if fl != mode:
                                    ctx.fail("C19:%s.handle_access_mode" % cfg, "read_write=%s but the handle given to the binding has access mode %d" % (rw, fl), wit)
                                if os.fstat(sgm.log[0]["file"].fileno()).st_ino != os.stat(dev).st_ino:
                                    ctx.fail("C19:%s.handle_not_on_requested_path" % cfg, "the handle given to the binding is not the node at the requested path", wit)
                                ctx.count("binding_handles_inspected")
                            except Exception as e:  # noqa: BLE001
                                ctx.fail("C19:%s.first_command_fails" % cfg, "first command on the new device raised %s" % e, wit, exc=e)
                            obj.close()
                    elif want_is:
                        if exc is not None or type(obj).__name__ != "ISCSIDevice":
                            ctx.fail("C19:%s.iscsi_device_not_returned" % cfg, "%s(%r) gave %r" % (entry, dev, exc or obj), wit, exc=exc)
                        else:
                            urls = [c[1] for c in conns if c[0] == "URL"]
                            names = [c[1] for c in conns if c[0] == "Context"]
                            want_name = iname if iname is not None else (default_iqn if entry == "init_device" else dev)
                            if urls != [dev] or not any(c[0] == "connect" for c in conns):
                                ctx.fail("C19:%s.iscsi_url" % cfg, "URL calls %r, connect %r" % (urls, [c for c in conns if c[0] == "connect"]), wit)
                            if names != [want_name]:
                                ctx.fail("C19:%s.iscsi_initiator_name" % cfg, "Context(%r), expected %r" % (names, want_name), wit)
                            # portal, target and logical unit are the ones the binding parsed from exactly that URL
                            ref_url = isc.URL(None, dev)
                            del isc.calls[-1:]
                            connects = [c for c in conns if c[0] == "connect"]
                            if connects and connects != [("connect", ref_url.portal, ref_url.lun)]:
                                ctx.fail("C19:%s.iscsi_connect_arguments" % cfg, "connect%r, the URL names portal %r lun %r" % (connects[0][1:], ref_url.portal, ref_url.lun), wit)
                            targets = [c[1] for c in conns if c[0] == "set_targetname"]
                            if targets and targets != [ref_url.target]:
                                ctx.fail("C19:%s.iscsi_target_name" % cfg, "set_targetname%r, the URL names %r" % (targets, ref_url.target), wit)
                            from pyscsi.pyscsi.scsi_cdb_testunitready import TestUnitReady

                            isc.log = []
                            try:
                                obj.execute(TestUnitReady(E.spc.TEST_UNIT_READY))
                                if [ev.get("lun") for ev in isc.log] != [ref_url.lun]:
                                    ctx.fail("C19:%s.iscsi_command_lun" % cfg, "command addressed to lun %r, the URL names %r" % ([ev.get("lun") for ev in isc.log], ref_url.lun), wit)
                                ctx.count("iscsi_commands_inspected")
                            except Exception as e:  # noqa: BLE001
                                ctx.fail("C19:%s.first_command_fails" % cfg, "first command on the new iSCSI device raised %s" % e, wit, exc=e)
                            obj.close()
                    else:
                        if not isinstance(exc, NotImplementedError):
                            ctx.fail("C19:%s.not_refused.%s.%s" % (cfg, entry, klass), "%s(%r) gave %r instead of NotImplementedError" % (entry, dev, exc or obj), wit, exc=exc)
                        if opens:
                            ctx.fail("C19:%s.opened_before_refusing" % cfg, "open(%r) happened before the refusal" % dev, wit)
                        if any(c[0] in ("Context", "connect", "URL") for c in conns):
                            ctx.fail("C19:%s.connected_before_refusing" % cfg, "iscsi calls %r before the refusal" % conns, wit)


def finalize(merged, tier):
    c = merged["counters"]
    if merged["shards"] not in (14 + len(HOSTNAMES), 2 * (14 + len(HOSTNAMES))):  # 4 configurations from the source tree, 2 from a built copy, 6 binding releases; each also in the -O -W error interpreter
        merged["inconclusive"].append("not all 4 configurations ran")
    for k in ("modules_imported", "commands_built", "device_string_cases", "facade_plain_ok"):
        if c.get(k, 0) == 0:
            merged["inconclusive"].append("monitor never reached: %s" % k)
    return {"configurations": [n for n, _s, _i in CONFIGS], "exhaustive": False}


def replay(rec, ctx):
    for s in shards("quick", 0):
        if s["id"] == rec.get("shard"):
            run(s, ctx)
