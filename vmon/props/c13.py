"""C13 - each facade call sends exactly one command and decodes what the device returned."""
import itertools

LEVEL = "exploration"
RULE = (
    "38 facade methods (PERSISTENT RESERVE IN once per service action) x every opcode table that defines the command x every "
    "subset of the optional keyword arguments (present ones at a non-default sentinel value) x seeded required arguments; the "
    "recording device writes a generated, unique response into cmd.datain.  Monitors: execute evaluated exactly once; the object "
    "handed to the device is the object returned; datain/dataout identities unchanged; unmarshall only after execute returned; "
    "cmd.result equals the library's own decode of the bytes the device left; cdb[0] equals device.opcodes.<NAME>.value and the "
    "T10 value; every supplied argument is found in the CDB by the reference decoder.  distinct = hash(method, table, kwarg "
    "subset, required args); non-trivial = every case (the empty subset tests the documented defaults)"
)
ASSUMPTIONS = [
    "documented arguments = parameters of the facade method and of the constructor it forwards **kwargs to, as recorded in vmon/spec/cdb.py",
    "docstring names that differ from the signatures (range/alloc_len vs rng/alloclen) are observations, not violations",
]

FMT_BY_CMD = {
    "ReadCapacity10": "readcapacity10", "ReadCapacity16": "readcapacity16", "GetLBAStatus": "getlbastatus", "ReportLuns": "reportluns",
    "ReportTargetPortGroups": "reporttargetportgroups", "ReportPriority": "reportpriority", "ReadElementStatus": "readelementstatus",
    "PersistentReserveInReadKeys": "prin.readkeys", "PersistentReserveInReadReservation": "prin.readreservation",
    "PersistentReserveInReportCapabilities": "prin.reportcapabilities", "PersistentReserveInReadFullStatus": "prin.readfullstatus",
    "ModeSense6": "modesense6", "ModeSense10": "modesense10",
}


def shards(tier, seed):
    from vmon.spec import cdb as S

    out = [{"id": c.name, "cmd": c.name, "reps": 2 if tier == "quick" else 100} for c in S.COMMANDS.values() if c.facade]
    for i in range(4 if tier == "quick" else 16):
        out.append({"id": "session%d" % i, "cmd": None, "sessions": 30 if tier == "quick" else 400})
    out.append({"id": "attached", "cmd": None, "attached": True, "reps": 1 if tier == "quick" else 12})
    out.append({"id": "own-tables", "cmd": None, "own_tables": True, "reps": 1 if tier == "quick" else 12})
    out.append({"id": "transport", "cmd": None, "transport": True, "reps": 2 if tier == "quick" else 40})
    for i in range(2 if tier == "quick" else 16):
        out.append({"id": "application%d" % i, "cmd": None, "application": True, "sessions": 60 if tier == "quick" else 1200})
    return out


def sentinel(c, name, rng):
    kind, width, default = c.args[name]
    if kind == "u":
        if width == 1:
            return 0 if default == 1 else 1
        v = 5 & ((1 << width) - 1)
        if v == default:
            v = 3 & ((1 << width) - 1)
        return v
    if kind == "alloc":
        return 200 if default != 200 else 100
    if kind == "bs":
        return 512
    if kind == "extra_tl":
        return 3
    if kind == "atadata":
        return None
    if kind == "cdtl":
        return 1
    raise KeyError((name, kind))


def caller_buffer(rng, content):
    """a writable buffer as callers bring them: bytearray, a memoryview of one, an array of unsigned bytes, an anonymous mmap"""
    import array
    import mmap

    k = rng.randrange(4)
    if k == 0:
        return bytearray(content)
    if k == 1:
        return memoryview(bytearray(content))
    if k == 2:
        return array.array("B", bytes(content))
    m = mmap.mmap(-1, len(content))
    m[:] = bytes(content)
    return m


def response_for(c, a, rng, big=False):
    """bytes a device would return for this request (reference-encoded where a format exists); big: the device has more
    descriptors than fit the allocation length (it reports the full length and transfers what fits)"""
    from vmon.spec import datain as D

    name = c.name
    if name == "Inquiry":
        if a.get("evpd"):
            page = a.get("page_code", 0)
            f = {0x00: "inquiry.vpd00", 0x80: "inquiry.vpd80", 0x83: "inquiry.vpd83", 0x86: "inquiry.vpd86", 0xB0: "inquiry.vpdb0",
                 0xB1: "inquiry.vpdb1", 0xB2: "inquiry.vpdb2", 0xB3: "inquiry.vpdb3"}.get(page)
            if f is None:
                return bytes([0, page, 0, 4, 1, 2, 3, 4])
            fm = D.FORMATS[f]
            return fm.encode(fm.gen(rng))
        fm = D.FORMATS["inquiry.standard"]
        return fm.encode(fm.gen(rng))
    if name in ("ModeSense6", "ModeSense10"):
        fm = D.FORMATS[FMT_BY_CMD[name]]
        key = (0x0A, None) if a.get("page_code") == 0x0A else None
        return fm.encode(fm.gen(rng, ("page", key, "rand", 0)))
    if name == "ReadDiscInformation":
        t = a["data_type"] if a["data_type"] in (0, 1, 2) else 0
        fm = D.FORMATS["readdiscinformation.type%d" % t]
        return fm.encode(fm.gen(rng))
    if name == "ReadCd":
        n = a.get("tl", 0) * 3072
        return bytes(rng.getrandbits(8) for _ in range(min(n, 4096))) + bytes(max(0, n - 4096))
    if name in FMT_BY_CMD:
        fm = D.FORMATS[FMT_BY_CMD[name]]
        n = rng.choice([12, 40, 300]) if big else rng.choice([0, 1, 2])
        return fm.encode(fm.gen(rng, ("count", n, 0) if name == "ReportTargetPortGroups" else ("count", n)))
    return b""


def unmarshall_kwargs(c, a):
    if c.name == "Inquiry":
        return {"evpd": a.get("evpd", 0)}
    if c.name == "ReadCd":
        kw = {k: a[k] for k in ("lba", "tl", "est", "dap", "mcsb", "c2ei", "scsb") if k in a}
        return kw
    return {}


def required_args(c, rng):
    """required (non-default) arguments of the facade call, valid values"""
    from vmon import harness
    from vmon.spec import cdb as S, dataout as DO

    if c.custom:
        return DO.GEN[c.custom](rng)[0]
    a = harness.random_args(c, rng, cap=4096)
    req = {k: v for k, v in a.items() if c.args[k][2] is S.REQ}
    if c.name == "ReadCd":
        req = {"lba": 7, "tl": 1}
    if c.name == "ReadDiscInformation":
        req["data_type"] = rng.choice([0, 1, 2])
    if c.xfer == "ata":
        req.update({"t_length": 2, "byte_block": 1, "t_type": 0, "t_dir": 1, "count": 1, "fetures": 0})
    return req


def optional_names(c):
    from vmon.spec import cdb as S

    if c.custom:
        return [k for k, v in c.args.items() if v[2] is not S.REQ and v[0] == "u"]
    names = [k for k, v in c.args.items() if v[2] is not S.REQ]
    if c.name == "ReadCd":
        names = [n for n in names if n not in ("lba", "tl")]
    return names


def run_sessions(shard, ctx):
    """one facade object and one device kept alive over 5..40 calls of mixed methods (some failing in the device):
    every call still sends exactly one command with its own arguments and the right opcode"""
    import pyscsi.pyscsi.scsi_enum_command as E

    from vmon import harness
    from vmon.spec import cdb as S, dataout as DO

    rng = ctx.rng()
    by_set = {}
    for c in S.COMMANDS.values():
        if c.facade:
            for st in c.sets:
                by_set.setdefault(st, []).append(c)
    for _ in range(shard["sessions"]):
        setname = rng.choice(sorted(by_set))
        fail_at = set()
        calls = []

        class Dev(harness.Recorder):
            def execute(self, cmd, en_raw_sense=False):
                if nested[1]:
                    return  # the wrapper's own probe: answered, not counted
                if nested[0] and not nested[1]:
                    # a device wrapper that checks the unit before every command -- through the facade it serves
                    nested[1] = True
                    try:
                        probe = s.inquiry() if len(calls) % 2 else s.testunitready()
                        probes.append(probe)
                    finally:
                        nested[1] = False
                calls.append(cmd)
                if len(calls) in fail_at:
                    raise InjectedFault("device failure %d" % len(calls))
                if cmd.datain is not None and len(cmd.datain) and c_fill[0]:
                    # the device returns data unique to this command (short transfers leave the tail untouched)
                    n_fill = max(1, (len(cmd.datain) * 3) // 4)
                    tag = (b"CALL%06d." % len(calls)) * (n_fill // 11 + 1)
                    cmd.datain[:n_fill] = tag[:n_fill]

        c_fill = [False]
        nested = [rng.random() < 0.3, False]
        probes = []
        if nested[0]:
            ctx.count("sessions_with_a_probing_device_wrapper")
        kept = []  # (returned command, its data-in content when it was returned)
        dev = Dev(getattr(E, setname))
        s = harness.make_facade(dev, 512)
        n = rng.randint(5, 40)
        fail_at.update(rng.sample(range(1, n + 1), rng.randint(0, 3)))
        hist = []
        for i in range(n):
            c = rng.choice(by_set[setname])
            a = required_args(c, rng)
            opt = [o for o in optional_names(c) if c.args[o][0] == "u"]
            for o in rng.sample(opt, rng.randint(0, len(opt))):
                a[o] = sentinel(c, o, rng)
            if c.name == "ReadCd" and "est" in a:
                a["est"] = 2
            if c.name == "ReadCd" and "mcsb" in a:
                a["mcsb"] = 0x02
            before = len(calls)
            hist.append(c.facade)
            wit = {"table": setname, "history": hist[-8:], "position": i, "method": c.facade, "args": a}
            c_fill[0] = c.xfer == "read"  # block reads: no decoder runs on the data, any content is a valid response
            if c.xfer == "read":
                a["tl"] = rng.choice([1, 2, 2, 8, 8])
            ret = None
            try:
                ret = harness.facade_call(c, s, DO.fresh(a) if c.custom else dict(a))
            except Exception:  # noqa: BLE001
                pass
            if ret is not None and c.xfer == "read":
                if len(calls) > before and ret.datain is not None:
                    fresh_tail = bytes(ret.datain[max(1, (len(ret.datain) * 3) // 4):])
                    if any(fresh_tail):
                        ctx.fail("C13:session.buffer_not_as_device_left_it", "%s: the part of the data-in buffer the device did not fill is not zero (data of an earlier command?)" % c.facade, wit)
                kept.append((ret, bytes(ret.datain)))
            sent = len(calls) - before
            ctx.count("session_calls")
            if nested[0] and ret is not None and sent == 1 and ret is not calls[-1]:
                ctx.fail("C13:session.returned_another_command", "%s returned %s, the command it sent is %s (the device wrapper issued a probe of its own through the same facade meanwhile)"
                         % (c.facade, type(ret).__name__, type(calls[-1]).__name__), wit)
            if sent != 1:
                ctx.fail("C13:session.execute_count_%d" % min(sent, 3), "call %d (%s) of a long-lived facade reached the device %d times" % (i, c.facade, sent), wit)
                continue
            cmd = calls[-1]
            full = dict(harness.defaults(c))
            full.update(a)
            if c.custom:
                full["_outlen"] = len(cmd.dataout)
            full.update(c.facade_fixed)
            for mech, msg in harness.check_cdb(c, cmd.cdb, full):
                ctx.fail("C13:session.cdb.%s.%s" % (c.facade, mech), "call %d (%s) after %r: %s" % (i, c.facade, hist[-4:-1], msg), dict(wit, cdb=bytes(cmd.cdb)))
            if any(cmd is x for x in calls[:-1]):
                ctx.fail("C13:session.command_object_reused", "the facade sent a command object it had sent before", wit)
        if len({id(k[0].datain) for k in kept}) != len(kept):
            ctx.fail("C13:session.commands_share_a_buffer", "two commands returned by one facade share one data-in buffer", {"table": setname, "history": hist[-8:]})
        elif any(bytes(k.datain) != snap for k, snap in kept):
            ctx.fail("C13:session.earlier_result_overwritten", "the data-in buffer of an earlier command changed during later facade calls", {"table": setname, "history": hist[-8:]})
        ctx.count("session_buffers_checked", len(kept))
        ctx.case(("session", setname, tuple(hist), tuple(sorted(fail_at))), True, sample={"table": setname, "methods": hist[:10], "device_failures_at": sorted(fail_at)} if ctx.want_sample() else None)
        ctx.count("sessions")


def run_application(shard, ctx):
    """what an application does with a disk: attach, read the capacity and the block limits, then address blocks *derived from
    those answers* (the last blocks, ranges that straddle the end, whole and partial provisioning granules, a count of zero),
    ask for the provisioning status of blocks inside an extent, and carry on after the conditions initiators are known to act
    on (ILLEGAL REQUEST for a flag, unit attentions, recovered errors). Against the conformant target model, on both
    transports. Every call: one command at the target, whose fields (decoded by the reference) are the arguments given; what is
    returned for GET LBA STATUS / READ CAPACITY is what the unit sent."""
    import sys

    from vmon.sim import devnode, install

    install.install_fakes()  # before anything of pyscsi is imported
    from pyscsi.pyscsi.scsi import SCSI
    from pyscsi.utils import init_device

    from vmon.sim.target import Target
    from vmon.spec import sense as SN

    sg, isc = sys.modules["sgio"], sys.modules["iscsi"]
    rng = ctx.rng()
    triples = [(5, 0x24, 0), (5, 0x24, 0), (5, 0x20, 0), (5, 0x21, 0), (5, 0x26, 0), (6, 0x29, 0), (6, 0x2A, 9), (6, 0x3F, 3), (6, 0x3F, 0xE), (6, 0x28, 0),
               (1, 0x17, 0), (1, 0x0B, 1), (2, 4, 1), (0xB, 0x47, 3), (3, 0x11, 0)]
    for sess in range(shard["sessions"]):
        bs = rng.choice([512, 512, 4096])
        nblocks = rng.choice([5000, 70001, (1 << 21) + 5, (1 << 32) + 0x3039, rng.randint(1000, 1 << 22)])
        tgt = Target(0, 0, bs, nblocks)
        g = rng.choice([1, 8, 16, 64, 2048])
        tgt.granule = g
        tgt.block_limits = {"opt_unmap_gran": g, "ugavalid": 1, "unmap_gran_alignment": rng.choice([0, 0, g // 2]) if g > 1 else 0, "max_unmap_lba_count": 0xFFFFFFFF, "max_unmap_bd_count": 64,
                            "max_ws_len": rng.choice([0, 0xFFFF, 1 << 22]), "max_xfer_len": 0xFFFF, "opt_xfer_len": 128, "wsnz": rng.getrandbits(1)}
        transport = rng.choice(["sgio", "iscsi"])
        sg.handler = isc.handler = tgt.handle
        if transport == "sgio":
            dev = init_device(devnode.new_node(), read_write=True)
        else:
            dev = init_device("iscsi://192.0.2.1:3260/iqn.2003-01.org.example:disk/%d" % rng.choice([0, 1, 7]), initiator_name="iqn.2003-01.org.example:me")
        hist = []
        wit = {"transport": transport, "blocks": nblocks, "block_size": bs, "granule": g, "history": hist}
        try:
            s = SCSI(dev, bs)
        except Exception as e:  # noqa: BLE001
            ctx.fail("C13:application.attach_raises.%s" % type(e).__name__, "attach raised %r" % e, wit, exc=e)
            continue
        last = nblocks - 1

        def near_end():
            return rng.choice([last, last - 1, last - 2, last - g, last - g + 1, max(0, last - rng.randint(1, 300)), nblocks, nblocks + 1])

        def somewhere():
            r = rng.random()
            if r < 0.4:
                return max(0, near_end())
            if r < 0.7:
                return rng.randrange(0, nblocks)
            return rng.choice([0, 1, g, g + 1, 3 * g - 1, 1003, 1008]) % nblocks

        def call(method, kw, expect_fields, cls_name):
            """one facade call; returns the command or None"""
            n0 = len(tgt.log)
            inject = rng.random() < 0.18
            cond = None
            if inject:
                cond = rng.choice(triples)
                rc = rng.choice([0x70, 0x72])
                sb = bytearray(SN.build(rc, 0, cond[0], cond[1], cond[2], 18 if rc == 0x70 else 8))
                if rc == 0x70 and rng.random() < 0.5:
                    sb[15], sb[16], sb[17] = 0xC0 | rng.randrange(8), 0, rng.choice([0, 1, 2, 6, 10])  # field pointer
                tgt.faults[tgt.n] = (2, bytes(sb))
            hist.append((method, {k: (v if not isinstance(v, (bytes, bytearray)) else "%d bytes" % len(v)) for k, v in kw.items()}, cond))
            del hist[:-8]
            ret = exc = None
            try:
                ret = getattr(s, method)(**kw)
            except Exception as e:  # noqa: BLE001
                exc = e
            recs = tgt.log[n0:]
            ctx.count("application_calls")
            if len(recs) != 1:
                ctx.fail("C13:application.execute_count_%d" % min(len(recs), 3), "%s(%r)%s reached the unit %d times: %s"
                         % (method, hist[-1][1], " answered with CHECK CONDITION %r" % (cond,) if cond else "", len(recs), [r.get("name") for r in recs]), wit)
                return None
            rec = recs[0]
            if rec.get("name") != cls_name:
                ctx.fail("C13:application.other_command.%s" % method, "%s sent %s" % (method, rec.get("name")), wit)
                return None
            got = rec.get("fields", {})
            for k, v in expect_fields.items():
                if got.get(k) != v:
                    ctx.fail("C13:application.cdb.%s.%s" % (method, k), "%s(%r) after %r: the unit received %s=%r, the caller said %r" % (method, hist[-1][1], [h[0] for h in hist[:-1]][-4:], k, got.get(k), v),
                             dict(wit, cdb=rec["cdb"].hex()))
            if inject:
                ctx.count("application_calls_answered_with_a_condition")
                if exc is None or not isinstance(exc, dev.CheckCondition):
                    ctx.fail("C13:application.condition_not_raised.%s" % method, "%s answered with CHECK CONDITION %r: the caller got %s" % (method, cond, "a normal return" if exc is None else repr(exc)[:80]), wit)
                return None
            if exc is not None:
                # the unit's own refusals (beyond the end, unsupported): reported as they are
                if not isinstance(exc, dev.CheckCondition):
                    ctx.fail("C13:application.raises.%s.%s" % (method, type(exc).__name__), "%s raised %r" % (method, exc), wit, exc=exc)
                return None
            return ret

        for step in range(rng.randint(6, 30)):
            kind = rng.choice(["cap16", "cap10", "limits", "read", "write", "ws", "ws", "status", "sync", "inq"])
            if kind == "cap16":
                r = call("readcapacity16", {}, {}, "ReadCapacity16")
                if r is not None and (r.result.get("returned_lba"), r.result.get("block_length")) != (last, bs):
                    ctx.fail("C13:application.result.readcapacity16", "READ CAPACITY(16) reports %r, the unit has %d blocks of %d" % (r.result, nblocks, bs), wit)
            elif kind == "cap10":
                r = call("readcapacity10", {}, {}, "ReadCapacity10")
                if r is not None and (r.result.get("returned_lba"), r.result.get("block_length")) != (min(last, 0xFFFFFFFF), bs):
                    ctx.fail("C13:application.result.readcapacity10", "READ CAPACITY(10) reports %r, the unit has %d blocks of %d" % (r.result, nblocks, bs), wit)
            elif kind == "limits":
                r = call("inquiry", {"evpd": 1, "page_code": 0xB0, "alloclen": 64}, {"evpd": 1, "page_code": 0xB0, "alloc": 64}, "Inquiry")
            elif kind == "inq":
                call("inquiry", {}, {"evpd": 0, "page_code": 0}, "Inquiry")
            elif kind in ("read", "write"):
                w = rng.choice([10, 12, 16])
                lba = somewhere()
                if w != 16:
                    lba = min(lba, 0xFFFFFFFF)
                tl = rng.choice([0, 1, 2, 8, g, g + 1, max(0, nblocks - lba), max(0, nblocks - lba) + 1, max(0, nblocks - lba) + 7, rng.randint(1, 40)])
                tl = min(tl, 300, 0xFFFF)
                flags = {"dpo": rng.getrandbits(1), "fua": rng.getrandbits(1), "group": rng.randrange(32)}
                if kind == "read":
                    flags["rdprotect"] = 0
                    call("read%d" % w, dict(lba=lba, tl=tl, **flags), dict(lba=lba, tl=tl, **flags), "Read%d" % w)
                else:
                    flags["wrprotect"] = 0
                    call("write%d" % w, dict(lba=lba, tl=tl, data=bytearray(tl * bs), **flags), dict(lba=lba, tl=tl, **flags), "Write%d" % w)
            elif kind == "ws":
                w = rng.choice([10, 16])
                lba = somewhere()
                if w == 10:
                    lba = min(lba, 0xFFFFFFFF)
                nb = rng.choice([0, 0, 1, g, 2 * g, 21, g + 5, 3 * g - 1, max(0, nblocks - lba), rng.randint(1, 5000)])
                nb = min(nb, 0xFFFF if w == 10 else 1 << 17)
                flags = {"unmap": rng.choice([0, 1, 1]), "anchor": rng.choice([0, 0, 1]), "group": rng.randrange(32), "wrprotect": 0}
                kw = dict(lba=lba, nb=nb, data=bytearray(bs), **flags)
                call("writesame%d" % w, kw, dict(lba=lba, nb=nb, **flags), "WriteSame%d" % w)
            elif kind == "status":
                lba = somewhere() % nblocks
                r = call("getlbastatus", {"lba": lba, "alloclen": 8 + 16 * rng.choice([1, 2, 4])}, {"lba": lba}, "GetLBAStatus")
                if r is not None:
                    start = lba - lba % g
                    lbas = r.result.get("lbas") or []
                    want = (start, min(g, nblocks - start))
                    if not lbas or (lbas[0].get("lba"), lbas[0].get("num_blocks")) != want:
                        ctx.fail("C13:application.result.getlbastatus", "GET LBA STATUS for block %d: the unit's first descriptor is (lba %d, %d blocks), the caller is told %r"
                                 % (lba, want[0], want[1], lbas[:1]), wit)
                    ctx.count("extents_containing_the_requested_block")
            elif kind == "sync":
                w = rng.choice([10, 16])
                lba = min(somewhere(), 0xFFFFFFFF if w == 10 else (1 << 64) - 1)
                nbk = rng.choice([0, 1, g, rng.randint(0, 0xFFFF)])
                call("synchronizecache%d" % w, {"lba": lba, "numblks": nbk}, {"lba": lba, "numblks": nbk}, "SynchronizeCache%d" % w)
        try:
            dev.close()
        except Exception:  # noqa: BLE001
            pass
        ctx.case(("application", transport, nblocks, bs, g, tuple(h[0] for h in hist)), True, sample={"transport": transport, "blocks": nblocks, "granule": g, "calls": [h[0] for h in hist][:8]} if ctx.want_sample() else None)
        ctx.count("application_sessions")



def run(shard, ctx):
    if shard.get("application"):
        return run_application(shard, ctx)
    if shard.get("transport"):
        from vmon.sim import install

        install.install_fakes()  # before anything of pyscsi is imported
        return run_transport(shard, ctx)
    import pyscsi.pyscsi.scsi_enum_command as E
    from pyscsi.pyscsi.scsi_command import SCSICommand

    from vmon import harness
    from vmon.spec import cdb as S, dataout as DO

    if shard.get("own_tables"):
        for _rep in range(shard["reps"]):
            run_own_tables(shard, ctx)
        run_t10_named_tables(ctx)
        return
    if shard.get("attached"):
        return run_attached(shard, ctx)
    if shard["cmd"] is None:
        return run_sessions(shard, ctx)
    c = S.COMMANDS[shard["cmd"]]
    rng = ctx.rng()
    events = []
    orig_unm = SCSICommand.unmarshall

    def hooked_unm(self, **kw):
        events.append(("unmarshall", id(self), dict(kw)))
        return orig_unm(self, **kw)

    SCSICommand.unmarshall = hooked_unm
    try:
        opt = optional_names(c)
        subsets = []
        for r in range(len(opt) + 1):
            for sub in itertools.combinations(opt, r):
                subsets.append(sub)
        for setname in c.sets:
            if c.name == "WriteSame16":
                # documented: with NDOB=1 no block is transferred, so no block size is needed either
                for bs in (0, None):
                    dev0 = harness.Recorder(getattr(E, setname))
                    s0 = harness.make_facade(dev0) if bs == 0 else __import__("pyscsi.pyscsi.scsi", fromlist=["SCSI"]).SCSI(None)
                    if bs is None:
                        s0.device = dev0
                    ctx.case(("ws16-ndob", setname, bs), True)
                    try:
                        s0.writesame16(5, 8, None, ndob=1)
                    except Exception as e:  # noqa: BLE001
                        ctx.fail("C13:writesame16.rejected_before_send.ndob_without_blocksize.%s" % type(e).__name__, "writesame16(ndob=1) on a facade without block size raised %s" % type(e).__name__,
                                 {"method": "writesame16", "table": setname, "blocksize": bs}, exc=e)
                    if len(dev0.calls) != 1 and not ctx.failures:
                        ctx.fail("C13:writesame16.execute_count_%d" % len(dev0.calls), "writesame16(ndob=1) without block size: %d commands" % len(dev0.calls), {"method": "writesame16"})
            fault_round(ctx, c, setname, dict(required_args(c, rng)), rng)
            if not c.custom:
                # the optional arguments given explicitly with their documented default values (what a forwarding wrapper does):
                # the same command as with the arguments left out
                for variant in range(3 if c.xfer == "ata" else 1):
                    req = dict(required_args(c, rng))
                    if c.xfer == "ata" and variant:
                        req.update({"t_length": 3 if variant == 1 else 0, "byte_block": 1, "t_type": 0})
                    devs, cdbs, errs = [], [], []
                    for explicit in (False, True):
                        aa = dict(req)
                        if explicit:
                            for k2, v2 in harness.defaults(c).items():
                                if k2 not in aa and k2 != "blocksize":
                                    aa[k2] = v2
                        d0 = harness.Recorder(getattr(E, setname))
                        try:
                            harness.facade_call(c, harness.make_facade(d0, 512), dict(aa))
                            errs.append(None)
                        except Exception as e:  # noqa: BLE001
                            errs.append(e)
                        cdbs.append([bytes(x[0].cdb) for x in d0.calls])
                    ctx.case(("explicit-defaults", c.facade, setname, variant), True)
                    ctx.count("calls_with_explicit_defaults")
                    if cdbs[0] != cdbs[1] or (errs[0] is None) != (errs[1] is None):
                        ctx.fail("C13:%s.explicit_default_differs" % c.facade, "%s with its optional arguments given explicitly at their documented defaults: %s / sent %s; with them left out: %s / sent %s"
                                 % (c.facade, type(errs[1]).__name__ if errs[1] else "ok", [x.hex() for x in cdbs[1]], type(errs[0]).__name__ if errs[0] else "ok", [x.hex() for x in cdbs[0]]),
                                 {"method": c.facade, "table": setname, "args": req}, exc=errs[1])
                # consecutive calls of one method whose wide arguments differ by a multiple of 2**61-1 (equal hash()): each call's
                # own argument reaches its CDB
                for seq in harness.hash_collision_cases(c, rng):
                    devq = harness.Recorder(getattr(E, setname))
                    sq = harness.make_facade(devq, 512)
                    for aq in seq:
                        aq = dict(aq)
                        if c.xfer in ("read", "write"):
                            aq["tl"] = 1
                            if "data" in aq:
                                aq["data"] = harness.pattern_bytes(512, 3)
                        if "blocksize" in aq and c.xfer != "ata":
                            aq["blocksize"] = 512
                        nq = len(devq.calls)
                        ctx.case(("congruent", c.facade, setname, harness.args_repr(aq)), True)
                        try:
                            harness.facade_call(c, sq, dict(aq))
                        except Exception:  # noqa: BLE001
                            pass
                        ctx.count("congruent_argument_calls")
                        if len(devq.calls) != nq + 1:
                            continue  # judged by the other monitors
                        chk = dict(harness.defaults(c))
                        chk.update(aq)
                        chk.update(c.facade_fixed)
                        for mech, msg in harness.check_cdb(c, devq.calls[-1][0].cdb, chk):
                            ctx.fail("C13:%s.cdb.%s" % (c.facade, mech), "%s right after a call whose argument had the same hash(): %s" % (c.facade, msg),
                                     {"method": c.facade, "table": setname, "args": aq, "cdb": bytes(devq.calls[-1][0].cdb)})
            for rep in range(shard["reps"]):
                for sub in subsets:
                    req = required_args(c, rng)
                    a = dict(req)
                    for name in sub:
                        v = sentinel(c, name, rng)
                        if c.args[name][0] == "atadata":
                            v = caller_buffer(rng, harness.pattern_bytes(512, 9))
                            ctx.add("caller_buffer_types", type(v).__name__)
                        a[name] = v
                    wname = next((k for k, spec in c.args.items() if spec[0] == "wdata"), None)
                    if wname and a.get("tl") and rng.random() < 0.35:
                        # the caller's I/O buffer is larger than the blocks asked for (a reused 64 KiB buffer, one byte or one block
                        # more): TRANSFER LENGTH is still the caller's, the buffer is still the caller's
                        bs_ = 512
                        extra = rng.choice([1, bs_ - 1, bs_, 3 * bs_ + 7, len(a[wname]), 65536])
                        a[wname] = harness.pattern_bytes(len(a[wname]) + extra, rng.getrandbits(8))
                        ctx.count("write_buffers_larger_than_the_transfer")
                    if c.name == "ReadCd" and ("mcsb" in sub or "est" in sub):
                        # keep the selection legal so decoding is defined: mode 1 with user data
                        if "est" in a:
                            a["est"] = 2
                        if "mcsb" in a:
                            a["mcsb"] = 0x02
                    full = dict(harness.defaults(c))
                    full.update(a)
                    for k, v in list(full.items()):
                        if v is None and c.args.get(k, (None,))[0] == "atadata":
                            full[k] = None
                    resp = response_for(c, full, rng, big=rng.random() < 0.25)
                    if c.facade_unmarshall and rng.random() < 0.25:
                        # arbitrary device-provided contents: whatever they are, one command is sent and the result (or the
                        # error) is that of decoding exactly these bytes
                        resp = bytes(rng.getrandbits(8) for _ in range(rng.choice([4, 8, 36, 96, 200, 1024])))
                        ctx.count("arbitrary_buffer_contents")
                    state = {}

                    def fill(cmd, resp=resp, state=state):
                        resp = state.get("resp", resp)  # the device's answer may change between two executions of one command
                        events.append(("execute", id(cmd), None))
                        state["in_id"], state["out_id"] = id(cmd.datain), id(cmd.dataout)
                        if cmd.datain is not None and len(cmd.datain) and resp:
                            n = min(len(resp), len(cmd.datain))
                            cmd.datain[:n] = resp[:n]
                        state["left"] = bytes(cmd.datain) if cmd.datain is not None else None

                    dev = harness.Recorder(getattr(E, setname), fill)
                    SUBCLASSED[0] += 1
                    s = hooked_facade(dev) if SUBCLASSED[0] % 2 else harness.make_facade(dev)
                    del events[:]
                    label = c.facade + (":%d" % c.facade_fixed["service_action"] if c.facade_fixed else "")
                    rep_key = (label, setname, sub, harness.args_repr(req) if not c.custom else repr(req))
                    ctx.case(rep_key, True, sample={"method": label, "table": setname, "optional_given": list(sub), "args": a} if ctx.want_sample() else None)
                    ctx.add("methods", label)
                    ctx.add("subsets", "%s:%d" % (label, len(sub)))
                    wit = {"method": label, "cmd": c.name, "table": setname, "optional_given": list(sub), "args": a}
                    subkey = "defaults" if not sub else "with_optional"
                    try:
                        cmd = harness.facade_call(c, s, DO.fresh(a) if c.custom else dict(a))
                        err = None
                    except Exception as e:  # noqa: BLE001
                        cmd, err = None, e
                    ctx.count("facade_calls")
                    n_exec = len(dev.calls)
                    if n_exec != 1:
                        if err is not None and n_exec == 0:
                            missing = [o for o in opt if o not in sub]
                            ctx.fail("C13:%s.rejected_before_send.%s.%s" % (c.facade, subkey, type(err).__name__),
                                     "%s(%s) on %s raised %s before anything was sent: %s" % (c.facade, ",".join(sub) or "defaults", setname, type(err).__name__, err), wit, exc=err)
                        else:
                            ctx.fail("C13:%s.execute_count_%d" % (c.facade, n_exec), "device.execute evaluated %d times" % n_exec, wit)
                        continue
                    ctx.count("execute_hook_evaluations")
                    sent = dev.calls[0][0]
                    # opcode
                    want_op = c.opcode_obj(setname).value
                    if sent.cdb[0] != want_op or sent.cdb[0] != c.op:
                        ctx.fail("C13:%s.opcode.%s" % (c.facade, setname), "cdb[0]=%02Xh, table says %02Xh, T10 %02Xh" % (sent.cdb[0], want_op, c.op), wit)
                    # arguments reach the CDB
                    chk = dict(full)
                    if c.custom:
                        chk["_outlen"] = len(sent.dataout)
                    chk.update(c.facade_fixed)
                    for mech, msg in harness.check_cdb(c, sent.cdb, chk):
                        ctx.fail("C13:%s.cdb.%s" % (c.facade, mech), "%s on %s: %s" % (c.facade, setname, msg), dict(wit, cdb=bytes(sent.cdb)))
                    # order: unmarshall only after execute
                    kinds = [e[0] for e in events]
                    if "unmarshall" in kinds and kinds.index("unmarshall") < kinds.index("execute"):
                        ctx.fail("C13:%s.decoded_before_execute" % c.facade, "unmarshall ran before execute returned", wit)
                    if err is not None:
                        if c.facade_unmarshall:
                            # the library's own decode of what the device left decides whether raising is legitimate
                            try:
                                sent.unmarshall_datain(bytearray(state["left"]), **unmarshall_kwargs(c, full))
                                ctx.fail("C13:%s.raises_after_send.%s.%s" % (c.facade, subkey, type(err).__name__),
                                         "%s raised %s after the command was sent although the response decodes: %s" % (c.facade, type(err).__name__, err), wit, exc=err)
                            except Exception as e2:  # noqa: BLE001
                                # SCSICommand.unmarshall reports an AttributeError raised inside a decoder as NotImplementedError
                                wrapped = isinstance(e2, AttributeError) and isinstance(err, NotImplementedError)
                                if type(e2) is not type(err) and not wrapped:
                                    ctx.fail("C13:%s.raises_after_send.%s.%s" % (c.facade, subkey, type(err).__name__),
                                             "%s raised %s, decoding the response raises %s" % (c.facade, type(err).__name__, type(e2).__name__), wit, exc=err)
                                else:
                                    ctx.count("response_undecodable_both_ways")
                        else:
                            ctx.fail("C13:%s.raises_after_send.%s.%s" % (c.facade, subkey, type(err).__name__), "%s raised after sending: %s" % (c.facade, err), wit, exc=err)
                        continue
                    if wname and bytes(sent.dataout) != bytes(a[wname]):
                        ctx.fail("C13:%s.dataout_not_the_callers_data" % c.facade, "the data-out buffer sent (%d bytes) is not the data the caller passed (%d bytes)" % (len(sent.dataout), len(a[wname])), wit)
                    if hasattr(s, "seen"):
                        # the application's subclass of the facade overrides execute() (logging, retries, mirroring): every method
                        # goes through it, once, with the command the device gets
                        ctx.count("calls_through_a_facade_subclass")
                        if len(s.seen) != 1 or s.seen[0] is not sent:
                            ctx.fail("C13:%s.facade_subclass_execute_bypassed" % c.facade, "%s: the subclass's execute() saw %d commands, the device 1" % (c.facade, len(s.seen)), wit)
                    # identity
                    if cmd is not sent:
                        ctx.fail("C13:%s.returned_other_object" % c.facade, "facade returned another object than it sent", wit)
                        continue
                    if id(cmd.datain) != state["in_id"] or id(cmd.dataout) != state["out_id"]:
                        ctx.fail("C13:%s.buffers_replaced" % c.facade, "cmd.datain/dataout are not the objects the device saw", wit)
                    if c.xfer == "ata" and a.get("data") is not None and len(a["data"]):
                        # a buffer the caller brought is the buffer the device worked on
                        mine = a["data"]
                        theirs = cmd.datain if full.get("t_dir") else cmd.dataout
                        ctx.count("caller_buffers_identified")
                        if theirs is not mine:
                            ctx.fail("C13:%s.callers_buffer_replaced.%s" % (c.facade, type(mine).__name__),
                                     "the %s the caller passed as data is not the buffer the command carries (%s): what the device %s never %s the caller's object"
                                     % (type(mine).__name__, type(theirs).__name__, "writes" if full.get("t_dir") else "reads", "reaches" if full.get("t_dir") else "comes from"), wit)
                    if c.facade_unmarshall:
                        if kinds.count("unmarshall") != 1:
                            ctx.fail("C13:%s.unmarshall_count_%d" % (c.facade, kinds.count("unmarshall")), "unmarshall evaluated %d times" % kinds.count("unmarshall"), wit)
                        try:
                            expect = sent.unmarshall_datain(bytearray(state["left"]), **unmarshall_kwargs(c, full))
                        except Exception as e:  # noqa: BLE001
                            ctx.fail("C13:%s.own_decode_raises" % c.facade, "facade returned although the library's decode of the left bytes raises %s" % type(e).__name__, wit)
                            continue
                        ctx.count("results_compared")
                        if not same(cmd.result, expect):
                            ctx.fail("C13:%s.result_not_decode_of_device_bytes" % c.facade, "cmd.result differs from decode of the bytes the device left", wit)
                        if bytes(cmd.datain) != state["left"]:
                            ctx.fail("C13:%s.datain_modified_after_execute" % c.facade, "data-in buffer changed after the device filled it", wit)
                        # the same request with its arguments given by position (documented order): same command, same result
                        if not c.custom and c.xfer != "ata":
                            dev_p = harness.Recorder(getattr(E, setname), fill)
                            try:
                                cmd_p = harness.facade_call_positional(c, harness.make_facade(dev_p), dict(a))
                                ctx.count("positional_facade_calls")
                                if len(dev_p.calls) != 1 or bytes(cmd_p.cdb) != bytes(cmd.cdb):
                                    ctx.fail("C13:%s.positional_call_differs.command" % c.facade, "%s with positional arguments: %d commands, CDB %s (keywords: %s)"
                                             % (c.facade, len(dev_p.calls), bytes(cmd_p.cdb).hex(), bytes(cmd.cdb).hex()), wit)
                                elif not same(cmd_p.result, expect):
                                    ctx.fail("C13:%s.positional_call_differs.result" % c.facade, "%s with positional arguments decodes the same device bytes differently than with keywords" % c.facade, wit)
                            except Exception as e:  # noqa: BLE001
                                ctx.fail("C13:%s.positional_call_raises.%s" % (c.facade, type(e).__name__), "%s with positional arguments raised %s: %s" % (c.facade, type(e).__name__, e), wit, exc=e)
                        # the caller edits the result it was given (the swp.py flow), polls the same command object again and
                        # gets the same answer from the device: the result is again the decode of what the device left.  And a
                        # deep copy of the command is independent of the original.
                        try:
                            import copy as _copy

                            from vmon.props.c06 import scribble_all

                            dup = _copy.deepcopy(cmd)
                            if scribble_all(dup.result) and not same(cmd.result, expect):
                                ctx.fail("C13:%s.deepcopy_shares_result" % c.facade, "editing the result of a deep copy of the command changed the original's result", wit)
                            if scribble_all(cmd.result):
                                dev.execute(cmd)
                                cmd.unmarshall(**unmarshall_kwargs(c, full))
                                ctx.count("re_executions_after_result_edit")
                                if not same(cmd.result, expect):
                                    ctx.fail("C13:%s.stale_result_after_re_execution" % c.facade,
                                             "the command object was executed again (same answer from the device) after its result had been edited in place: the result is not the decode of the device's bytes", wit)
                                # ... and once more with another answer (a reservation released, a medium changed): nothing of the
                                # earlier answer survives in the result
                                for _again in range(2):
                                    state["resp"] = response_for(c, full, rng)
                                    for i in range(len(cmd.datain)):
                                        cmd.datain[i] = 0  # what a caller polling with one command object does before re-issuing it
                                    dev.execute(cmd)
                                    try:
                                        expect2 = sent.unmarshall_datain(bytearray(state["left"]), **unmarshall_kwargs(c, full))
                                    except Exception:  # noqa: BLE001
                                        break
                                    cmd.unmarshall(**unmarshall_kwargs(c, full))
                                    ctx.count("re_executions_with_another_answer")
                                    if not same(cmd.result, expect2):
                                        ctx.fail("C13:%s.result_mixes_answers" % c.facade,
                                                 "the same command object executed again with another answer from the device: the result is not the decode of the bytes the device left this time", wit)
                                        break
                        except Exception as e:  # noqa: BLE001
                            ctx.fail("C13:%s.re_execution_raises.%s" % (c.facade, type(e).__name__), "re-executing / re-decoding the returned command raised %s" % e, wit, exc=e)
    finally:
        SCSICommand.unmarshall = orig_unm


def run_attached(shard, ctx):
    """the facade attached through the real SCSI(dev) / s(dev) (INQUIRY answered with a device type); afterwards the device's
    command set is assigned by hand (the workflow SCSIDevice documents for device types the facade does not map) or the
    facade's device attribute is pointed at another device: every method uses the table the device has *now*"""
    import pyscsi.pyscsi.scsi_enum_command as E
    from pyscsi.pyscsi.scsi import SCSI

    from vmon import harness
    from vmon.spec import cdb as S, dataout as DO

    rng = ctx.rng()

    def device(devtype, log, qualifier=0, ident=None):
        def fill(cmd):
            log.append(cmd)
            if cmd.cdb[0] == 0x12 and len(cmd.datain):
                cmd.datain[0] = (qualifier << 5) | devtype
                if ident is not None and len(cmd.datain) >= 36 and not cmd.cdb[1] & 1:
                    cmd.datain[2:5] = bytes([6, 2, 31])
                    cmd.datain[8:16] = ident[0].ljust(8)[:8]
                    cmd.datain[16:32] = ident[1].ljust(16)[:16]
                    cmd.datain[32:36] = b"1.0 "
        return harness.Recorder(E.spc, fill)

    # what a unit calls itself does not change which command a method sends: every method on units with the identification strings
    # of real hardware (disk-like units; each method of the block command set, one call per identity)
    from vmon.sim.target import KNOWN_IDS

    for c in S.COMMANDS.values():
        if not c.facade or "sbc" not in c.sets:
            continue
        for ident in KNOWN_IDS:
            log = []
            dev = device(0x00, log, 0, ident)
            try:
                s = SCSI(dev, 512)
            except Exception as e:  # noqa: BLE001
                ctx.fail("C13:attached.attach_raises.%s" % type(e).__name__, "attach to a unit calling itself %r raised %s" % (ident, e), {"identity": list(ident)}, exc=e)
                break
            del log[:]
            a = dict(required_args(c, rng))
            if "blocksize" in a and c.xfer != "ata":
                a["blocksize"] = 512
            wit = {"method": c.facade, "cmd": c.name, "unit_calls_itself": [ident[0].decode(), ident[1].decode()], "args": a}
            ctx.case(("attached-identity", c.facade, ident), True)
            ctx.count("attached_identity_calls")
            try:
                harness.facade_call(c, s, DO.fresh(a) if c.custom else dict(a))
                err = None
            except Exception as e:  # noqa: BLE001
                err = e
            if len(log) != 1:
                ctx.fail("C13:%s.attached.execute_count_%d" % (c.facade, len(log)), "%s on a unit calling itself %r: %d commands (%s)" % (c.facade, ident, len(log), err), wit, exc=err)
                continue
            chk = dict(harness.defaults(c))
            chk.update(a)
            if c.custom:
                chk["_outlen"] = len(log[0].dataout)
            chk.update(c.facade_fixed)
            if log[0].cdb[0] != c.op:
                ctx.fail("C13:%s.attached.opcode.sbc" % c.facade, "cdb[0]=%02Xh on a unit calling itself %r, the sbc table says %02Xh" % (log[0].cdb[0], ident, c.op), wit)
                continue
            for mech, msg in harness.check_cdb(c, log[0].cdb, chk):
                ctx.fail("C13:%s.attached.cdb.%s" % (c.facade, mech), "%s on a unit calling itself %r: %s" % (c.facade, ident, msg), dict(wit, cdb=bytes(log[0].cdb)))

    # attached and nothing else: with every peripheral qualifier, each method of the set that the reported *type* selects sends
    # its one command with that set's operation code
    SET_OF = {0x00: "sbc", 0x04: "sbc", 0x07: "sbc", 0x01: "ssc", 0x05: "mmc", 0x08: "smc"}
    for devtype, setname in SET_OF.items():
        for q in range(8):
            for c in S.COMMANDS.values():
                if not c.facade or setname not in c.sets:
                    continue
                log = []
                dev = device(devtype, log, q)
                try:
                    s = SCSI(dev, 512)
                except Exception as e:  # noqa: BLE001
                    ctx.fail("C13:attached.attach_raises.%s" % type(e).__name__, "attach (type %02Xh qualifier %d) raised %s" % (devtype, q, e), {"devtype": devtype, "qualifier": q}, exc=e)
                    break
                del log[:]
                a = dict(required_args(c, rng))
                if "blocksize" in a and c.xfer != "ata":
                    a["blocksize"] = 512
                wit = {"method": c.facade, "cmd": c.name, "attached_with_device_type": devtype, "peripheral_qualifier": q, "args": a}
                ctx.case(("attached-only", c.facade, devtype, q), True)
                ctx.count("attached_facade_calls")
                try:
                    harness.facade_call(c, s, DO.fresh(a) if c.custom else dict(a))
                    err = None
                except Exception as e:  # noqa: BLE001
                    err = e
                if len(log) != 1:
                    ctx.fail("C13:%s.attached.execute_count_%d" % (c.facade, len(log)), "%s after attaching to a type %02Xh / qualifier %d device: %d commands (%s)"
                             % (c.facade, devtype, q, len(log), "%s: %s" % (type(err).__name__, err) if err else "no error"), wit, exc=err)
                elif log[0].cdb[0] != c.opcode_obj(setname).value:
                    ctx.fail("C13:%s.attached.opcode.%s" % (c.facade, setname), "cdb[0]=%02Xh, the %s table says %02Xh" % (log[0].cdb[0], setname, c.opcode_obj(setname).value), wit)

    for rep in range(shard["reps"]):
        for c in S.COMMANDS.values():
            if not c.facade:
                continue
            for devtype in (0x00, 0x01, 0x03, 0x05, 0x08, 0x0E, 0x1F):
                for how in ("assign_opcodes", "assign_device", "reattach_then_assign"):
                    for setname in c.sets:
                        log = []
                        dev = device(devtype, log)
                        try:
                            s = SCSI(dev, 512)
                            if how == "assign_opcodes":
                                dev.opcodes = getattr(E, setname)
                                target = dev
                            elif how == "assign_device":
                                target = device(rng.choice([0, 1, 5, 8]), log)
                                target.opcodes = getattr(E, setname)
                                s.device = target
                            else:
                                target = device(rng.choice([0, 1, 5, 8]), log)
                                s(target)
                                target.opcodes = getattr(E, setname)
                        except Exception as e:  # noqa: BLE001
                            ctx.fail("C13:attached.attach_raises.%s" % type(e).__name__, "attach (%s, device type %02Xh) raised %s" % (how, devtype, e), {"how": how, "devtype": devtype}, exc=e)
                            continue
                        del log[:]
                        if s.blocksize != 512:
                            ctx.fail("C13:attached.block_size_forgotten", "the facade was created with block size 512; after %s it has %r" % (how, s.blocksize), {"how": how, "devtype": devtype})
                            continue
                        a = dict(required_args(c, rng))
                        if "blocksize" in a and c.xfer != "ata":
                            a["blocksize"] = 512
                        label = c.facade + (":%d" % c.facade_fixed["service_action"] if c.facade_fixed else "")
                        wit = {"method": label, "cmd": c.name, "attached_with_device_type": devtype, "then": how, "table_now": setname, "args": a}
                        ctx.case(("attached", label, devtype, how, setname), True, sample={"method": label, "attached_with_device_type": devtype, "then": how, "table_now": setname} if ctx.want_sample() else None)
                        ctx.count("attached_facade_calls")
                        try:
                            harness.facade_call(c, s, DO.fresh(a) if c.custom else dict(a))
                            err = None
                        except Exception as e:  # noqa: BLE001
                            err = e
                        if len(log) != 1:
                            ctx.fail("C13:%s.attached.execute_count_%d" % (c.facade, len(log)), "%s after %s: %d commands reached the device now attached (%s)"
                                     % (c.facade, how, len(log), "%s: %s" % (type(err).__name__, err) if err else "no error"), wit, exc=err)
                            continue
                        if len(target.calls) < 1 or target.calls[-1][0] is not log[0]:
                            ctx.fail("C13:%s.attached.sent_to_other_device" % c.facade, "the command went to a device the facade is no longer attached to", wit)
                        want_op = c.opcode_obj(setname).value
                        if log[0].cdb[0] != want_op:
                            ctx.fail("C13:%s.attached.opcode.%s" % (c.facade, setname), "cdb[0]=%02Xh, the device's table says %02Xh" % (log[0].cdb[0], want_op), wit)
                        chk = dict(harness.defaults(c))
                        chk.update(a)
                        if c.custom:
                            chk["_outlen"] = len(log[0].dataout)
                        chk.update(c.facade_fixed)
                        for mech, msg in harness.check_cdb(c, log[0].cdb, chk):
                            ctx.fail("C13:%s.attached.cdb.%s" % (c.facade, mech), "%s on %s: %s" % (c.facade, setname, msg), dict(wit, cdb=bytes(log[0].cdb)))


SUBCLASSED = [0]


def hooked_facade(dev, blocksize=0):
    """a facade object of an application subclass that overrides execute() the documented way: pass the command on"""
    from pyscsi.pyscsi.scsi import SCSI

    class Hooked(SCSI):
        def execute(self, cmd, en_raw_sense=False):
            self.seen.append(cmd)
            self.device.execute(cmd, en_raw_sense=en_raw_sense)

    s = Hooked(None, blocksize)
    s.seen = []
    s.device = dev
    return s


def run_own_tables(shard, ctx):
    """the command set as an object of the caller: built with the library's Enum from the entries of a standard set, assigned to
    the device, and changed with its public add() / remove() between calls.  Whatever was looked up before, a method sends the
    operation code the table assigns *now*, and sends nothing for a command the table does not define now"""
    import pyscsi.pyscsi.scsi_enum_command as E
    from pyscsi.pyscsi.scsi_opcode import OpCode
    from pyscsi.utils.enum import Enum

    from vmon import harness
    from vmon.spec import cdb as S, dataout as DO

    rng = ctx.rng()
    for c in S.COMMANDS.values():
        if not c.facade:
            continue
        for setname in c.sets:
            std = getattr(E, setname)
            orig = c.opcode_obj(setname)
            key = next(k for k in std.keys if getattr(std, k) is orig)  # (an entry's own name is not always its key in the table)
            sa = {k: getattr(orig.serviceaction, k) for k in orig.serviceaction.keys}
            for start in ("present", "absent"):
                tbl = Enum({k: getattr(std, k) for k in std.keys if start == "present" or k != key})
                dev = harness.Recorder(tbl)
                s = harness.make_facade(dev, 512)
                present = start == "present"
                value_now = orig.value
                hist = [start]
                for step in range(rng.choice([3, 4, 6])):
                    a = dict(required_args(c, rng))
                    if "blocksize" in a and c.xfer != "ata":
                        a["blocksize"] = 512
                    before = len(dev.calls)
                    try:
                        harness.facade_call(c, s, DO.fresh(a) if c.custom else dict(a))
                        err = None
                    except Exception as e:  # noqa: BLE001
                        err = e
                    sent = [x[0] for x in dev.calls[before:]]
                    wit = {"method": c.facade, "cmd": c.name, "table_built_from": setname, "entry": key, "history": list(hist), "entry_present_now": present, "args": a}
                    ctx.case(("own-table", c.facade, setname, tuple(hist)), True)
                    ctx.count("own_table_calls")
                    if present:
                        if len(sent) != 1:
                            ctx.fail("C13:%s.own_table.execute_count_%d" % (c.facade, min(len(sent), 3)), "%s with a caller-built table that defines %s (history %s): %d commands sent (%s)"
                                     % (c.facade, key, hist, len(sent), "%s: %s" % (type(err).__name__, err) if err else "no error"), wit, exc=err)
                        elif sent[0].cdb[0] != value_now:
                            ctx.fail("C13:%s.own_table.opcode" % c.facade, "cdb[0]=%02Xh, the device's table assigns %02Xh to %s now (history %s)" % (sent[0].cdb[0], value_now, key, hist), wit)
                    elif sent:
                        ctx.fail("C13:%s.own_table.sent_without_entry" % c.facade, "%s sent a command (cdb[0]=%02Xh) although the device's table does not define %s now (history %s)"
                                 % (c.facade, sent[0].cdb[0], key, hist), wit)
                    # the caller changes the table
                    if present:
                        tbl.remove(key)
                        present = False
                        hist.append("remove")
                    else:
                        # (the value stays the standard one: the CDB length follows from the operation code's group, another
                        # value is another command)
                        if rng.random() < 0.3:
                            setattr(tbl, key, OpCode(key, value_now, sa))  # an entry put there by plain attribute assignment
                            hist.append("setattr:%02X" % value_now)
                        else:
                            tbl.add(key, OpCode(key, value_now, sa) if rng.random() < 0.7 else orig)
                            hist.append("add:%02X" % value_now)
                        present = True
                ctx.count("own_table_histories")
            # a table for a unit with a quirk (the entry carries another code of the same group and shifted service actions), used,
            # dropped and collected; then a table with the standard entries, most likely at the address the dead one had: the
            # standard code and service action go out
            import gc

            for rep in range(6):
                quirk_oc = OpCode(key, orig.value ^ 0x01, {k2: (v2 + 14) & 0x1F for k2, v2 in sa.items()})
                qt = Enum({k2: (quirk_oc if k2 == key else getattr(std, k2)) for k2 in std.keys})
                qdev = harness.Recorder(qt)
                a = dict(required_args(c, rng))
                if "blocksize" in a and c.xfer != "ata":
                    a["blocksize"] = 512
                try:
                    harness.facade_call(c, harness.make_facade(qdev, 512), DO.fresh(a) if c.custom else dict(a))
                except Exception:  # noqa: BLE001
                    pass
                del qt, qdev, quirk_oc
                gc.collect()
                tbl = Enum({k2: getattr(std, k2) for k2 in std.keys})
                dev = harness.Recorder(tbl)
                ctx.case(("own-table-after-dead-one", c.facade, setname, rep), True)
                ctx.count("own_table_calls")
                try:
                    harness.facade_call(c, harness.make_facade(dev, 512), DO.fresh(a) if c.custom else dict(a))
                    err = None
                except Exception as e:  # noqa: BLE001
                    err = e
                wit = {"method": c.facade, "cmd": c.name, "table_built_from": setname, "entry": key, "history": ["a table with a quirk entry used, dropped and collected", "a new table with the standard entries"], "args": a}
                if len(dev.calls) != 1:
                    ctx.fail("C13:%s.own_table.execute_count_%d" % (c.facade, min(len(dev.calls), 3)), "%s on a new table with the standard entries: %d commands sent (%s)" % (c.facade, len(dev.calls), err), wit, exc=err)
                    continue
                chk = dict(harness.defaults(c))
                chk.update(a)
                if c.custom:
                    chk["_outlen"] = len(dev.calls[0][0].dataout)
                chk.update(c.facade_fixed)
                if dev.calls[0][0].cdb[0] != orig.value:
                    ctx.fail("C13:%s.own_table.opcode" % c.facade, "cdb[0]=%02Xh on a new table whose %s entry is the standard %02Xh (a table with a quirk entry was used and dropped before)"
                             % (dev.calls[0][0].cdb[0], key, orig.value), wit)
                    continue
                for mech, msg in harness.check_cdb(c, dev.calls[0][0].cdb, chk):
                    ctx.fail("C13:%s.own_table.cdb.%s" % (c.facade, mech), "%s on a new table with the standard entries (after a quirk table was dropped): %s" % (c.facade, msg), dict(wit, cdb=bytes(dev.calls[0][0].cdb)))


def run_t10_named_tables(ctx):
    """private command sets that spell the entries of the service-action groups with their T10 names (MAINTENANCE_IN,
    SERVICE_ACTION_IN_16 ...) and list both directions, in either order: a facade method either refuses (nothing sent) or
    sends the operation code T10 assigns to its command"""
    import pyscsi.pyscsi.scsi_enum_command as E
    from pyscsi.pyscsi.scsi_opcode import OpCode
    from pyscsi.utils.enum import Enum

    from vmon import harness
    from vmon.spec import cdb as S, dataout as DO

    rng = ctx.rng("t10-named")
    groups = {"MAINTENANCE_IN": 0xA3, "MAINTENANCE_OUT": 0xA4, "SERVICE_ACTION_IN_16": 0x9E, "SERVICE_ACTION_OUT_16": 0x9F, "SERVICE_ACTION_IN_12": 0xAB, "SERVICE_ACTION_OUT_12": 0xA9}
    sa_tables = [getattr(E, n) for n in dir(E) if isinstance(getattr(E, n), dict) and (n.startswith("sa_") or n == "service_actions")] or [{}]
    all_sa = {}
    for tb in sa_tables:
        all_sa.update(tb)
    plain = {k: getattr(E.sbc, k) for k in E.sbc.keys if getattr(E.sbc, k).value not in groups.values()}
    for order in ("out_first", "in_first", "alphabetical", "reverse"):
        names = sorted(groups)
        if order == "out_first":
            names = [n for n in names if "OUT" in n] + [n for n in names if "OUT" not in n]
        elif order == "in_first":
            names = [n for n in names if "OUT" not in n] + [n for n in names if "OUT" in n]
        elif order == "reverse":
            names = names[::-1]
        for where in ("front", "back"):
            entries = [(n, OpCode(n, groups[n], dict(all_sa))) for n in names]
            items = (entries + list(plain.items())) if where == "front" else (list(plain.items()) + entries)
            tbl = Enum(dict(items))
            for c in S.COMMANDS.values():
                if not c.facade or not c.sa or "sbc" not in c.sets and "spc" not in c.sets:
                    continue
                if c.op not in groups.values():
                    continue
                dev = harness.Recorder(tbl)
                s = harness.make_facade(dev, 512)
                a = dict(required_args(c, rng))
                try:
                    harness.facade_call(c, s, DO.fresh(a) if c.custom else dict(a))
                    err = None
                except BaseException as e:  # noqa: BLE001  (the unchanged facade ends in StopIteration here)
                    err = e
                ctx.case(("t10-named-table", order, where, c.facade), True)
                ctx.count("t10_named_table_calls")
                for call in dev.calls:
                    cdb = call[0].cdb
                    if cdb[0] != c.op or (len(cdb) > 1 and (cdb[1] & 0x1F) != c.sa[1]):
                        ctx.fail("C13:%s.t10_named_table.other_command" % c.facade, "%s on a private table with T10-named group entries (%s, %s of the table) sent %02X %02X, T10 assigns %02X %02X to %s"
                                 % (c.facade, order, where, cdb[0], cdb[1] & 0x1F, c.op, c.sa[1], c.name), {"method": c.facade, "order": order, "group_entries_at": where, "cdb": bytes(cdb)})
                if len(dev.calls) > 1:
                    ctx.fail("C13:%s.t10_named_table.execute_count" % c.facade, "%d commands sent" % len(dev.calls), {"method": c.facade, "order": order})


def run_transport(shard, ctx):
    """the same 'exactly once' at the boundary to the bindings: every facade method over SCSIDevice (stand-in sgio, real node,
    re-plugged before some calls) and ISCSIDevice (stand-in iscsi) produces exactly one binding call with the CDB and the
    very buffers of the returned command"""
    import sys

    import pyscsi.pyscsi.scsi_enum_command as E

    from vmon import harness
    from vmon.sim import devnode, install
    from vmon.spec import cdb as S, dataout as DO

    install.install_fakes()
    sg, isc = sys.modules["sgio"], sys.modules["iscsi"]
    sg.handler = isc.handler = None
    rng = ctx.rng()
    # the wall clock is part of the environment: between two calls any amount of time may pass (a session left idle over night)
    import time as _time

    real_clock = {n: getattr(_time, n) for n in ("time", "monotonic", "perf_counter", "time_ns", "monotonic_ns", "perf_counter_ns")}
    skew = [0.0]
    for n, fn in real_clock.items():
        setattr(_time, n, (lambda fn=fn: fn() + int(skew[0] * 1e9)) if n.endswith("_ns") else (lambda fn=fn: fn() + skew[0]))
    try:
        _run_transport(shard, ctx, rng, sg, isc, skew)
        helper_histories(ctx, rng, sg, isc, shard["reps"] * 3)
    finally:
        for n, fn in real_clock.items():
            setattr(_time, n, fn)


def _run_transport(shard, ctx, rng, sg, isc, skew):
    import pyscsi.pyscsi.scsi_enum_command as E

    from vmon import harness
    from vmon.sim import devnode, install
    from vmon.spec import cdb as S, dataout as DO

    import os

    others = []
    for t in ("sgio", "sgio-chardev", "iscsi"):
        mod = sg if t.startswith("sgio") else isc
        if t == "sgio":
            dev, node = install.sgio_device()
        elif t == "sgio-chardev":
            # the node is a character special file, as /dev/sg* are; a re-plugged unit gets a node with the same device number
            if not devnode.chardev_possible():
                ctx.count("chardev_nodes_unavailable")
                continue
            from pyscsi.pyscsi.scsi_device import SCSIDevice

            node = devnode.new_node(link="chardev")
            dev = SCSIDevice(node, True, True)
            t = "sgio"
            ctx.count("transport_passes_over_character_nodes")
        else:
            dev, node = install.iscsi_device(), None
            # further logical units of the same target, opened later and alive all the time
            others = [install.iscsi_device("iscsi://127.0.0.1:3260/iqn.2003-01.org.example:target0/%d" % lun) for lun in (5, 300)]
        s = harness.make_facade(dev)
        try:
            for rep in range(shard["reps"]):
                for c in S.COMMANDS.values():
                    if not c.facade:
                        continue
                    setname = rng.choice(c.sets)
                    dev.opcodes = getattr(E, setname)
                    # the device type an attach stored (any of the 32): what reaches the binding does not depend on it
                    dev.devicetype = {"sbc": rng.choice([0, 4, 7, 0x0E]), "ssc": 1, "mmc": 5, "smc": 8}.get(setname, rng.randrange(32)) if rng.random() < 0.8 else rng.randrange(32)
                    a = dict(required_args(c, rng))
                    replugged = False
                    if t == "sgio" and rng.random() < 0.4:
                        devnode.replug(node)
                        replugged = True
                    if t == "sgio":
                        # the SG_IO binding reports a residual when the device transferred less than was allocated
                        sg.resid = (lambda e: (len(e["in"]) * 2) // 3 if e["in_len"] else 0) if rng.random() < 0.35 else None
                    idle = 0
                    if rng.random() < 0.4:
                        idle = rng.choice([31, 61, 301, 3601, 90000])
                        skew[0] += idle
                        ctx.count("calls_after_idle_time")
                    if rng.random() < 0.15:
                        # another, short-lived facade on the same device (a helper function built one and let it go): the device is
                        # the caller's and stays open
                        import gc

                        tmp = harness.make_facade(dev)
                        del tmp
                        gc.collect()
                        ctx.count("short_lived_facades_on_the_same_device")
                    mod.log = []
                    label = c.facade + (":%d" % c.facade_fixed["service_action"] if c.facade_fixed else "")
                    wit = {"method": label, "transport": t, "table": setname, "node_replaced_before_call": replugged, "idle_seconds_before_call": idle, "args": a}
                    ctx.case(("transport", t, label, setname, replugged, rep), True, sample={"method": label, "transport": t, "node_replaced_before_call": replugged} if ctx.want_sample() else None)
                    ctx.count("transport_facade_calls")
                    try:
                        cmd = harness.facade_call(c, s, DO.fresh(a) if c.custom else dict(a))
                    except Exception as e:  # noqa: BLE001
                        cmd = None
                        if not mod.log:
                            ctx.fail("C13:%s.transport.%s.rejected_before_send.%s" % (c.facade, t, type(e).__name__), "%s over %s raised %s before anything was sent: %s" % (c.facade, t, type(e).__name__, e), wit, exc=e)
                            continue
                    if len(mod.log) != 1:
                        ctx.fail("C13:%s.transport.%s.binding_calls_%d" % (c.facade, t, len(mod.log)), "%s over %s%s: the binding was called %d times"
                                 % (c.facade, t, " right after the node was replaced" if replugged else "", len(mod.log)), wit)
                        continue
                    ev = mod.log[0]
                    if ev.get("file_closed") or ev.get("connected") is False:
                        ctx.fail("C13:%s.transport.%s.sent_on_released_handle" % (c.facade, t), "the command went to a handle that had been released (%s) although the caller never closed the device"
                                 % ("closed file" if t == "sgio" else "disconnected session"), wit)
                    if t == "iscsi" and ev.get("lun") != 0:
                        ctx.fail("C13:%s.transport.iscsi.sent_to_other_logical_unit" % c.facade, "the command of the device opened on LUN 0 was addressed to LUN %r (other devices of the process are open on LUNs 5 and 300)" % ev.get("lun"), wit)
                    if t == "sgio" and not ev.get("file_closed") and ev.get("ino") != os.stat(node).st_ino:
                        ctx.fail("C13:%s.transport.sgio.sent_through_handle_of_replaced_node" % c.facade, "the handle given to the binding is not on the node now at the device path%s"
                                 % (" (the node was replaced before this call)" if replugged else ""), wit)
                    if cmd is not None:
                        if bytes(ev["cdb"]) != bytes(cmd.cdb) or len(cmd.cdb) != c.length or len(ev["cdb"]) != c.length:
                            ctx.fail("C13:%s.transport.%s.cdb_differs" % (c.facade, t), "the binding received %s, the returned command holds %s (a %d-byte command)"
                                     % (bytes(ev["cdb"]).hex(), bytes(cmd.cdb).hex(), c.length), wit)
                        if ev.get("in") is not None and len(cmd.datain) and ev["in"] is not cmd.datain:
                            ctx.fail("C13:%s.transport.%s.datain_not_the_callers" % (c.facade, t), "the binding filled another buffer than cmd.datain", wit)
                        if ev.get("out") is not None and len(cmd.dataout) and ev["out"] is not cmd.dataout:
                            ctx.fail("C13:%s.transport.%s.dataout_not_the_callers" % (c.facade, t), "the binding was given another buffer than cmd.dataout", wit)
                        ctx.count("transport_buffers_identified")
        finally:
            sg.resid = None
            for d in [dev] + others:
                try:
                    d.close()
                except Exception:  # noqa: BLE001
                    pass
            others = []
            mod.log = []


def helper_histories(ctx, rng, sg, isc, reps):
    """devices obtained the documented second way, pyscsi.utils.init_device(node or URL), by several users one after the other
    (each closes what it got, as `with SCSI(...)` does): every user's calls reach the binding exactly once each"""
    import pyscsi.pyscsi.scsi_enum_command as E
    from pyscsi.pyscsi.scsi import SCSI
    from pyscsi.utils import init_device

    from vmon import harness
    from vmon.sim import devnode
    from vmon.spec import cdb as S, dataout as DO

    facade_cmds = [c for c in S.COMMANDS.values() if c.facade and "sbc" in c.sets]
    for rep in range(reps):
        for t in ("sgio", "iscsi"):
            mod = sg if t == "sgio" else isc
            where = devnode.new_node() if t == "sgio" else "iscsi://127.0.0.1:3260/iqn.2003-01.org.example:target%d/0" % rep
            kw = rng.choice([{}, {"read_write": True}, {"read_write": False}])
            for user in range(3):
                how = rng.choice(["with", "close", "device_close"])
                wit = {"transport": t, "user": user, "released_by": how, "init_device_arguments": kw}
                mod.log = []
                try:
                    dev = init_device(where, **kw)
                    s = SCSI(dev, 512)
                except Exception as e:  # noqa: BLE001
                    ctx.fail("C13:helper.%s.attach_raises.%s" % (t, type(e).__name__), "user %d of a %s device obtained with init_device could not attach: %s: %s" % (user, t, type(e).__name__, e), wit, exc=e)
                    break
                inq = [ev for ev in mod.log if ev["cdb"] and ev["cdb"][0] == 0x12]
                if len(inq) != 1 or len(mod.log) != 1:
                    ctx.fail("C13:helper.%s.attach_binding_calls_%d" % (t, len(mod.log)), "attaching user %d sent %d commands" % (user, len(mod.log)), wit)
                dev.opcodes = E.sbc
                for c in rng.sample(facade_cmds, 3):
                    a = dict(required_args(c, rng))
                    if c.xfer in ("write", "custom") and not kw.get("read_write"):
                        pass  # (the stand-in does not enforce the open mode)
                    mod.log = []
                    ctx.case(("helper", t, user, how, c.facade, rep), True)
                    ctx.count("helper_device_calls")
                    try:
                        harness.facade_call(c, s, DO.fresh(a) if c.custom else dict(a))
                        err = None
                    except Exception as e:  # noqa: BLE001
                        err = e
                    if len(mod.log) != 1:
                        ctx.fail("C13:helper.%s.binding_calls_%d" % (t, min(len(mod.log), 3)), "%s of user %d on a device from init_device: the binding was called %d times (%s)"
                                 % (c.facade, user, len(mod.log), "%s: %s" % (type(err).__name__, err) if err else "no error"), dict(wit, method=c.facade, args=a), exc=err)
                        break
                    ev = mod.log[0]
                    if ev.get("file_closed") or ev.get("connected") is False:
                        ctx.fail("C13:helper.%s.sent_on_released_handle" % t, "%s of user %d went to a handle that an earlier user had released (%s): the real binding cannot deliver it"
                                 % (c.facade, user, "closed file" if t == "sgio" else "disconnected session"), dict(wit, method=c.facade, args=a))
                        break
                try:
                    if how == "with":
                        with s:
                            pass
                    elif how == "close":
                        s.device.close()
                    else:
                        dev.close()
                except Exception:  # noqa: BLE001
                    pass
                mod.log = []


class InjectedFault(Exception):
    pass


FAULTS = [TypeError, ValueError, KeyError, AttributeError, OSError, RuntimeError, IndexError, NotImplementedError, InjectedFault]


def fault_round(ctx, c, setname, a, rng):
    """the device fails *after* it has taken the command: still exactly one execute, the same exception object reaches
    the caller, nothing is decoded, nothing is returned"""
    import pyscsi.pyscsi.scsi_enum_command as E
    from pyscsi.pyscsi.scsi_command import SCSICommand

    from vmon import harness
    from vmon.spec import dataout as DO

    for exc_type in FAULTS:
        for when in ("first", "second_only"):
            calls = []
            raised = []

            class FailingDevice(harness.Recorder):
                def execute(self, cmd, en_raw_sense=False):
                    calls.append(cmd)
                    if when == "first" and len(calls) == 1 or when == "second_only" and len(calls) == 2:
                        e = exc_type("injected after the command was taken")
                        raised.append(e)
                        raise e

            dev = FailingDevice(getattr(E, setname))
            s = harness.make_facade(dev)
            n_unm = [0]
            orig = SCSICommand.unmarshall

            def hooked(self, **kw):
                n_unm[0] += 1
                return orig(self, **kw)

            SCSICommand.unmarshall = hooked
            try:
                try:
                    ret = harness.facade_call(c, s, DO.fresh(a) if c.custom else dict(a))
                    err = None
                except Exception as e:  # noqa: BLE001
                    ret, err = None, e
            finally:
                SCSICommand.unmarshall = orig
            label = c.facade
            wit = {"method": label, "table": setname, "fault": exc_type.__name__, "when": when, "args": a}
            ctx.case((label, setname, "fault", exc_type.__name__, when), True)
            ctx.count("fault_injections")
            if when == "second_only":
                if len(calls) != 1:
                    ctx.fail("C13:%s.execute_count_%d" % (label, len(calls)), "device.execute evaluated %d times" % len(calls), wit)
                continue
            if len(calls) != 1:
                ctx.fail("C13:facade.command_resent_after_device_error.%s" % exc_type.__name__,
                         "%s: device raised %s after taking the command and the facade sent it %d times" % (label, exc_type.__name__, len(calls)), wit)
            if err is None:
                ctx.fail("C13:facade.device_error_swallowed.%s" % exc_type.__name__, "%s returned normally although the device raised %s" % (label, exc_type.__name__), wit)
            elif raised and err is not raised[0]:
                ctx.fail("C13:facade.device_error_replaced.%s" % exc_type.__name__, "%s: caller got %r, device raised %r" % (label, err, raised[0]), wit)
            if n_unm[0]:
                ctx.fail("C13:facade.decoded_after_device_error", "%s decoded the buffer although the device raised" % label, wit)


def same(a, b):
    if isinstance(a, dict) and isinstance(b, dict):
        return a.keys() == b.keys() and all(same(a[k], b[k]) for k in a)
    if isinstance(a, (list, tuple)) and isinstance(b, (list, tuple)):
        return len(a) == len(b) and all(same(x, y) for x, y in zip(a, b))
    if isinstance(a, (bytes, bytearray)) and isinstance(b, (bytes, bytearray)):
        return bytes(a) == bytes(b)
    return a == b


def _finalize_extra(merged):
    c = merged["counters"]
    if c.get("attached_facade_calls", 0) < 100 or c.get("transport_buffers_identified", 0) < 50:
        merged["inconclusive"].append("attached-facade / transport phases did not run (%s, %s)" % (c.get("attached_facade_calls", 0), c.get("transport_buffers_identified", 0)))


def finalize(merged, tier):
    _finalize_extra(merged)
    c = merged["counters"]
    for k in ("facade_calls", "execute_hook_evaluations", "results_compared", "fault_injections", "session_calls", "own_table_calls", "helper_device_calls"):
        if c.get(k, 0) == 0:
            merged["inconclusive"].append("monitor never reached: %s" % k)
    n = len({m.split(":")[0] for m in merged["sets"].get("methods", ())})
    if n != 38:
        merged["inconclusive"].append("only %d of 38 facade methods were driven" % n)
    return {"facade_methods_driven": n,
            "observations": ["facade docstrings name 'range'/'alloc_len' where the signatures say 'rng'/'alloclen' (not judged)"]}


def replay(rec, ctx):
    w = rec["witness"]
    if "cmd" not in w:
        return run_sessions({"id": "session0", "cmd": None, "sessions": 30}, ctx)
    run({"id": w["cmd"], "cmd": w["cmd"], "reps": 1}, ctx)
