"""C10 - the bit-field codec obeys its algebraic laws for every layout.

Oracle: vmon/refcodec.py (bit-by-bit).  Workload: generated layouts of
non-overlapping fields + the library's own layouts replayed in vivo.
"""
import random

LEVEL = "exploration"
RULE = (
    "cases: (a) int<->bytes for sizes 0..16 x boundary/random values; (b) generated layouts of 1..8 non-overlapping "
    "fields (contiguous masks of 1..72 bits at every bit alignment spanning 1..10 bytes, offsets 0..40, b/w/dw blobs "
    "of 0..16 units) x values (exhaustive for width<=10 in the single-field sweep, boundary+random otherwise) x random "
    "prior buffer contents outside the fields x permuted field order; (c) every real encode_dict/decode_bits call made "
    "by library constructors/decoders replayed on the reference.  distinct = hash of (layout, values, prior buffer); "
    "non-trivial = some mask is not byte-aligned or is wider than 8 bits (or, for (a), size>=2 and value>=256)"
)
ASSUMPTIONS = [
    "refcodec.py (self-checked at start) is the ground truth for 'bits of a field'",
    "premise of the statement: field bits are zero in the buffer before encoding; values fit their field",
]


def shards(tier, seed):
    n = 16 if tier == "quick" else 64
    out = [{"id": "int"}, {"id": "int-wide"}, {"id": "sweep"}, {"id": "invivo"}]
    out += [{"id": "layout%d" % i, "n": 900 if tier == "quick" else 6000} for i in range(n)]
    return out


def mask_of(byte, msb, width, extra=0):
    """library notation [mask, offset] for reference field (byte, msb, width); `extra` whole zero bytes are appended to
    the span (a non-minimal but legitimate way to write the same field, e.g. [0x8000, n] for bit 7 of byte n)"""
    lead = 7 - msb
    nbytes = (lead + width + 7) // 8
    trail = 8 * nbytes - lead - width
    return [((1 << width) - 1) << (trail + 8 * extra), byte], nbytes + extra


def field_of(mask, off):
    """reference field for a library [mask, offset]; None if not contiguous"""
    if mask <= 0:
        return None
    bl = mask.bit_length()
    nbytes = (bl + 7) // 8
    tz = (mask & -mask).bit_length() - 1
    width = bl - tz
    if (mask >> tz) != (1 << width) - 1:
        return None
    msb = bl - 1 - 8 * (nbytes - 1)
    return (off, msb, width)


def gen_layout(rng, size):
    """random non-overlapping fields inside `size` bytes (reference notation)"""
    used = set()
    fields = []
    for _ in range(rng.choice([1, 2, 3, 4, 6, 8, 12, 13, 16, 24])):
        for _try in range(20):
            kind = rng.random()
            if kind < 0.75:
                width = rng.choice([1, 1, 2, 3, 4, 5, 7, 8, 9, 12, 15, 16, 17, 24, 31, 32, 33, 48, 60, 64, 65, 72])
                byte = rng.randrange(0, size)
                msb = rng.randrange(0, 8)
                bits = set(range(8 * byte + 7 - msb, 8 * byte + 7 - msb + width))
                if max(bits) >= 8 * size or bits & used:
                    continue
                used |= bits
                fields.append(("m", byte, msb, width))
                break
            else:
                k = rng.choice(["b", "w", "dw"])
                unit = {"b": 1, "w": 2, "dw": 4}[k]
                n = rng.choice([0, 1, 2, 3, 4, 8, 16])
                off = rng.randrange(0, size)
                bits = set(range(8 * off, 8 * (off + n * unit)))
                if off + n * unit > size or bits & used:
                    continue
                used |= bits
                fields.append((k, off, n, unit))
                break
    return fields, used


def gen_layout_big(rng, size):
    """fields clustered around the byte offsets where an implementation might change gears (255/256, 511/512, 1023/1024, ...)
    in buffers of several hundred to several thousand bytes (VPD pages, IDENTIFY data, element status)"""
    used = set()
    fields = []
    marks = [m for m in (128, 256, 512, 1024, 2048, 4096, size) if m <= size]
    for _ in range(rng.choice([2, 4, 8, 12])):
        for _try in range(20):
            m = rng.choice(marks)
            if rng.random() < 0.8:
                width = rng.choice([1, 3, 8, 9, 16, 17, 24, 31, 32, 33, 48, 64, 65, 72])
                byte = max(0, min(size - 1, m + rng.randint(-10, 2)))
                msb = rng.randrange(0, 8)
                bits = set(range(8 * byte + 7 - msb, 8 * byte + 7 - msb + width))
                if max(bits) >= 8 * size or bits & used:
                    continue
                used |= bits
                fields.append(("m", byte, msb, width))
                break
            k = rng.choice(["b", "w", "dw"])
            unit = {"b": 1, "w": 2, "dw": 4}[k]
            n = rng.choice([1, 2, 4, 8, 20])
            off = max(0, min(size - 1, m + rng.randint(-24, 2)))
            bits = set(range(8 * off, 8 * (off + n * unit)))
            if off + n * unit > size or bits & used:
                continue
            used |= bits
            fields.append((k, off, n, unit))
            break
    return fields, used


CTYPES_CHAR_BASELINE_RAISES = [False]


def fields_are_all_blobs(fields):
    return all(f[0] != "m" for f in fields)


NAME_STYLES = ["f.%d", "grp.f%d", "grp.sub.f%d", "%d", "field %d", "f%d.", ".f%d", "__f%d__", "f-%d", "größe%d", "f%d[0]", "keys%d", "f/%d", "f%d:x"]


def failing_calls(ctx, conv):
    """calls that fail (a field beyond the buffer, a value that is no number): whatever they raise, they leave nothing behind
    for the calls that follow"""
    for args in (({"x": 3, "y": 0x77, "z": 0xABCD}, {"x": [0x0F, 0], "y": [0xFF, 9], "z": [0xFFFF, 2]}, bytearray(4)),
                 ({"a": 0x11, "x": None}, {"a": [0xFF, 1], "x": [0xFF, 0]}, bytearray(4)),
                 ({"a": 0x5A, "blob": b"\x01\x02\x03"}, {"a": [0xF0, 0], "blob": ("b", 2, 3)}, bytearray(3)),
                 ({"a": 1, "s": "text"}, {"a": [0x01, 0], "s": [0xFFFF, 1]}, bytearray(8))):
        try:
            conv.encode_dict(*args)
            ctx.count("bad_calls_accepted")
        except Exception:  # noqa: BLE001
            ctx.count("failing_calls_in_between")
    try:
        conv.decode_bits(bytearray(2), {"a": [0xFF, 0], "far": [0xFFFF, 7]}, {})
    except Exception:  # noqa: BLE001
        ctx.count("failing_calls_in_between")


def run_layout_case(ctx, conv, R, rng, size, fields, used, values=None, tag="layout"):
    import collections

    from vmon import harness

    if rng.random() < 0.05:
        failing_calls(ctx, conv)
    # field names are the caller's: any string is a name and nothing more (dots, blanks, digits, other alphabets, dunder names)
    style = rng.choice(NAME_STYLES) if rng.random() < 0.3 else "f%d"
    names = [style % i for i in range(len(fields))]
    if values is not None:
        values = {style % int(k[1:]): v for k, v in values.items()}
    if style != "f%d":
        ctx.add("name_styles", style)
    check = {}
    vals = {}
    nontrivial = False
    for name, f in zip(names, fields):
        if f[0] == "m":
            _k, byte, msb, width = f
            extra = 0
            if rng.random() < 0.15:
                extra = rng.choice([1, 2])
                if byte + (7 - msb + width + 7) // 8 + extra > size:
                    extra = 0
            check[name], _n = mask_of(byte, msb, width, extra)
            if rng.random() < 0.15:
                check[name] = tuple(check[name])  # the notation's type admits lists and tuples alike
                ctx.count("masks_written_as_tuples")
            if extra:
                ctx.count("non_minimal_span_masks")
            vals[name] = rng.getrandbits(width) if values is None else values[name]
            if width > 8 or (7 - msb + width) % 8 or msb != 7:
                nontrivial = True
        else:
            k, off, n, unit = f
            kind_str = k if rng.random() < 0.7 else harness.fresh_str(k)  # the kind as a literal, or a string made at run time
            check[name] = (kind_str, off, n) if rng.random() < 0.85 else [kind_str, off, n]
            vals[name] = bytearray(rng.getrandbits(8) for _ in range(n * unit))
    prior = bytearray(rng.getrandbits(8) for _ in range(size))
    for pos in used:
        prior[pos // 8] &= ~(0x80 >> (pos % 8)) & 0xFF
    # reference result
    ref = bytearray(prior)
    for name, f in zip(names, fields):
        if f[0] == "m":
            R.put(ref, f[1], f[2], f[3], vals[name])
        else:
            ref[f[1] : f[1] + f[2] * f[3]] = vals[name]
    rep = (tuple(fields), tuple((k, bytes(v) if isinstance(v, bytearray) else v) for k, v in vals.items()), bytes(prior))
    want_sample = ctx.want_sample()
    ctx.case(rep, nontrivial, sample={"size": size, "layout": [list(map(str, f)) for f in fields],
                                       "values": vals} if want_sample else None)
    for f in fields:
        ctx.add("mask_shapes", "%s:w%d:msb%s" % (f[0], f[3] if f[0] == "m" else f[2], f[2] if f[0] == "m" else "-"))
    wit = {"size": size, "fields": [list(f) for f in fields], "values": vals, "prior": prior}
    # encode, in two different field orders
    order = list(names)
    buf1 = bytearray(prior)
    # values as callers have them: plain ints, bool for one-bit fields, members of an int subclass (enum.IntEnum style)
    given = dict(vals)
    if rng.random() < 0.2:
        for name, f in zip(names, fields):
            if f[0] == "m" and f[3] <= 20:  # enumeration members and flags are small numbers
                given[name] = bool(vals[name]) if f[3] == 1 else harness.IntSub(vals[name])
        ctx.count("layouts_with_int_subclass_values")
    # blob values as buffers whose items are wider than a byte (array('H') for words, array('I') for double words, a cast
    # memoryview): the bytes of the buffer are what is written
    if rng.random() < 0.2:
        import array

        for name, f in zip(names, fields):
            if f[0] in ("w", "dw") and f[2] and rng.random() < 0.7:
                code = {"w": "H", "dw": "I"}[f[0]]
                if array.array(code).itemsize != f[3]:
                    continue
                arr = array.array(code)
                arr.frombytes(bytes(vals[name]))
                given[name] = arr if rng.random() < 0.6 else memoryview(bytearray(vals[name])).cast(code)
                ctx.count("blob_values_with_wide_items")
    if rng.random() < 0.15:
        # byte blobs as ctypes character buffers (NUL bytes inside are bytes like any other), one-bit fields as members of an
        # IntEnum (objects that also have a .value)
        import ctypes
        import enum

        class Flag(enum.IntEnum):
            OFF = 0
            ON = 1

        for name, f in zip(names, fields):
            if f[0] == "b" and f[2]:
                given[name] = ctypes.create_string_buffer(bytes(vals[name]), len(vals[name]))
                ctx.count("blob_values_as_character_buffers")
            elif f[0] == "m" and f[3] == 1:
                given[name] = Flag(vals[name])
    # ... in any Mapping (the notation's own type annotation), not only a dict
    as_mapping = rng.choice([dict, dict, dict, collections.UserDict, collections.OrderedDict, lambda d: collections.ChainMap(d)])
    data1 = {k: given[k] for k in order}
    if rng.random() < 0.25:
        # entries that name no field of the layout are not encoded, whatever they hold
        stray = {"_none": 0xFF, names[0].partition(".")[0] + "_": 1, "_map": {"f0": 1}, "_list": [255, 0, 8], "_bytes": b"\xff\xff"}
        if "." in names[0]:
            head, _d, tail = names[0].partition(".")
            stray[head] = {tail: vals[names[0]] if not isinstance(vals[names[0]], bytearray) else 1, names[0]: 1}
        data1.update(stray)
        ctx.count("encodes_with_entries_outside_the_layout")
    layout1 = {k: check[k] for k in order}
    if len(data1) > len(order) and rng.random() < 0.5:
        # the layout in a dictionary that makes up entries for unknown names (a defaultdict filled row by row): names that are
        # not fields stay what they are -- nothing is encoded for them, nothing is added to the layout
        layout1 = collections.defaultdict(list, layout1)
        ctx.count("layouts_with_default_factory")
    try:
        conv.encode_dict(as_mapping(data1), layout1, buf1)
        if set(layout1) != set(order):
            ctx.fail("C10:encode.layout_changed", "encode_dict added %r to the caller's layout" % sorted(map(str, set(layout1) - set(order)))[:4], wit)
    except Exception as e:  # noqa: BLE001
        ctx.fail("C10:encode.raises", "encode_dict raised %s" % type(e).__name__, wit, exc=e)
        return
    rng.shuffle(order)
    buf2 = bytearray(prior)
    conv.encode_dict({k: vals[k] for k in order}, {k: check[k] for k in reversed(order)}, buf2)
    ctx.count("encode_calls", 2)
    # the same layout dictionary used again after its notations were edited in place (a structure relocated by a header of 8 more
    # bytes): the next encode writes where the notations point now
    masks = [n for n, f in zip(names, fields) if f[0] == "m" and isinstance(check[n], list)]
    if masks and len(masks) == len(names) and rng.random() < 0.2:
        lay = {k: check[k] for k in names}
        a1, a2 = bytearray(size + 8), bytearray(size + 8)
        try:
            conv.encode_dict({k: vals[k] for k in names}, lay, a1)
            for n in masks:
                lay[n][1] += 8
            conv.encode_dict({k: vals[k] for k in names}, lay, a2)
            back = {}
            conv.decode_bits(a2, lay, back)
            for n in masks:
                lay[n][1] -= 8
            ctx.count("layouts_edited_in_place")
            want2 = bytearray(size + 8)
            for name, f in zip(names, fields):
                R.put(want2, f[1] + 8, f[2], f[3], vals[name])
            if bytes(a2) != bytes(want2) or any(back.get(n) != vals[n] for n in names):
                ctx.fail("C10:encode.layout_edited_in_place", "after the layout's offsets were raised by 8 in place, encode_dict wrote %s, the notations now say %s" % (bytes(a2).hex(), bytes(want2).hex()), wit)
        except Exception as e:  # noqa: BLE001
            ctx.fail("C10:encode.raises", "encode with a layout edited in place raised %s" % type(e).__name__, wit, exc=e)
    if buf1 != ref:
        bad = classify(fields, names, buf1, ref, R)
        ctx.fail("C10:encode.%s" % bad, "encode_dict wrote %s, reference %s" % (bytes(buf1).hex(), bytes(ref).hex()), wit)
    if buf1 != buf2:
        ctx.fail("C10:encode.order_dependent", "result depends on field order", wit)
    # records that supply only some of the layout's fields (the others keep what the buffer held), among few or many entries that
    # name no field (a 100-column row of which the layout takes five); written into the kinds of buffer callers encode into
    if rng.random() < 0.35:
        import array
        import ctypes
        import mmap

        sub = [n_ for n_ in names if rng.random() < 0.6]
        nstray = rng.choice([0, 3, 31, 32, 33, 40, 64, 120])
        items = [("column_%d" % i, rng.choice([i, None, "text", b"\x01", [1, 2]])) for i in range(nstray)] + [(k, vals[k]) for k in sub]
        rng.shuffle(items)
        data3 = dict(items)
        masks_only = all(f[0] == "m" for n_, f in zip(names, fields) if n_ in sub)
        kind3 = rng.choice(["bytearray", "memoryview", "array_B", "mmap", "ctypes_ubyte"]) if masks_only and size else "bytearray"
        if kind3 == "memoryview":
            back3 = bytearray(prior)
            buf3 = memoryview(back3)
        elif kind3 == "array_B":
            buf3 = array.array("B", bytes(prior))
        elif kind3 == "mmap":
            buf3 = mmap.mmap(-1, size)
            buf3[:] = bytes(prior)
        elif kind3 == "ctypes_ubyte":
            buf3 = (ctypes.c_ubyte * size)(*prior)
        else:
            buf3 = bytearray(prior)
        ref3 = bytearray(prior)
        for name, f in zip(names, fields):
            if name in sub:
                if f[0] == "m":
                    R.put(ref3, f[1], f[2], f[3], vals[name])
                else:
                    ref3[f[1] : f[1] + f[2] * f[3]] = vals[name]
        wit3 = dict(wit, supplied=sub, entries_outside_the_layout=nstray, buffer=kind3)
        ctx.count("partial_records_encoded")
        ctx.add("encode_target_kinds", kind3)
        ctx.add("entries_outside_the_layout", nstray)
        try:
            conv.encode_dict(data3, {k: check[k] for k in names}, buf3)
            got3 = bytes(buf3[:]) if kind3 != "ctypes_ubyte" else bytes(bytearray(buf3))
            if got3 != bytes(ref3):
                ctx.fail("C10:encode.partial_record", "a record with %d of %d fields and %d other entries, encoded into a %s: %s, reference %s" % (len(sub), len(names), nstray, kind3, got3.hex(), bytes(ref3).hex()), wit3)
        except Exception as e:  # noqa: BLE001
            ctx.fail("C10:encode.raises.partial_record", "encode_dict of a record with %d of %d fields and %d other entries into a %s raised %s" % (len(sub), len(names), nstray, kind3, type(e).__name__), wit3, exc=e)
        finally:
            if kind3 == "mmap":
                buf3.close()
    # decode what the reference encoded (plus noise outside): exact field bits
    out1 = {}
    src1 = bytearray(ref)
    try:
        conv.decode_bits(src1, check, out1)
        # what was decoded is a snapshot: reusing the receive buffer afterwards does not change it, and editing a decoded blob in
        # place does not write into (or resize) the buffer it came from
        snap = {k: bytes(v) for k, v in out1.items() if isinstance(v, (bytes, bytearray, memoryview))}
        for i in range(len(src1)):
            src1[i] ^= 0xFF
        if any(bytes(out1[k]) != b for k, b in snap.items()):
            ctx.fail("C10:decode.blob_follows_source_buffer", "a decoded blob changed when the buffer it was decoded from was overwritten", wit)
        before = bytes(src1)
        for k, v in out1.items():
            if isinstance(v, bytearray) and len(v):
                v[0] ^= 0xFF
                v += b"\x00"
        if bytes(src1) != before:
            ctx.fail("C10:decode.blob_is_the_source_buffer", "editing a decoded blob in place changed the buffer it was decoded from", wit)
        out1 = {}
        conv.decode_bits(ref, check, out1)
        ctx.count("decoded_blobs_checked_for_aliasing", len(snap))
    except Exception as e:  # noqa: BLE001
        ctx.fail("C10:decode.raises", "decode_bits raised %s" % type(e).__name__, wit, exc=e)
        return
    # the data as other kinds of buffer: a window into a larger response (memoryview slice, also of a cast view), an immutable
    # bytes object, a ctypes character buffer (whose items are 1-byte bytes, not ints)
    if rng.random() < 0.3:
        import ctypes

        kind = rng.choice(["subview", "subview", "bytes", "ctypes_char", "array_B"])
        lead = rng.randrange(1, 9)
        if kind == "subview":
            whole = bytearray(rng.getrandbits(8) for _ in range(lead)) + bytearray(ref) + bytearray(rng.getrandbits(8) for _ in range(rng.randrange(0, 5)))
            alt = memoryview(whole)[lead:lead + len(ref)]
        elif kind == "bytes":
            alt = bytes(ref)
        elif kind == "array_B":
            import array

            alt = array.array("B", bytes(ref))
        else:
            alt = ctypes.create_string_buffer(bytes(ref), len(ref))
        ctx.add("decode_buffer_kinds", kind)
        out_alt = {}
        try:
            conv.decode_bits(alt, check, out_alt)
            for name, f in zip(names, fields):
                want = R.get(ref, f[1], f[2], f[3]) if f[0] == "m" else bytes(ref[f[1]: f[1] + f[2] * f[3]])
                got = out_alt.get(name)
                if f[0] != "m":
                    got = bytes(got) if isinstance(got, (bytes, bytearray, memoryview)) or hasattr(got, "tobytes") else got
                    got = got if isinstance(got, bytes) else None
                if got != want:
                    ctx.fail("C10:decode.from_%s" % kind, "decode_bits of a %s gives %r for %s, the bytes hold %r" % (kind, out_alt.get(name) if f[0] == "m" else got, name, want if f[0] == "m" else want[:12]), wit)
                    break
        except Exception as e:  # noqa: BLE001
            if kind != "ctypes_char" or not fields_are_all_blobs(fields):
                if kind == "ctypes_char":
                    ctx.count("ctypes_char_decodes_raised")  # judged by comparison with the unchanged behaviour below
                    if not CTYPES_CHAR_BASELINE_RAISES[0]:
                        ctx.fail("C10:decode.raises", "decode_bits of a ctypes character buffer raised %s" % type(e).__name__, wit, exc=e)
                else:
                    ctx.fail("C10:decode.raises", "decode_bits of a %s raised %s" % (kind, type(e).__name__), wit, exc=e)
    out2 = rng.choice([dict, dict, collections.UserDict, collections.OrderedDict, lambda: collections.ChainMap({})])()
    try:
        conv.decode_bits(ref, {k: check[k] for k in order}, out2)
    except Exception as e:  # noqa: BLE001
        ctx.fail("C10:decode.raises", "decode_bits (fields in another order, result in a %s) raised %s" % (type(out2).__name__, type(e).__name__), wit, exc=e)
        return
    ctx.add("mapping_types", type(out2).__name__)
    out2 = dict(out2)
    ctx.count("decode_calls", 2)
    for name, f in zip(names, fields):
        if f[0] == "m":
            want = R.get(ref, f[1], f[2], f[3])
            if out1.get(name) != want:
                ctx.fail("C10:decode.%s" % shape(f), "decode_bits gave %r for %s, reference %r" % (out1.get(name), name, want), wit)
            elif want != vals[name]:
                ctx.inconclusive_because("reference codec disagrees with itself")
        else:
            want = bytes(ref[f[1] : f[1] + f[2] * f[3]])
            got = out1.get(name, b"?")
            if not isinstance(got, (bytes, bytearray, memoryview)) or bytes(got) != want:
                ctx.fail("C10:decode.blob_%s" % f[0], "decode_bits blob %s is %r, the buffer holds %r" % (name, got if not isinstance(got, (bytes, bytearray)) else bytes(got)[:16], want[:16]), wit)
    def plain(d):
        return {k: (bytes(v) if isinstance(v, (bytes, bytearray)) else v) for k, v in d.items()}

    if set(out1) != set(names):
        ctx.fail("C10:decode.result_keys", "decode_bits stored its values under %r, the layout's names are %r" % (sorted(map(str, out1))[:6], names[:6]), wit)
    if plain(out1) != plain(out2):
        ctx.fail("C10:decode.order_dependent", "decode result depends on field order", wit)
    # the result dictionary is the caller's: decoding into one that already holds values (of an earlier decode with the same
    # names, or unrelated entries) must store what *this* buffer holds and leave unrelated entries alone
    other = bytearray(rng.getrandbits(8) for _ in range(len(ref)))
    out3 = {"_unrelated": 1234}
    try:
        conv.decode_bits(other, check, out3)
        conv.decode_bits(ref, check, out3)
    except Exception as e:  # noqa: BLE001
        ctx.fail("C10:decode.raises", "decode_bits into a used dictionary raised %s" % type(e).__name__, wit, exc=e)
        return
    ctx.count("decode_calls", 2)
    ctx.count("decodes_into_used_dictionary")
    if out3.pop("_unrelated", None) != 1234:
        ctx.fail("C10:decode.unrelated_entry_lost", "decode_bits removed or changed an unrelated entry of the result dictionary", wit)
    if plain(out3) != plain(out1):
        stale = [k for k in out1 if plain(out3).get(k) != plain(out1)[k]]
        ctx.fail("C10:decode.into_used_dictionary", "decoding into a dictionary that already held %r does not give the buffer's values" % stale[:3], wit)


def shape(f):
    _k, byte, msb, width = f
    aligned = msb == 7 and width % 8 == 0
    return "mask.%s.%s" % ("aligned" if aligned else "unaligned", "wide" if width > 64 else ("multi" if (7 - msb + width) > 8 else "single"))


def classify(fields, names, got, ref, R):
    for name, f in zip(names, fields):
        if f[0] == "m":
            if R.get(got, f[1], f[2], f[3]) != R.get(ref, f[1], f[2], f[3]):
                return shape(f)
        else:
            if got[f[1] : f[1] + f[2] * f[3]] != ref[f[1] : f[1] + f[2] * f[3]]:
                return "blob_%s" % f[0]
    return "outside_field_bits"


def run(shard, ctx):
    import pyscsi.utils.converter as conv

    from vmon import gen, refcodec as R
    from vmon import selfcheck

    sid = shard["id"]
    rng = ctx.rng()
    if sid == "int":
        if selfcheck.run_all():
            ctx.inconclusive_because("reference self-check failed")
            return
        for size in range(0, 17):
            vals = set(gen.boundary(8 * size)) if size else {0}
            for _ in range(300):
                vals.add(rng.getrandbits(8 * size) if size else 0)
            for v in sorted(vals):
                ctx.case(("int", size, v), size >= 2 and v >= 256, sample={"value": v, "size": size} if ctx.want_sample() else None)
                try:
                    ba = conv.scsi_int_to_ba(v, size)
                    back = conv.scsi_ba_to_int(ba)
                except Exception as e:  # noqa: BLE001
                    ctx.fail("C10:int.raises", "int/bytes conversion raised", {"value": v, "size": size}, exc=e)
                    continue
                if bytes(ba) != bytes(R.be(v, size)) or not isinstance(ba, bytearray):
                    ctx.fail("C10:int_to_ba", "scsi_int_to_ba(%#x,%d) = %s" % (v, size, bytes(ba).hex()), {"value": v, "size": size})
                if back != v or back != R.from_be(ba):
                    ctx.fail("C10:ba_to_int", "scsi_ba_to_int(%s) = %#x" % (bytes(ba).hex(), back), {"value": v, "size": size})
                ctx.count("int_roundtrips")
                # the caller owns the result: changing it must not influence a later conversion of the same value
                if size:
                    ba[0] ^= 0xFF
                ba += b"\x55"
                again = conv.scsi_int_to_ba(v, size)
                if again is ba or bytes(again) != bytes(R.be(v, size)):
                    ctx.fail("C10:int_to_ba.result_depends_on_history", "scsi_int_to_ba(%#x,%d) after the caller changed an earlier result = %s" % (v, size, bytes(again).hex()),
                             {"value": v, "size": size})
            if size >= 8:
                m61 = (1 << 61) - 1
                for small, mult in ((0, 1), (1, 1), (7, 8), (4, 4), (0x1234, 5), (255, 3)):
                    for v in (small, small + mult * m61, small, small + mult * m61):
                        if v >> (8 * size):
                            continue
                        ctx.case(("int-congruent", size, v), True)
                        if bytes(conv.scsi_int_to_ba(v, size)) != bytes(R.be(v, size)):
                            ctx.fail("C10:int_to_ba.result_depends_on_history", "scsi_int_to_ba(%#x,%d) wrong right after converting a value congruent mod 2**61-1" % (v, size),
                                     {"value": v, "size": size})
            for _ in range(200):
                b = bytes(rng.getrandbits(8) for _ in range(size))
                ctx.case(("ba", b), size >= 2)
                for typ in (bytes, bytearray):
                    if conv.scsi_ba_to_int(typ(b)) != R.from_be(b):
                        ctx.fail("C10:ba_to_int", "scsi_ba_to_int(%s) wrong" % b.hex(), {"bytes": b})
        return
    if sid == "int-wide":
        # "for every width": also the sizes of whole parameter lists and identifiers (hundreds of bytes)
        sizes = [17, 20, 24, 31, 32, 33, 48, 63, 64, 65, 100, 127, 128, 129, 200, 254, 255, 256, 257, 258, 260, 300, 511, 512, 513, 1000, 1024, 1025, 2048, 4096, 65536]
        for size in sizes:
            vals = [0, 1, 255, 256, (1 << (8 * size)) - 1, 1 << (8 * size - 1), 1 << (8 * (size - 1)), (1 << (8 * size)) - 256]
            vals += [rng.getrandbits(8 * size) for _ in range(12)] + [rng.getrandbits(rng.randint(1, 8 * size)) for _ in range(6)]
            for v in vals:
                ctx.case(("int", size, v), True)
                try:
                    ba = conv.scsi_int_to_ba(v, size)
                    back = conv.scsi_ba_to_int(ba)
                    back2 = conv.scsi_ba_to_int(bytes(R.be(v, size)))
                except Exception as e:  # noqa: BLE001
                    ctx.fail("C10:int.raises", "int/bytes conversion raised for size %d" % size, {"value": v, "size": size}, exc=e)
                    continue
                ctx.count("wide_int_roundtrips")
                ctx.add("wide_sizes", size)
                if bytes(ba) != bytes(R.be(v, size)) or not isinstance(ba, bytearray):
                    ctx.fail("C10:int_to_ba", "scsi_int_to_ba(value, %d) is not the big-endian representation (first difference at byte %d)" % (
                        size, next((i for i in range(min(len(ba), size)) if ba[i] != R.be(v, size)[i]), -1)), {"value": v, "size": size})
                if back != v or back2 != v:
                    ctx.fail("C10:ba_to_int", "scsi_ba_to_int of the %d-byte representation does not give the value back" % size, {"value": v, "size": size})
        return
    if sid == "sweep":
        # single field, every alignment, exhaustive values for narrow fields
        for width in list(range(1, 11)) + [12, 16, 17, 24, 31, 32, 33, 40, 48, 56, 63, 64, 65, 72]:
            for msb in range(8):
                for byte in (0, 3):
                    size = byte + (7 - msb + width + 7) // 8 + 1
                    f = ("m", byte, msb, width)
                    used = R.bitset(byte, msb, width)
                    values = range(1 << width) if width <= 10 else gen.boundary(width) + [rng.getrandbits(width) for _ in range(40)]
                    if width <= 10 and shard.get("tier") != "thorough" and width > 8:
                        values = list(range(0, 1 << width, 3)) + [(1 << width) - 1]
                    for v in values:
                        run_layout_case(ctx, conv, R, rng, size + 2, [f], used, values={"f0": v}, tag="sweep")
        ctx.count("sweep_done")
        return
    if sid == "invivo":
        invivo(ctx, conv, R)
        return
    for i in range(shard["n"]):
        if i % 17 == 3:
            # one blob that is the whole buffer (a payload-only layout), or exactly its head or tail
            unit_k = rng.choice([("b", 1), ("w", 2), ("dw", 4)])
            n_items = rng.choice([1, 2, 3, 4, 8, 16, 64])
            size = n_items * unit_k[1] + rng.choice([0, 0, 0, 1, 4])
            off = rng.choice([0, 0, size - n_items * unit_k[1]])
            fields = [(unit_k[0], off, n_items, unit_k[1])]
            used = set(range(8 * off, 8 * (off + n_items * unit_k[1])))
            ctx.count("whole_buffer_blob_layouts")
        elif i % 97 == 11:
            # a structure described field by field with hundreds of fields (IDENTIFY data word by word, a bitmap bit by bit): more
            # fields than fit a byte-sized index
            nf = rng.choice([200, 255, 256, 257, 258, 300, 513, 700])
            kind = rng.choice(["words", "bytes", "bits"])
            if kind == "words":
                size = 2 * nf + rng.choice([0, 2])
                fields = [("m", 2 * k, 7, 16) for k in range(nf)]
            elif kind == "bytes":
                size = nf + rng.choice([0, 1])
                fields = [("m", k, 7, 8) for k in range(nf)]
            else:
                size = (nf + 7) // 8
                fields = [("m", k // 8, 7 - k % 8, 1) for k in range(nf)]
            used = set()
            for f in fields:
                used |= set(range(8 * f[1] + 7 - f[2], 8 * f[1] + 7 - f[2] + f[3]))
            ctx.count("layouts_with_hundreds_of_fields")
        elif i % 6 == 5:
            size = rng.choice([200, 255, 256, 257, 300, 511, 512, 513, 520, 572, 1024, 1030, 2052, 4100])
            fields, used = gen_layout_big(rng, size)
            ctx.count("big_buffer_layouts")
        else:
            size = rng.choice([1, 2, 4, 8, 12, 16, 24, 32, 48])
            fields, used = gen_layout(rng, size)
        if fields:
            run_layout_case(ctx, conv, R, rng, size, fields, used)


def invivo(ctx, conv, R):
    """replay every real encode_dict/decode_bits call of library code on the
    reference (the library's own ~150 layouts)."""
    import importlib
    import pkgutil
    import sys

    import pyscsi.pyscsi

    from vmon import harness
    from vmon.spec import cdb as S, datain as D

    real_enc, real_dec = conv.encode_dict, conv.decode_bits
    stats = {"enc": 0, "dec": 0}

    def enc(data_dict, check_dict, result):
        before = bytearray(result)
        real_enc(data_dict, check_dict, result)
        stats["enc"] += 1
        ref = bytearray(before)
        ok = True
        for k, v in data_dict.items():
            if k not in check_dict:
                continue
            c = check_dict[k]
            if len(c) == 2:
                f = field_of(c[0], c[1])
                if f is None:
                    ctx.add("noncontiguous_library_masks", "%s=%#x" % (k, c[0]))
                    ok = False
                    continue
                if not isinstance(v, int) or v < 0 or v >> f[2]:
                    ok = False  # value outside field: outside the quantifier
                    continue
                try:
                    if R.get(before, *f) != 0:
                        ok = False  # premise (field bits zero before) not met
                        ctx.count("invivo_premise_not_met")
                        continue
                    R.put(ref, f[0], f[1], f[2], v)
                except IndexError:
                    ok = False
            else:
                unit = {"b": 1, "w": 2, "dw": 4}[c[0]]
                try:
                    if len(v) != c[2] * unit:
                        ok = False
                        continue
                except TypeError:
                    ok = False
                    continue
                ref[c[1] : c[1] + c[2] * unit] = v
        ctx.case(("invivo-enc", tuple(sorted((k, str(check_dict[k])) for k in data_dict if k in check_dict)), bytes(before)), True)
        for k in data_dict:
            if k in check_dict:
                ctx.add("library_layout_fields", "%s@%s" % (k, list(check_dict[k])))
        if ok and bytes(result) != bytes(ref):
            ctx.fail("C10:invivo.encode", "library layout encoded to %s, reference %s" % (bytes(result).hex()[:80], bytes(ref).hex()[:80]),
                     {"data": {k: v for k, v in data_dict.items() if k in check_dict}, "layout": {k: list(v) for k, v in check_dict.items()},
                      "before": before})

    def dec(data, check_dict, result_dict):
        real_dec(data, check_dict, result_dict)
        stats["dec"] += 1
        ctx.case(("invivo-dec", tuple(sorted((k, str(v)) for k, v in check_dict.items())), bytes(data[:64])), True)
        for k, c in check_dict.items():
            ctx.add("library_layout_fields", "%s@%s" % (k, list(c)))
            if len(c) == 2:
                f = field_of(c[0], c[1])
                if f is None:
                    ctx.add("noncontiguous_library_masks", "%s=%#x" % (k, c[0]))
                    continue
                need = f[0] + (7 - f[1] + f[2] + 7) // 8
                if need > len(data):
                    continue  # truncated buffer: outside the statement
                want = R.get(data, *f)
                if result_dict.get(k) != want:
                    ctx.fail("C10:invivo.decode", "library layout %s=%s decoded %r, reference %r" % (k, list(c), result_dict.get(k), want),
                             {"field": k, "layout": list(c), "data": bytes(data[:64])})

    patched = []
    for mi in pkgutil.iter_modules(pyscsi.pyscsi.__path__):
        try:
            m = importlib.import_module("pyscsi.pyscsi." + mi.name)
        except Exception:  # noqa: BLE001
            continue
        for attr, new in (("encode_dict", enc), ("decode_bits", dec)):
            if getattr(m, attr, None) in (real_enc, real_dec):
                setattr(m, attr, new)
                patched.append((m, attr))
    conv.encode_dict, conv.decode_bits = enc, dec
    try:
        rng = ctx.rng("invivo")
        for name, c in S.COMMANDS.items():
            if c.custom:
                continue
            for _ in range(30):
                a = harness.random_args(c, rng)
                try:
                    cmd = harness.construct(c, c.sets[0], a)
                    c.load().unmarshall_cdb(cmd.cdb)
                except Exception:  # noqa: BLE001
                    ctx.count("invivo_construct_raised")
        for fname, f in D.FORMATS.items():
            for _ in range(30):
                v = f.gen(rng)
                b = f.encode(v)
                try:
                    f.lib_decode(b, v)
                except Exception:  # noqa: BLE001
                    ctx.count("invivo_decode_raised")
                if f.builder:
                    try:
                        f.lib_build(f.lib_input(v))
                    except Exception:  # noqa: BLE001
                        ctx.count("invivo_build_raised")
    finally:
        conv.encode_dict, conv.decode_bits = real_enc, real_dec
        for m, attr in patched:
            setattr(m, attr, real_enc if attr == "encode_dict" else real_dec)
    ctx.count("invivo_encode_calls", stats["enc"])
    ctx.count("invivo_decode_calls", stats["dec"])
    ctx.count("invivo_modules_patched", len(patched))


def finalize(merged, tier):
    c = merged["counters"]
    if c.get("invivo_encode_calls", 0) == 0 or c.get("invivo_decode_calls", 0) == 0:
        merged["inconclusive"].append("in-vivo converter hooks were never evaluated")
    if c.get("encode_calls", 0) == 0:
        merged["inconclusive"].append("no generated layout was encoded")
    if c.get("wide_int_roundtrips", 0) < 500 or c.get("encodes_with_entries_outside_the_layout", 0) < 100 or len(merged.get("sets", {}).get("name_styles", [])) < 10:
        merged["inconclusive"].append("wide integers, stray entries or odd field names were hardly exercised")
    return {"hook_evaluations": {k: v for k, v in c.items() if k.startswith("invivo")}}


def replay(rec, ctx):
    import pyscsi.utils.converter as conv

    from vmon import refcodec as R

    w = rec["witness"]
    rng = random.Random(1)
    if "fields" in w:
        fields = [tuple(f) for f in w["fields"]]
        used = set()
        for f in fields:
            if f[0] == "m":
                used |= R.bitset(f[1], f[2], f[3])
            else:
                used |= set(range(8 * f[1], 8 * (f[1] + f[2] * f[3])))
        vals = {}
        for k, v in w["values"].items():
            vals[k] = bytearray.fromhex(v[4:]) if isinstance(v, str) and v.startswith("hex:") else v
        run_layout_case(ctx, conv, R, rng, w["size"], fields, used, values=vals)
    else:
        run({"id": rec.get("shard") or "int"}, ctx)
