"""C18 - enumerations map names to values and back consistently under add/remove."""
LEVEL = "exploration"
RULE = (
    "histories: 2-4 enumerations alive at once (dict form, keyword form, and the serviceaction enumeration of an OpCode), initial "
    "mappings of 0..8 names, then 1..40 operations drawn from add / remove / lookup / reverse-lookup / keys, including adds of "
    "existing names and removes of missing ones; value kinds int, bool, float, str, None, tuple, nested dict, OpCode, another "
    "Enum, function, class, bound method, duplicates of earlier values.  After every operation every live enumeration is "
    "compared with its dict model (names, values, reverse lookup = first name in insertion order with an equal value, else '').  "
    "distinct = hash(operation sequence); non-trivial = >=1 add and >=1 remove"
)
ASSUMPTIONS = [
    "names come from an identifier pool that excludes dunder-prefixed names and the attribute names of the Enum/type API itself "
    "(keys, add, remove, mro, ...), which collide with the mechanism by construction",
]

RESERVED = (set(dir(type)) | {"keys", "add", "remove"}) - {"mro"}
# names an enumeration inherits from `type` without carrying them: they are not keys (asking hasattr() says nothing about them)
INHERITED = {"mro"}


NAMES = []


def shards(tier, seed):
    n = 16
    per = 200 if tier == "quick" else 12500
    return [{"id": "h%d" % i, "n": per} for i in range(n)] + [{"id": "shipped", "shipped": True}]


def name_pool():
    base = ["A", "B", "READ_10", "write", "x1", "_private", "lower_case", "MiXeD", "Z9", "INQUIRY", "a", "b", "c", "d", "e", "f", "g", "_", "_0", "k_9",
            # ordinary words that an implementation might also use for its own parameters or bookkeeping
            "name", "value", "code", "type", "id", "self", "args", "kwargs", "key", "opcode", "serviceaction", "items", "values", "get",
            "update", "pop", "dict", "enum", "data", "result", "bases", "attrs", "cls", "mcs", "metacls", "klass", "obj", "other", "kw", "kwds", "func", "fn", "mapping", "iterable",
            "entries", "member", "item", "k", "v", "n",
            # words for "nothing found", defaults and bookkeeping
            "NOT_FOUND", "not_found", "NOTFOUND", "DEFAULT", "default", "MISSING", "missing", "UNKNOWN", "unknown", "NONE", "EMPTY", "table", "_table", "cache", "_cache",
            "lookup", "reverse", "names", "members", "_keys", "_values", "by_value", "index", "mro",
            # names as the standards spell them (not Python identifiers) and identifiers next to Python's reserved words
            "3RD_PARTY_COPY_OUT", "READ(12)", "WRITE 12", "PRE-FETCH", "A.B", "", " ", "in_", "from_", "is_", "class_", "in", "is", "from", "None_", "IN_", "out_"]
    # ... and the same words in another case: names are case-sensitive
    base += [n.lower() for n in base if n.lower() != n] + [n.upper() for n in base if n.upper() != n and n.upper() not in base]
    out = []
    for n in base:
        if n not in RESERVED and not n.startswith("__") and n not in out:
            out.append(n)
    return out


BOOKKEEPING = ["NOT_FOUND", "not_found", "NOTFOUND", "DEFAULT", "default", "MISSING", "missing", "UNKNOWN", "unknown", "NONE", "EMPTY", "table", "_table", "cache", "_cache", "lookup", "reverse",
               "names", "members", "_keys", "_values", "by_value", "index", "name", "value", "cls", "self", "items", "values", "get", "dict", "data", "result"]


def some_function():
    return 1


class SomeClass:
    def meth(self):
        return 2


def value_pool(rng, mod):
    OpCode, Enum = mod
    kinds = [
        lambda: rng.randrange(0, 300), lambda: rng.randrange(0, 4), lambda: bool(rng.getrandbits(1)), lambda: rng.choice([0.5, 2.0, 1.0]),
        lambda: rng.choice(["", "text", "A"]), lambda: None, lambda: (1, 2), lambda: {"mask": [0xFF, rng.randrange(4)]},
        lambda: OpCode("OP", rng.randrange(256), {"SA": 1}), lambda: Enum({"inner": rng.randrange(5)}),
        lambda: some_function, lambda: SomeClass, lambda: SomeClass().meth, lambda: len,
    ]
    # values that cannot be printed (an OpCode whose code is not a number, an object whose __str__ / __repr__ raise): an
    # enumeration stores and returns them like any other value, and refuses / accepts names as for any other value
    # containers that have an equal value of another type (set / frozenset, bytearray / bytes, list is never equal to a tuple)
    kinds[10:10] = [lambda: {1, rng.randrange(2, 6)}, lambda: frozenset({1, rng.randrange(2, 6)}), lambda: bytearray([rng.randrange(4), 7]), lambda: bytes([rng.randrange(4), 7]),
              lambda: [1, rng.randrange(3)], lambda: rng.choice([1.0, 2.0, 3.0]), lambda: complex(rng.randrange(3), 0)]
    kinds[10:10] = [lambda: OpCode("OP", rng.choice([None, 2.5, "2A"]), {}), lambda: Grumpy(), lambda: (OpCode("OP", None, {}),), lambda: {"nested": Grumpy()}]
    return kinds


def kind_name(v):
    if callable(v):
        return "callable:" + type(v).__name__
    return type(v).__name__


def safe_repr(x):
    try:
        return repr(x)
    except Exception:  # noqa: BLE001
        return "<%s that cannot be printed>" % type(x).__name__


class Grumpy:
    def __str__(self):
        raise TypeError("this value cannot be printed")

    __repr__ = __str__

    def __format__(self, spec):
        raise TypeError("this value cannot be formatted")


def state_of(v):
    """what a value looks like from outside, for values with state of their own (OpCode: name, code, service action names)"""
    if type(v).__name__ == "OpCode":
        try:
            return (v.name, v.value, tuple(sorted(v.serviceaction.keys)))
        except Exception:  # noqa: BLE001
            return None
    return None


class StrSub(str):
    pass


class StrMember(str):
    """a str that also has .name / .value of its own, as the members of an enum.StrEnum have (their text is what counts)"""

    def __new__(cls, text, name, value):
        o = str.__new__(cls, text)
        o.name = name
        o.value = value
        return o


class WithValue:
    """not a number, but carries one (as an OpCode does)"""

    def __init__(self, v):
        self.value = v
        self.code = v
        self.name = "probe"


class Indexable:
    def __init__(self, v):
        self.v = v

    def __index__(self):
        return self.v

    def __int__(self):
        return self.v


def PROBE_OPCODE(v):
    from pyscsi.pyscsi.scsi_opcode import OpCode

    return OpCode("PROBE", v, {})


def step_hash(step):
    return sum(map(ord, step))


VALUE_STATES = {}  # id(value) -> (value, its state when it was first supplied)


def compare(ctx, enums, wit, step):
    for vv, was in list(VALUE_STATES.values()):
        if state_of(vv) != was:
            ctx.fail("C18:supplied_value_changed", "an OpCode supplied as a value now shows %r, it was supplied as %r (after %s)" % (state_of(vv), was, step), wit)
            VALUE_STATES.clear()
            break
    for idx, (E, model, form, holder) in enumerate(enums):
        if holder is not None:
            # the enumeration of an OpCode is one object: what was read from the property earlier and what it answers now
            ctx.count("opcode_property_rereads")
            again = holder.serviceaction
            if again is not E and (sorted(again.keys) != sorted(E.keys) or any(getattr(again, k) is not getattr(E, k) for k in E.keys)):
                ctx.fail("C18:opcode_enumeration_replaced", "enum %d: OpCode.serviceaction answers another enumeration than before (%r, held reference has %r) after %s"
                         % (idx, sorted(again.keys)[:5], sorted(E.keys)[:5], step), wit)
            elif again is not E:
                ctx.count("opcode_property_other_object_same_content")
                E = again if len(step) % 2 else E  # operate through either view from now on
        try:
            keys = list(E.keys)
        except Exception as e:  # noqa: BLE001
            ctx.fail("C18:keys_raises", "keys raised %s" % type(e).__name__, wit, exc=e)
            continue
        if set(keys) != set(model) or len(keys) != len(model):
            missing = [k for k in model if k not in keys]
            extra = [k for k in keys if k not in model]
            kinds = sorted({kind_name(model[k]) for k in missing})
            mech = "names_missing.%s" % ("callable_value" if kinds and all(k.startswith("callable") for k in kinds) else "other") if missing else "names_extra"
            ctx.fail("C18:%s" % mech, "enum %d (%s): keys %r, model %r (missing %r of kinds %r, extra %r) after %s"
                     % (idx, form, sorted(keys), sorted(model), missing, kinds, extra, step), wit)
            continue
        # names that were never supplied, or were removed, are not there (exactly the supplied names)
        for k in NAMES:
            if k not in model and k not in INHERITED:
                ctx.count("absent_names_probed")
                if hasattr(E, k):
                    ctx.fail("C18:absent_name_answers", "enum %d (%s): name %r is not among the names %r but E.%s answers %s after %s" % (idx, form, k, sorted(model)[:6], k, safe_repr(getattr(E, k)), step), wit)
                    break
        for k, v in model.items():
            try:
                got = getattr(E, k)
            except AttributeError as e:
                ctx.fail("C18:lookup_missing", "enum %d: name %r not readable after %s" % (idx, k, step), wit, exc=e)
                continue
            if isinstance(v, (dict, list)) and got is not v:
                ctx.fail("C18:lookup_value_is_a_copy.%s" % kind_name(v), "enum %d: %s answers an equal but different object than the one supplied (the caller's later edits of his %s would not be seen) after %s"
                         % (idx, k, kind_name(v), step), wit)
            same = got is v or got == v
            if not same and kind_name(v) == "callable:method":
                same = got == v
            if not same:
                ctx.fail("C18:lookup_value.%s" % kind_name(v), "enum %d: %s is %s, model %s after %s" % (idx, k, safe_repr(got), safe_repr(v), step), wit)
        # reverse lookup for every model value and one absent value
        ints = [v for v in model.values() if isinstance(v, int)]
        # values next to the carried ones: 256 more or less (a byte seen as signed), complements, far away, other types
        near = []
        for v in ints[:6]:
            near += [v - 256, v + 256, -v - 1, -v, v + 1, str(v), float(v) + 0.5, (v,)]
        for v in ints[:3]:
            near += [WithValue(v), Indexable(v), PROBE_OPCODE(v)]
        # an equal value of the sibling type finds the name as the value itself does (frozenset({1, 2}) == {1, 2}, b"..." ==
        # bytearray(b"..."), 2.0 == 2 == True + 1); an unequal relative (the tuple of a list) does not
        for v in list(model.values())[:12]:
            if isinstance(v, (set, frozenset)):
                near += [frozenset(v), set(v), tuple(sorted(v))] if all(isinstance(x, int) for x in v) else []
            elif isinstance(v, (bytes, bytearray)):
                near += [bytes(v), bytearray(v), list(v), memoryview(bytes(v))]
            elif isinstance(v, list):
                near += [tuple(v), list(v)]
            elif isinstance(v, float) and v == int(v):
                near += [int(v), complex(v, 0)]
            elif isinstance(v, complex):
                near += [int(v.real), v.real]
        far = [-1, -2, -128, -255, -256, -257, 255, 256, 65535, 1 << 40, -(1 << 40), "", "absent", None, (), 0.25]
        # objects that mean "several" or "a window" elsewhere in Python are values like any other here: they find the name that
        # carries an equal object, else nothing
        lo, hi = (min(ints), max(ints) + 1) if ints else (0, 8)
        far += [slice(lo, hi), slice(None), slice(0, 8), slice(lo, None, 1), range(lo, hi), Ellipsis, NotImplemented, int, (lo, hi), frozenset(ints[:3]), [lo, hi], {"start": lo, "stop": hi}]
        for probe in list(model.values()) + [("absent", object)] + near + far[(step_hash(step) % 4)::4] + far[16:][(step_hash(step) % 3)::3]:
            want = ""
            for k, v in model.items():
                try:
                    if v == probe:
                        want = k
                        break
                except Exception:  # noqa: BLE001
                    pass
            try:
                got = E[probe]
            except Exception as e:  # noqa: BLE001
                ctx.fail("C18:reverse_lookup_raises", "E[%s] raised %s" % (safe_repr(probe), type(e).__name__), wit, exc=e)
                continue
            if got != want:
                ctx.fail("C18:reverse_lookup.%s" % kind_name(probe), "enum %d: E[%s] = %s, model says %r after %s" % (idx, safe_repr(probe), safe_repr(got), want, step), wit)
            ctx.count("reverse_lookups")


def run_shipped(ctx):
    """the enumerations the library ships (the five command sets and the service-action enumeration of every entry) are
    enumerations like any other: an addition to or removal from one of them is seen in that one and in no other"""
    import pyscsi.pyscsi.scsi_enum_command as E

    sets = ["spc", "sbc", "ssc", "smc", "mmc"]
    enums = []  # (label, enumeration)
    for sn in sets:
        tbl = getattr(E, sn)
        enums.append((sn, tbl))
        for key in tbl.keys:
            enums.append(("%s.%s.serviceaction" % (sn, key), getattr(tbl, key).serviceaction))

    def snap():
        return [{k: getattr(e, k) for k in e.keys} for _l, e in enums]

    base = snap()
    for i, (label, e) in enumerate(enums):
        ctx.case(("shipped", label), True)
        ctx.count("shipped_enumerations_probed")
        name, val = "VMON_VENDOR_SPECIFIC_%d" % i, 0x1F
        victim = next(iter(base[i]), None)
        try:
            e.add(name, val)
            after_add = snap()
            e.remove(name)
            if victim is not None and "." in label:
                e.remove(victim)
                after_remove = snap()
                e.add(victim, base[i][victim])
            else:
                after_remove = None
        except Exception as ex:  # noqa: BLE001
            ctx.fail("C18:shipped.add_remove_raises", "add/remove on %s raised %s: %s" % (label, type(ex).__name__, ex), {"enumeration": label}, exc=ex)
            continue
        for j, (other, _e2) in enumerate(enums):
            if j == i:
                if after_add[j].get(name) != val:
                    ctx.fail("C18:shipped.add_not_visible", "%s.add(%r) is not visible in it" % (label, name), {"enumeration": label})
                continue
            if after_add[j] != base[j] or (after_remove is not None and after_remove[j] != base[j]):
                ctx.fail("C18:shipped.one_enumeration_affects_another", "an addition to / removal from %s changed %s: %r" % (
                    label, other, sorted(set(after_add[j]) ^ set(base[j])) or sorted(set((after_remove or base)[j]) ^ set(base[j]))), {"changed": label, "affected": other})
                break
        now = snap()
        if now[i] != base[i]:
            ctx.inconclusive_because("could not restore %s after probing it" % label)
            return
    ctx.count("shipped_enumerations", len(enums))


def run(shard, ctx):
    from pyscsi.pyscsi.scsi_opcode import OpCode
    from pyscsi.utils.enum import Enum

    if shard.get("shipped"):
        return run_shipped(ctx)

    rng = ctx.rng()
    names = name_pool()
    NAMES[:] = names
    kinds = value_pool(rng, (OpCode, Enum))
    for h in range(shard["n"]):
        VALUE_STATES.clear()
        allow_callables = rng.random() < 0.3
        ks = kinds if allow_callables else kinds[:21]  # (the last four are callables)
        enums = []
        log = []
        for i in range(rng.randint(2, 4)):
            init = {}
            for nme in rng.sample(names, rng.randint(0 if i else 1, 8)):
                init[nme] = rng.choice(ks)()
            if rng.random() < 0.3:
                # (the words an implementation might use for its own bookkeeping are few among the names: one of them on purpose)
                init[rng.choice(BOOKKEEPING)] = rng.choice(ks)()
            if enums and rng.random() < 0.4:
                # a value of an earlier enumeration listed here too, under another name (one OpCode in two command sets)
                donor = enums[rng.randrange(len(enums))][1]
                if donor:
                    init[rng.choice(names)] = rng.choice(list(donor.values()))
                    ctx.count("values_shared_between_enumerations")
            for vv in init.values():
                if state_of(vv) is not None and id(vv) not in VALUE_STATES:
                    VALUE_STATES[id(vv)] = (vv, state_of(vv))
            form = rng.choice(["dict", "kwargs", "opcode"])
            if form == "kwargs" and (not init or "cls" in init):
                form = "dict"  # (the keyword form cannot spell a name that is the constructor's own first parameter: Python refuses the call)
            src = dict(init)  # the caller's own dictionary: theirs to reuse once the enumeration is built
            try:
                if form == "dict":
                    E = Enum(src)
                elif form == "kwargs":
                    E = Enum(**init)
                else:
                    op = OpCode("X", i, src)
                    if rng.random() < 0.5:
                        E = op.serviceaction
                        op = None
            except Exception as e:  # noqa: BLE001
                ctx.fail("C18:construct_raises.%s" % form, "Enum(%s) raised %s" % (safe_repr(init), type(e).__name__), {"init": safe_repr(init), "form": form}, exc=e)
                continue
            if rng.random() < 0.5:
                # the caller refills its scratch dictionary for the next enumeration
                how = rng.choice(["clear", "add", "change", "delete"])
                if how == "clear":
                    src.clear()
                elif how == "add":
                    src[rng.choice(names) + "_later"] = 77
                elif how == "change" and src:
                    src[rng.choice(list(src))] = "changed later"
                elif src:
                    del src[rng.choice(list(src))]
                ctx.count("source_dictionaries_reused")
            holder = None
            if form == "opcode" and op is not None:
                E = op.serviceaction  # first looked at only now
                holder = op  # ... and looked at again through the OpCode object at every comparison
            enums.append((E, dict(init), form, holder))
            log.append(("new", form, {k: kind_name(v) for k, v in init.items()}))
        wit = {"history": log}
        compare(ctx, enums, wit, "construction")
        adds = removes = 0
        # some histories are only observed every few operations: an observation may itself repair hidden state
        look_every = rng.choice([1, 1, 2, 3, 5, 8])
        nsteps = rng.randint(1, 40)
        for step in range(nsteps):
            idx = rng.randrange(len(enums))
            E, model, form, holder = enums[idx]
            if holder is not None and rng.random() < 0.5:
                E = holder.serviceaction  # the operation goes through the OpCode's property, the comparison through the held reference
            op = rng.choice(["add", "add", "remove", "remove", "lookup", "reverse", "keys"] if look_every == 1 else ["add", "remove", "remove", "remove", "add"])
            if op == "add":
                k = rng.choice(names)
                if rng.random() < 0.15:
                    k = StrSub(k) if rng.random() < 0.6 else StrMember(k, rng.choice(list(model) + ["OTHER_MEMBER"]), 7)
                    ctx.count("names_of_str_subclasses")  # a name that is a str (an enum.StrEnum member, a user's subclass of str): the same name
                v = rng.choice(list(model.values())) if model and rng.random() < 0.3 else rng.choice(ks)()
                log.append(("add", idx, k, kind_name(v), k in model))
                try:
                    if rng.random() < 0.3:
                        E.add(key=k, value=v)  # documented parameter names
                        ctx.count("keyword_calls")
                    elif rng.random() < 0.2:
                        E.add(k, value=v)
                    else:
                        E.add(k, v)
                    if k in model:
                        ctx.fail("C18:add_existing_not_refused.%s" % ("callable_value" if callable(model[k]) else "plain"),
                                 "add(%r) of an existing name was accepted" % k, wit)
                        model[k] = v
                    else:
                        model[k] = v
                        adds += 1
                except KeyError:
                    if k not in model:
                        ctx.fail("C18:add_new_refused", "add(%r) of a new name raised KeyError" % k, wit)
                except Exception as e:  # noqa: BLE001
                    ctx.fail("C18:add_raises.%s" % type(e).__name__, "add(%r, %s) raised %s" % (k, kind_name(v), type(e).__name__), wit, exc=e)
            elif op == "remove":
                k = rng.choice(list(model)) if model and rng.random() < 0.7 else rng.choice(names)
                if rng.random() < 0.15:
                    # the name as a str with attributes of its own: another present name, an absent one, its own text
                    k = StrMember(k, rng.choice(list(model) + [k, "ABSENT_MEMBER"]), rng.choice([k, 3, "text"]))
                    ctx.count("names_with_attributes_of_their_own")
                log.append(("remove", idx, k, k in model))
                try:
                    if rng.random() < 0.3:
                        E.remove(key=k)
                        ctx.count("keyword_calls")
                    else:
                        E.remove(k)
                    if k not in model:
                        ctx.fail("C18:remove_missing_not_refused", "remove(%r) of a missing name was accepted" % k, wit)
                    else:
                        del model[k]
                        removes += 1
                except KeyError:
                    if k in model:
                        ctx.fail("C18:remove_existing_refused", "remove(%r) of an existing name raised KeyError" % k, wit)
                except Exception as e:  # noqa: BLE001
                    ctx.fail("C18:remove_raises.%s" % type(e).__name__, "remove(%r) raised %s" % (k, type(e).__name__), wit, exc=e)
            else:
                log.append((op, idx))
            ctx.count("operations")
            if step % look_every == look_every - 1 or step == nsteps - 1:
                compare(ctx, enums, wit, "step %d (%s)" % (step, log[-1][0]))
        ctx.case(tuple(map(repr, log)), adds >= 1 and removes >= 1, sample={"history": log[:12]} if ctx.want_sample() else None)
        ctx.add("value_kinds", "callables" if allow_callables else "data")


def finalize(merged, tier):
    c = merged["counters"]
    if c.get("operations", 0) == 0 or c.get("reverse_lookups", 0) == 0:
        merged["inconclusive"].append("model comparison never ran")
    if c.get("shipped_enumerations_probed", 0) < 400:
        merged["inconclusive"].append("shipped enumerations probed: %d" % c.get("shipped_enumerations_probed", 0))
    return {}


def replay(rec, ctx):
    run({"id": rec.get("shard") or "h0", "n": 200}, ctx)
