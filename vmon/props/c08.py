"""C08 - sense data is always decodable and printable, with the right key/ASC/ASCQ."""
import contextlib
import io

PYOPT = 2  # every second shard also runs in an interpreter started with -O
LEVEL = "exploration"
RULE = (
    "sense buffers built from (response code, valid, sense key, ASC, ASCQ, length, filler): response codes 70h-73h and "
    "{00,01,6F,74,7E,7F}; all 16 keys; quick: 256 ASC x ASCQ in {00,01,7F,80,FF} plus every pair of the reference and library "
    "tables, lengths 1..252 on a sample; thorough: all 65536 ASC/ASCQ pairs x 16 keys x 4 formats.  For each: "
    "SCSICheckCondition(buf), SCSICheckCondition(buf, print_data=True), str() and print() must not raise; for 70h-73h the "
    "reported key/ASC/ASCQ must be the bytes at the SPC positions; pairs in the reference T10 subset must be described by their "
    "T10 text (compared case/punctuation-insensitively).  distinct = hash(buffer); non-trivial = key, ASC or ASCQ non-zero"
)
ASSUMPTIONS = [
    "vmon/spec/sense.py: SPC-4 4.5 positions; 168-entry ASC/ASCQ reference subset; bytes beyond a truncated buffer read as 0",
    "unknown response codes: only 'does not raise' is demanded (SPC defines no positions)",
]

RCS = [0x70, 0x71, 0x72, 0x73]
ODD_RCS = [0x00, 0x01, 0x6F, 0x74, 0x7E, 0x7F]


def shards(tier, seed):
    out = []
    if tier == "quick":
        for rc in RCS:
            for half in range(4):
                out.append({"id": "grid-%02x-%d" % (rc, half), "kind": "grid", "rc": rc, "keys": list(range(half * 4, half * 4 + 4)),
                            "ascqs": [0x00, 0x01, 0x7F, 0x80, 0xFF]})
    else:
        for rc in RCS:
            for key in range(16):
                out.append({"id": "full-%02x-%x" % (rc, key), "kind": "grid", "rc": rc, "keys": [key], "ascqs": list(range(256))})
    out.append({"id": "tables", "kind": "tables"})
    for part in range(4):
        out.append({"id": "truncated-%d" % part, "kind": "truncated", "part": part, "parts": 4, "combos": 1 if tier == "quick" else 6})
    out.append({"id": "transport", "kind": "transport", "n": 1500 if tier == "quick" else 40000})
    out.append({"id": "lengths", "kind": "lengths", "n": 2000 if tier == "quick" else 60000})
    out.append({"id": "odd", "kind": "odd", "n": 2000 if tier == "quick" else 40000})
    # conditions with codes of every range (vendor-specific ones too) once more in a process started with a bare environment (a
    # system service, `env -i`): no HOME, no XDG_* / USER / LANG variables
    out.append({"id": "out-of-descriptors", "kind": "nofd"})
    out.append({"id": "grid-70-bare-env", "kind": "grid", "rc": 0x70, "keys": [2, 5, 6, 9], "ascqs": [0x00, 0x01, 0x80, 0xC3, 0xFF], "env": BARE_ENV})
    out.append({"id": "lengths-bare-env", "kind": "lengths", "n": 600 if tier == "quick" else 6000, "env": BARE_ENV})
    return out


BARE_ENV = {k: None for k in ("HOME", "XDG_CONFIG_HOME", "XDG_DATA_HOME", "XDG_CACHE_HOME", "USER", "LOGNAME", "LANG", "LC_ALL", "SHELL", "TERM", "TMPDIR", "PWD", "OLDPWD")}


STATE = {"n": 0}


class Terminal(io.StringIO):
    """a text stream that says it is a terminal"""

    def isatty(self):
        return True


class WriteOnly:
    """the least a print() target needs"""

    def write(self, text):
        return len(text)


def as_buffer(b, n):
    """the sense bytes in the kinds of buffer bindings and callers hand over"""
    import array
    import ctypes

    k = n % 13
    if k == 11:
        return array.array("b", [x - 256 if x > 127 else x for x in b])  # signed chars, as a char[] in C is on most platforms
    if k == 12:
        return (ctypes.c_byte * len(b))(*[x - 256 if x > 127 else x for x in b]) if len(b) else b
    if k == 6:
        return bytes(b)
    if k == 7:
        return memoryview(bytes(b))
    if k == 8:
        return list(b)
    if k == 9:
        return array.array("B", bytes(b))
    if k == 10:
        return (ctypes.c_ubyte * len(b))(*b) if len(b) else b
    if k == 5:
        return tuple(b)
    return b


def rcclass(rc):
    return {0x70: "current_fixed", 0x71: "deferred_fixed", 0x72: "current_descriptor", 0x73: "deferred_descriptor"}.get(rc, "unknown_response_code")


RECENT = []  # (exception object, key, asc, ascq, text) of the last few conditions, re-inspected after every new one


def recheck_recent(ctx, wit):
    for exc, key, asc, ascq, text in RECENT:
        got = (exc.data.get("sense_key") if isinstance(exc.data, dict) else None, getattr(exc, "asc", None), getattr(exc, "ascq", None))
        try:
            t = str(exc)
        except Exception:  # noqa: BLE001
            t = None
        if got != (key, asc, ascq) or t != text:
            ctx.fail("C08:earlier_condition_changed", "an earlier CheckCondition now reports %r / %r (was %r / %r) after another one was constructed"
                     % (got, t, (key, asc, ascq), text), wit)
        ctx.count("earlier_conditions_rechecked")


def through_pointer(ctx, mod, buf):
    """the sense reached through a C pointer (ctypes.POINTER(c_ubyte), what cast(sg_io_hdr.sbp, ...) gives a hand-made SG_IO
    wrapper): it indexes and slices like the buffer it points to, so the condition reports what one built from those bytes does.
    The backing array is a full 252-byte sense buffer (a pointer has no bounds)"""
    import ctypes

    padded = bytes(buf[:252]).ljust(252, b"\0")
    arr = (ctypes.c_ubyte * 252)(*padded)
    ptr = ctypes.cast(arr, ctypes.POINTER(ctypes.c_ubyte))
    ctx.count("conditions_built_through_a_pointer")
    try:
        plain = mod.SCSICheckCondition(padded)
    except Exception:  # noqa: BLE001
        return  # judged by check()
    wit = {"sense": padded[:32], "handed_over_as": "ctypes.POINTER(c_ubyte)"}
    try:
        exc = mod.SCSICheckCondition(ptr)
        got = (exc.data, getattr(exc, "asc", None), getattr(exc, "ascq", None), str(exc))
    except Exception as e:  # noqa: BLE001
        ctx.fail("C08:construct_raises.through_pointer", "SCSICheckCondition(pointer to %s...) raised %s: %s" % (padded[:18].hex(), type(e).__name__, e), wit, exc=e)
        return
    want = (plain.data, getattr(plain, "asc", None), getattr(plain, "ascq", None), str(plain))
    if repr(got) != repr(want):
        ctx.fail("C08:through_pointer_differs", "the condition built through a pointer reports %r, the one built from the same bytes %r" % (got[1:], want[1:]), wit)


def check(ctx, mod, ref, buf, want_text=True, sample=False):
    STATE["ptr"] = STATE.get("ptr", 0) + 1
    if STATE["ptr"] % 23 == 0 and len(buf):
        through_pointer(ctx, mod, buf)
    fmt, deferred, key, asc, ascq = ref.parse(buf)
    rc = buf[0] & 0x7F
    cls = rcclass(rc)
    ctx.case(bytes(buf), bool(key or asc or ascq) or fmt is None,
             sample={"sense": bytes(buf), "rc": "%02x" % rc, "key": key, "asc": asc, "ascq": ascq} if sample else None)
    ctx.add("response_codes", "%02x" % rc)
    wit = {"sense": bytes(buf), "response_code": rc, "key": key, "asc": asc, "ascq": ascq, "len": len(buf)}
    for pd in (False, True):
        mutable = as_buffer(bytearray(buf), STATE["n"])
        STATE["n"] += 1
        ctx.add("buffer_types", "ctypes array" if type(mutable).__name__.startswith("c_ubyte_Array") else "ctypes signed array" if type(mutable).__name__.startswith("c_byte_Array")
                else "array('%s')" % mutable.typecode if type(mutable).__name__ == "array" else type(mutable).__name__)
        try:
            by_keyword = STATE["n"] % 3 == 0
            if by_keyword:
                # the documented parameter names as keywords
                exc = mod.SCSICheckCondition(sense=mutable, print_data=pd) if pd else mod.SCSICheckCondition(sense=mutable)
                ctx.count("keyword_constructions")
            else:
                exc = mod.SCSICheckCondition(mutable, print_data=pd) if pd else mod.SCSICheckCondition(mutable)
        except Exception as e:  # noqa: BLE001
            ctx.fail("C08:construct_raises.%s" % cls, "SCSICheckCondition(%s) raised %s: %s" % (bytes(buf)[:18].hex(), type(e).__name__, e), wit, exc=e)
            return
        ctx.count("constructed")
        # the condition is an error object like any other: true in a boolean context (`err = e ... if err:`; futures and loggers test
        # it the same way)
        if not exc:
            ctx.fail("C08:condition_is_false.%s" % cls, "bool(SCSICheckCondition(%s)) is False: code that tests the error object before reporting it drops it" % bytes(buf)[:18].hex(), wit)
            return
        # a transport may reuse its sense buffer: what the condition reports is what the buffer held when it was raised
        if isinstance(mutable, (bytearray, list)) or type(mutable).__name__.startswith(("c_ubyte_Array", "c_byte_Array")):
            for i in range(len(mutable)):
                mutable[i] = 0
        text = None
        try:
            # standard output as programs have it: a text stream, nothing at all (daemons, pythonw), or an object that can only write()
            sink = (io.StringIO(), Terminal(), None, WriteOnly(), io.StringIO())[STATE["n"] % 5]
            with contextlib.redirect_stdout(sink):
                text = str(exc)
                print(exc)
                if pd:
                    exc.print_data()
                # the other ways an exception gets converted to text (logging with %r, a list of errors, a traceback)
                print(repr(exc), "%r" % (exc,), [exc], "{!r:.40}".format(exc))
                import traceback as _tb

                print("".join(_tb.format_exception_only(type(exc), exc)))
            ctx.count("printed")
        except Exception as e:  # noqa: BLE001
            if fmt is None or deferred:
                cause = "no_asc_for_" + cls
            elif key not in mod.sense_key_dict:
                cause = "sense_key_unlisted"
            elif asc < 0x80 and ascq < 0x80 and ((asc << 8) | ascq) not in mod.sense_ascq_dict:
                cause = "asc_ascq_unlisted"
            else:
                cause = "other." + cls
            ctx.fail("C08:str_raises.%s%s" % (cause, ".print_data" if pd and cause.startswith("other") else ""),
                     "str(SCSICheckCondition(rc=%02x key=%s asc=%s ascq=%s)) raised %s: %s" % (rc, key, asc, ascq, type(e).__name__, e), wit, exc=e)
            text = None
        if fmt is not None and text is not None and not pd:
            recheck_recent(ctx, wit)
            RECENT.append((exc, exc.data.get("sense_key"), getattr(exc, "asc", None), getattr(exc, "ascq", None), text))
            if len(RECENT) > 3:
                RECENT.pop(0)
        if STATE["n"] % 7 in (0, 1, 2) and not pd and not by_keyword and isinstance(mutable, (bytes, bytearray, list, tuple)):
            # exceptions get copied and pickled (across processes, by logging handlers and test runners); only where the
            # caller's buffer itself can be (a memoryview or ctypes array kept by the exception cannot, in any Python class) and the
            # condition was constructed positionally, as the transports do (no Python exception keeps keyword arguments for copying)
            import copy as _copy
            import pickle as _pickle

            for how, fn in (("copy", _copy.copy), ("deepcopy", _copy.deepcopy), ("pickle", lambda x: _pickle.loads(_pickle.dumps(x)))):
                try:
                    dup = fn(exc)
                    ctx.count("copies_checked")
                    if (getattr(dup, "asc", None), getattr(dup, "ascq", None), str(dup) if text is not None else None) != (getattr(exc, "asc", None), getattr(exc, "ascq", None), text):
                        ctx.fail("C08:%s_differs" % how, "the %s of a condition reports %r/%r %r, the original %r/%r %r"
                                 % (how, getattr(dup, "asc", None), getattr(dup, "ascq", None), str(dup)[:60], getattr(exc, "asc", None), getattr(exc, "ascq", None), (text or "")[:60]), wit)
                except Exception as e:  # noqa: BLE001
                    ctx.fail("C08:%s_raises.%s" % (how, type(e).__name__), "%s of SCSICheckCondition raised %s: %s" % (how, type(e).__name__, e), wit, exc=e)
        if getattr(exc, "response_code", rc) != rc:
            ctx.fail("C08:values.response_code_or_valid", "reports response code %r, byte 0 of the sense data says %02Xh" % (getattr(exc, "response_code", None), rc), wit)
        if fmt is None:
            continue
        # values at the SPC positions
        got_key = exc.data.get("sense_key") if isinstance(getattr(exc, "data", None), dict) else None
        got_asc = getattr(exc, "asc", None)
        got_ascq = getattr(exc, "ascq", None)
        if (got_key, got_asc, got_ascq) != (key, asc, ascq):
            ctx.fail("C08:values.%s" % cls, "rc=%02x: reports key/asc/ascq %r/%r/%r, buffer carries %r/%r/%r" % (rc, got_key, got_asc, got_ascq, key, asc, ascq), wit)
        if getattr(exc, "response_code", None) != rc or bool(getattr(exc, "valid", 0)) != bool(buf[0] & 0x80):
            ctx.fail("C08:values.response_code_or_valid", "response_code/valid misreported", wit)
        if text is not None and (got_key, got_asc, got_ascq) == (key, asc, ascq):
            # numeric codes quoted in the text are the ones the condition carries
            import re as _re

            m4 = _re.findall(r"\(0x([0-9A-Fa-f]{4})\)", text)
            m2 = _re.findall(r"\(0x([0-9A-Fa-f]{2})\)", text)
            if m4:
                ctx.count("codes_in_text_checked")
                if int(m4[-1], 16) != (asc << 8 | ascq):
                    ctx.fail("C08:text.quotes_other_asc_ascq", "the text says 0x%s, the sense data carries %02X/%02X" % (m4[-1], asc, ascq), wit)
            if m2 and int(m2[0], 16) != key:
                ctx.fail("C08:text.quotes_other_sense_key", "the text says sense key 0x%s, the sense data carries %Xh" % (m2[0], key), wit)
        if text is not None and want_text and (got_key, got_asc, got_ascq) == (key, asc, ascq):
            t = ref.norm(text)
            if (asc, ascq) in ref.ASC:
                ctx.count("text_cross_checks")
                if ref.norm(ref.ASC[(asc, ascq)]) not in t:
                    ctx.fail("C08:text.asc_%02x_ascq_%s" % (asc, "vendor_range" if ascq >= 0x80 else "%02x" % ascq),
                             "%02X/%02X described as %r, T10: %r" % (asc, ascq, text, ref.ASC[(asc, ascq)]), wit)
            if key in ref.SENSE_KEYS and ref.norm(ref.SENSE_KEYS[key]) not in t:
                ctx.fail("C08:text.sense_key_%x" % key, "sense key %Xh described as %r, SPC: %r" % (key, text, ref.SENSE_KEYS[key]), wit)


COMBOS = [["information"], ["ata_status"], ["information", "ata_status"], ["sense_key_specific", "fru"], ["forwarded"], ["command_specific", "information", "block"],
          ["stream", "vendor"], ["information", "forwarded", "ata_status"], ["forwarded_status_only"], ["forwarded", "forwarded_status_only"], ["progress", "vendor_empty"],
          ["user_data_segment", "forwarded_status_only"], ["direct_access_block"], ["osd_object_id", "information"]]


def run_transport(shard, ctx):
    """the condition as the transports raise it: SCSIDevice.execute (stand-in sgio hands over the sense bytes) and
    ISCSIDevice.execute (task.raw_sense); the values are those of the buffer the target returned"""
    import sys

    from vmon.sim import install

    install.install_fakes()
    import pyscsi.pyscsi.scsi_enum_command as E
    from pyscsi.pyscsi.scsi_cdb_testunitready import TestUnitReady

    from vmon.spec import sense as ref

    rng = ctx.rng()
    sg, isc = sys.modules["sgio"], sys.modules["iscsi"]
    cur = {}
    sg.handler = isc.handler = lambda ev: (2, cur["sense"])
    devs = {"sgio": install.sgio_device()[0], "iscsi": install.iscsi_device()}
    for j in range(shard["n"]):
        rc = rng.choice(RCS)
        asc, ascq = rng.choice(sorted(ref.ASC)) if rng.random() < 0.6 else (rng.getrandbits(8), rng.getrandbits(8))
        key = rng.randrange(16)
        if rc >= 0x72 and j % 3 == 0:
            buf = ref.build_with_descriptors(rc, key, asc, ascq, [ref.descriptor(k, rng) for k in rng.choice(COMBOS)])
        else:
            # every length a target may return: the SCSI-2 style 14 bytes, the usual 18, up to 252
            n = (8, 13, 14, 15, 16, 18, 18, 20, 32, 96, 252)[j % 11] if j % 2 else rng.randint(8, 60)
            if rc < 0x72:
                n = max(n, 13 + (j % 2))
            buf = ref.build(rc, rng.getrandbits(1), key, asc, ascq, n, bytes(rng.getrandbits(8) for _ in range(n)), info=j)
        if j % 5 == 4:
            # sense data that is not sense data (response codes outside 70h-73h), among them byte patterns that look like a
            # length-prefixed frame: reported as what it is
            n = rng.randint(3, 60)
            buf = bytearray(rng.getrandbits(8) for _ in range(n))
            buf[0] = rng.choice(ODD_RCS + [0x00, 0x00])
            buf[1] = rng.choice([n - 2, n - 2, n, 0, buf[1]]) & 0xFF
            buf = bytes(buf)
        fmt, deferred, rkey, rasc, rascq = ref.parse(buf)
        for t, dev in devs.items():
            sg.log = []
            isc.log = []
            cur["sense"] = bytearray(buf)
            wit = {"transport": t, "sense": bytes(buf), "len": len(buf)}
            ctx.case((t, bytes(buf)), True, sample={"transport": t, "sense": bytes(buf)} if j % 307 == 0 else None)
            ctx.add("transport_sense_lengths", len(buf))
            try:
                dev.execute(TestUnitReady(E.spc.TEST_UNIT_READY))
                exc = None
            except Exception as e:  # noqa: BLE001
                exc = e
            if not isinstance(exc, dev.CheckCondition):
                continue  # whether it is raised at all is C07's business
            ctx.count("transport_conditions")
            try:
                got = (exc.data.get("sense_key"), exc.asc, exc.ascq)
                text = str(exc)
            except Exception as e:  # noqa: BLE001
                ctx.fail("C08:transport.%s.inspect_raises.%s" % (t, type(e).__name__), "inspecting the CheckCondition raised by %s failed: %s" % (t, e), wit, exc=e)
                continue
            if getattr(exc, "response_code", buf[0] & 0x7F) != buf[0] & 0x7F:
                ctx.fail("C08:transport.%s.response_code" % t, "CheckCondition over %s reports response code %r, the target's sense data starts with %02Xh" % (t, getattr(exc, "response_code", None), buf[0]), wit)
            if fmt is not None and got != (rkey, rasc, rascq):
                ctx.fail("C08:transport.%s.values.%s" % (t, rcclass(rc)), "%s over %s: reports key/asc/ascq %r, the target returned %r (sense of %d bytes)"
                         % ("CheckCondition", t, got, (rkey, rasc, rascq), len(buf)), wit)
            elif fmt is not None and (rasc, rascq) in ref.ASC and ref.norm(ref.ASC[(rasc, rascq)]) not in ref.norm(text):
                ctx.fail("C08:transport.%s.text" % t, "%02X/%02X described as %r" % (rasc, rascq, text), wit)
            # the binding reuses its sense buffer for the next command; a copy of the condition taken afterwards (to put it into a
            # report, to send it to another process) says what the condition says
            if j % 3 == 0:
                import copy as _copy
                import pickle as _pickle

                for i in range(len(cur["sense"])):
                    cur["sense"][i] = 0
                for how, fn in (("copy.copy", _copy.copy), ("copy.deepcopy", _copy.deepcopy), ("pickle", lambda x: _pickle.loads(_pickle.dumps(x)))):
                    try:
                        dup = fn(exc)
                    except Exception:  # noqa: BLE001
                        ctx.count("transport_condition_copies_refused")  # (classes made at run time need not be picklable)
                        continue
                    ctx.count("transport_condition_copies")
                    try:
                        dgot = (dup.data.get("sense_key"), dup.asc, dup.ascq, str(dup))
                    except Exception as e:  # noqa: BLE001
                        dgot = ("raises", type(e).__name__)
                    if dgot != (got[0], got[1], got[2], text):
                        ctx.fail("C08:transport.%s.copy_differs" % t, "a %s of the CheckCondition raised over %s, taken after the binding reused its sense buffer, reports %r; the condition itself %r"
                                 % (how, t, dgot[:3], got), wit)
                        break
    for d in devs.values():
        d.close()


def run(shard, ctx):
    if shard["kind"] == "transport":
        return run_transport(shard, ctx)
    import pyscsi.pyscsi.scsi_sense as mod

    from vmon.spec import sense as ref

    if shard.get("env"):
        import os as _os

        if _os.environ.get("HOME") is not None:
            ctx.inconclusive_because("shard %s was to run without HOME in its environment" % shard["id"])
            return
        ctx.count("shards_run_in_a_bare_environment")
    rng = ctx.rng()
    kind = shard["kind"]
    if kind == "nofd":
        # the first conditions of the process are constructed and printed while the process cannot open anything (it is out of
        # file descriptors -- just when devices fail en masse): reporting an error needs no file
        import os
        import resource

        soft, hard = resource.getrlimit(resource.RLIMIT_NOFILE)
        used = max(int(x) for x in os.listdir("/proc/self/fd")) + 1
        bufs = [ref.build(rc, 0, key, asc, ascq, 18 if rc < 0x72 else 8) for rc in RCS for key, asc, ascq in ((6, 0x29, 0x00), (5, 0x24, 0x00), (4, 0x80, 0x81), (2, 0x04, 0x01))]
        resource.setrlimit(resource.RLIMIT_NOFILE, (used + 2, hard))
        results = []
        filler = []
        try:
            while len(filler) < 64:
                try:
                    filler.append(os.open("/dev/null", os.O_RDONLY))  # the free numbers below the limit
                except OSError:
                    break
            try:
                open("/dev/null").close()
                premise = False
            except OSError:
                premise = True
            for b in bufs:
                try:
                    exc = mod.SCSICheckCondition(bytearray(b), print_data=False)
                    results.append((b, None, str(exc), (exc.data.get("sense_key"), exc.asc, exc.ascq)))
                except Exception as e:  # noqa: BLE001
                    results.append((b, e, None, None))
        finally:
            for fd in filler:
                os.close(fd)
            resource.setrlimit(resource.RLIMIT_NOFILE, (soft, hard))
        if not premise:
            ctx.inconclusive_because("could not exhaust the file descriptors")
            return
        for b, e, text, vals in results:
            fmt, _d, key, asc, ascq = ref.parse(b)
            ctx.case(("nofd", bytes(b)), True)
            ctx.count("conditions_reported_without_file_descriptors")
            if e is not None:
                ctx.fail("C08:construct_or_print_raises.out_of_file_descriptors", "with no file descriptor left, reporting sense %s raised %s: %s" % (bytes(b).hex(), type(e).__name__, e), {"sense": bytes(b)}, exc=e)
                break
            if vals != (key, asc, ascq):
                ctx.fail("C08:values.out_of_file_descriptors", "reports %r, the sense says %r" % (vals, (key, asc, ascq)), {"sense": bytes(b)})
        return
    if kind == "grid":
        rc = shard["rc"]
        i = 0
        for key in shard["keys"]:
            for asc in range(256):
                for ascq in shard["ascqs"]:
                    i += 1
                    valid = i & 1
                    n = 18 if rc < 0x72 else 8
                    buf = ref.build(rc, valid, key, asc, ascq, n)
                    check(ctx, mod, ref, buf, sample=(i % 5003 == 0))
    elif kind == "tables":
        pairs = set(ref.ASC) | {(k >> 8, k & 0xFF) for k in mod.sense_ascq_dict}
        ctx.count("library_table_entries", len(mod.sense_ascq_dict))
        ctx.count("reference_table_entries", len(ref.ASC))
        ctx.count("reference_pairs_present_in_library", sum(1 for p in ref.ASC if ((p[0] << 8) | p[1]) in mod.sense_ascq_dict))
        for asc, ascq in sorted(pairs):
            for rc in RCS:
                for key in (0, 5, 6, 0xB):
                    check(ctx, mod, ref, ref.build(rc, 1, key, asc, ascq, 18 if rc < 0x72 else 8), sample=(asc == 0x29 and rc == 0x70 and key == 6))
    elif kind == "truncated":
        # every assigned code, descriptor format with real descriptors and fixed format with the optional fields in use, cut
        # at every length (a target may return fewer bytes than ADDITIONAL SENSE LENGTH announces)
        pairs = sorted(set(ref.ASC) | {(k >> 8, k & 0xFF) for k in mod.sense_ascq_dict} | {(0x00, 0x1D), (0x5D, 0x10), (0x0B, 0x01)})
        for idx, (asc, ascq) in enumerate(pairs):
            if idx % shard["parts"] != shard["part"]:
                continue
            for cj in range(shard["combos"]):
                combo = COMBOS[(idx + cj) % len(COMBOS)]
                key = (0, 1, 2, 5, 6, 0xB, 0xA, 3, 4, 7, 8, 9, 0xD, 0xE)[(idx + cj) % 14]
                full = ref.build_with_descriptors((0x72, 0x73)[(idx + cj) % 2], key, asc, ascq, [ref.descriptor(k, rng) for k in combo])
                for n in range(1, len(full) + 1):
                    check(ctx, mod, ref, full[:n], want_text=n >= 4)
                ctx.count("truncation_sweeps")
                fixed = bytearray(ref.build((0x70, 0x71)[(idx + cj) % 2], 1, key, asc, ascq, 18, bytes(rng.getrandbits(8) for _ in range(18)), info=idx))
                fixed[15] |= 0x80  # SKSV: sense key specific bytes in use
                for n in range(1, 19):
                    check(ctx, mod, ref, bytes(fixed[:n]), want_text=n >= 14)
    elif kind == "lengths":
        for j in range(shard["n"]):
            rc = rng.choice(RCS)
            n = rng.randint(1, 252) if j % 4 else (j // 4) % 252 + 1
            filler = bytes(rng.getrandbits(8) for _ in range(n))
            asc, ascq = rng.choice(sorted(ref.ASC)) if rng.random() < 0.5 else (rng.getrandbits(8), rng.getrandbits(8))
            buf = ref.build(rc, rng.getrandbits(1), rng.getrandbits(4), asc, ascq, n, filler, info=j)
            ctx.add("lengths", len(buf))
            check(ctx, mod, ref, buf, sample=(j % 499 == 0))
        for n in range(1, 253):
            for rc in RCS:
                check(ctx, mod, ref, ref.build(rc, 0, 5, 0x24, 0x00, n))
        # codes, keys and lengths the library's source spells out and the recorded baseline does not (vmon/srcdict.py; nothing on the
        # unchanged tree): as ASC/ASCQ pair (one 16-bit literal or two 8-bit ones), with every key, format and such lengths
        from vmon import srcdict

        nov = srcdict.novel_exact()
        if nov and "env" not in shard:
            b8 = [v for v in nov if 0 <= v < 256]
            pairs = {(v >> 8, v & 0xFF) for v in nov if 0 <= v < 65536} | {(a, b) for a in b8[:12] for b in b8[:12]}
            pairs |= {(a, q) for a in b8[:12] for q in (0x00, 0x01, 0xFF)} | {(a, q) for q in b8[:12] for a in (0x04, 0x29, 0x3A, 0x80)}
            lens = sorted({18, 252} | {v for v in nov if 8 <= v <= 252})[:8]
            # pairs made of such literals only: with every key, format and every length
            strong = sorted({(v >> 8, v & 0xFF) for v in nov if 256 <= v < 65536} | {(a, b) for a in b8[:5] for b in b8[:5]})[:24]
            for asc, ascq in strong:
                for rc in RCS:
                    for key in range(16):
                        for n in range(8, 253):
                            check(ctx, mod, ref, ref.build(rc, n & 1, key, asc, ascq, max(n, 14) if rc < 0x72 else n))
                ctx.count("source_literal_pairs_at_every_length")
            for asc, ascq in sorted(pairs)[:600]:
                for rc in RCS:
                    for key in range(16):
                        for n in lens:
                            check(ctx, mod, ref, ref.build(rc, (key + n) & 1, key, asc, ascq, max(n, 14) if rc < 0x72 else n))
                            ctx.count("conditions_from_source_literals")
                ctx.add("lengths", n)
        # descriptor format carrying real descriptors (also forwarded sense data of another command, whose own
        # key/ASC/ASCQ must not be taken for the header's)
        for j in range(shard["n"] // 2):
            rc = rng.choice([0x72, 0x73])
            kinds = [rng.choice(ref.DESCRIPTOR_KINDS) for _ in range(rng.randint(0, 4))]
            if j % 2:
                kinds.insert(rng.randint(0, len(kinds)), "forwarded")
            asc, ascq = rng.choice(sorted(ref.ASC))
            buf = ref.build_with_descriptors(rc, rng.randrange(16), asc, ascq, [ref.descriptor(k, rng) for k in kinds])
            ctx.add("descriptor_kinds", "+".join(sorted(set(kinds))) or "none")
            check(ctx, mod, ref, buf, sample=(j % 499 == 0))
    elif kind == "odd":
        for j in range(shard["n"]):
            rc = rng.choice(ODD_RCS) if j % 3 else rng.randrange(0, 0x70)
            n = rng.randint(1, 252)
            buf = bytearray(rng.getrandbits(8) for _ in range(n))
            buf[0] = (buf[0] & 0x80) | rc
            check(ctx, mod, ref, bytes(buf), sample=(j % 499 == 0))


def finalize(merged, tier):
    c = merged["counters"]
    if c.get("constructed", 0) == 0:
        merged["inconclusive"].append("SCSICheckCondition never constructed")
    if c.get("text_cross_checks", 0) == 0:
        merged["inconclusive"].append("no ASC/ASCQ text was cross-checked")
    if c.get("truncation_sweeps", 0) == 0 or c.get("transport_conditions", 0) == 0:
        merged["inconclusive"].append("truncation sweeps / transport path did not run")
    return {"exhaustive": tier == "thorough",
            "exhaustive_dimension": "all 65536 ASC/ASCQ pairs x 16 keys x response codes 70h-73h" if tier == "thorough" else "256 ASC x 5 ASCQ x 16 keys x 70h-73h"}


def replay(rec, ctx):
    import pyscsi.pyscsi.scsi_sense as mod

    from vmon.spec import sense as ref

    s = rec["witness"]["sense"]
    check(ctx, mod, ref, bytes.fromhex(s[4:].split("..")[0]))
