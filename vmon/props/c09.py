"""C09 - command objects are isolated from one another, in any order or interleaving."""
import random

PYOPT = 3  # every third shard also runs in an interpreter started with -O
LEVEL = "exploration"
RULE = (
    "per command: a solo baseline (cdb, buffers, decode(cdb), encode(decode(cdb))) with nothing else constructed in between.  "
    "A. sequential histories: all 42x42 ordered pairs <build A; build/encode/decode B; decode and encode with A's class; "
    "re-observe A> and seeded (quick) / all 74088 (thorough) triples; the same argument dictionaries reused for two EXTENDED "
    "COPY commands; repeated marshalling calls.  B. controlled interleavings: 2-3 threads, each <build own command; decode; "
    "encode>, scheduled at library source lines by vmon/mon/sched.py: every schedule with one preemption for every ordered "
    "class pair of the tier's pair set, two preemptions at a stride for representative pairs, seeded random schedules with up to "
    "4 preemptions over 3 threads.  C. (thorough) 8 free-running threads with a 1 us switch interval.  Oracle: equality with the "
    "solo baseline.  distinct = hash(history) / hash(program pair, preemption vector); non-trivial = the two commands have "
    "different layouts, and for interleavings the executed step order differs from every serial order"
)
ASSUMPTIONS = [
    "preemption at source-line granularity, bounded preemption count; each shared-state access of scsi_command.py sits on its own line",
    "threads each build and use their own command objects (sharing one object between threads is not covered by the statement)",
]


def shards(tier, seed):
    from vmon.spec import cdb as S

    names = list(S.COMMANDS)
    out = [{"id": "seq-pairs", "kind": "pairs"}, {"id": "alias", "kind": "alias"}, {"id": "hashseeds", "kind": "hashseeds", "probe": str(seed)}]
    # (one interpreter per length-site position: the very first odd response a decoder sees there has that field changed, so what
    # it decodes to is untouched by anything decoded before)
    out += [{"id": "first-decodes-%d" % i, "kind": "first-decodes", "salt": "%s-%d" % (seed, i // 6), "site": i % 6} for i in range(6 if tier == "quick" else 18)]
    if tier == "quick":
        out.append({"id": "seq-triples", "kind": "triples", "n": 2000, "firsts": None})
        rng = random.Random("c09pairs:%s" % seed)
        pairs = set()
        fixed = [("Read10", "Inquiry"), ("Inquiry", "Read10"), ("Read16", "Write16"), ("Write10", "Read10"), ("TestUnitReady", "Read16"),
                 ("ExtendedCopy4", "Read10"), ("ModeSelect6", "ModeSense10"), ("ReadCapacity16", "GetLBAStatus")]
        pairs.update(fixed)
        while len(pairs) < 40:
            pairs.add((rng.choice(names), rng.choice(names)))
        pairs = sorted(pairs)
        for i in range(8):
            out.append({"id": "sched1-%d" % i, "kind": "sched1", "pairs": pairs[i::8], "maxpoints": 260})
        out.append({"id": "sched2", "kind": "sched2", "pairs": fixed[:4], "stride": 16})
        # two preemptions, both threads building from the *same* argument objects (a constant descriptor list of the application)
        out.append({"id": "sched2-shared-4", "kind": "sched2", "pairs": [("ExtendedCopy4+id+shared", "ExtendedCopy4+id+shared")], "stride": 40})
        out.append({"id": "sched2-shared-5", "kind": "sched2", "pairs": [("ExtendedCopy5+id+shared", "ExtendedCopy5+id+shared"), ("PersistentReserveOut+shared", "PersistentReserveOut+shared")], "stride": 40})
        for i in range(4):
            out.append({"id": "sched-data-%d" % i, "kind": "sched1", "pairs": DATA_PAIRS[i::4], "maxpoints": 200})
        cold = [("ExtendedCopy5", "ExtendedCopy5"), ("ExtendedCopy4", "ExtendedCopy4"), ("PersistentReserveOut", "PersistentReserveOut"),
                ("Inquiry", "Read10"), ("ModeSelect10", "ModeSense10"), ("ReadElementStatus", "ReadElementStatus")]
        for i in range(3):
            out.append({"id": "cold-%d" % i, "kind": "cold", "pairs": cold[i::3], "points": 14})
        out.append({"id": "cold-xcopy5", "kind": "cold", "pairs": [("ExtendedCopy5", "ExtendedCopy5")], "points": 48})
        out.append({"id": "cold-xcopy4", "kind": "cold", "pairs": [("ExtendedCopy4", "ExtendedCopy4")], "points": 48})
        out.append({"id": "cold-data", "kind": "cold", "pairs": [("data:inquiry.vpd83:40", "data:reportluns:300"), ("data:getlbastatus:300", "data:getlbastatus:300")], "points": 40})
        # lists of different lengths: what one thread leaves behind is reached by the longer list of the other, or by a later one
        out.append({"id": "cold-luns-a", "kind": "cold", "pairs": [("data:reportluns:330", "data:reportluns:290")], "points": 110, "phase": 0})
        out.append({"id": "cold-luns-b", "kind": "cold", "pairs": [("data:reportluns:330", "data:reportluns:290")], "points": 110, "phase": 1})
        out.append({"id": "sched-rand", "kind": "schedrand", "n": 300})
    else:
        for i in range(0, 42, 3):
            out.append({"id": "seq-triples-%d" % i, "kind": "triples", "n": 0, "firsts": names[i:i + 3]})
        allpairs = [(a, b) for a in names for b in names]
        k = 48
        for i in range(k):
            out.append({"id": "sched1-%d" % i, "kind": "sched1", "pairs": allpairs[i::k]})
        rep = [("Read10", "Inquiry"), ("Read10", "Read12"), ("Read10", "Write10"), ("Read16", "TestUnitReady"), ("ExtendedCopy4", "ExtendedCopy5"),
               ("ExtendedCopy4", "Read10"), ("ModeSelect10", "ModeSense6"), ("PersistentReserveOut", "PersistentReserveInReadKeys"),
               ("ATAPassThrough16", "ATAPassThrough12"), ("ReadCd", "ReadDiscInformation"), ("MoveMedium", "ExchangeMedium"),
               ("WriteSame16", "WriteSame10"), ("Inquiry", "ReportLuns"), ("GetLBAStatus", "ReadCapacity16"), ("Write16", "Read16"),
               ("SynchronizeCache10", "SynchronizeCache16"), ("ReadElementStatus", "PositionToElement"), ("ReportPriority", "ReportTargetPortGroups"),
               ("Write12", "Inquiry"), ("Inquiry", "Inquiry"), ("Read10", "Read10"), ("TestUnitReady", "TestUnitReady"),
               ("PreventAllowMediumRemoval", "Read16"), ("InitializeElementStatusWithRange", "OpenCloseImportExportElement")]
        for i in range(0, 24, 2):
            out.append({"id": "sched2-%d" % i, "kind": "sched2", "pairs": rep[i:i + 2], "stride": 4})
        from vmon.spec import datain as D

        fmts = ["data:" + n for n in D.FORMATS]
        custom = ["ExtendedCopy4+id", "ExtendedCopy5+id", "PersistentReserveOut", "ModeSelect6", "ModeSelect10", "Inquiry", "ReadElementStatus"]
        dpairs = [(a, b) for a in custom for b in fmts] + [(b, a) for a in custom for b in fmts] + [(a + "#1", b + "#2") for a in fmts for b in fmts if a <= b]
        for i in range(16):
            out.append({"id": "sched-data-%d" % i, "kind": "sched1", "pairs": dpairs[i::16], "maxpoints": 400})
        out.append({"id": "sched2-data", "kind": "sched2", "pairs": [("ExtendedCopy5+id", "ExtendedCopy5+id"), ("ExtendedCopy5+id", "data:inquiry.vpd83")], "stride": 6})
        for i in range(8):
            out.append({"id": "sched-rand-%d" % i, "kind": "schedrand", "n": 2500})
        out.append({"id": "stress", "kind": "stress", "n": 100000})
        same = [(n, n) for n in names]
        for i in range(14):
            out.append({"id": "cold-%d" % i, "kind": "cold", "pairs": same[i::14] + [allpairs[(i * 131 + 7) % len(allpairs)]], "points": 60})
        from vmon.spec import datain as D2

        lists = ["reportluns", "getlbastatus", "inquiry.vpd83", "reporttargetportgroups", "readelementstatus", "prin.readkeys", "prin.readfullstatus", "reportpriority"]
        dp = [("data:%s:330" % a, "data:%s:290" % b) for a in lists for b in lists if a in D2.FORMATS and b in D2.FORMATS]
        for i in range(6):
            out.append({"id": "cold-data-%d" % i, "kind": "cold", "pairs": dp[i::6], "points": 120})
    return out


def fixed_args(c, salt=0):
    from vmon import harness
    from vmon.spec import dataout as DO

    rng = random.Random("c09args:%s:%s" % (c.name, salt))
    if c.custom:
        a = DO.GEN[c.custom](rng, ("counts", 2, 2, 0) if c.custom.startswith("xcopy") and salt >= 100 else "rand")[0]
        if salt >= 100 and c.custom.startswith("xcopy"):
            by_name(a, 4 if c.custom == "xcopy4" else 5, DO)
        return a
    a = harness.random_args(c, rng, cap=2048)
    # make every int field non-zero so a lost field is visible
    for k, (kind, width, d) in c.args.items():
        if kind == "u" and width > 1 and not a.get(k):
            a[k] = 1
    if c.xfer == "ata":
        harness._ata_clip(c, a, 2048)  # (a transfer in logical sectors needs the sector size: not a request the library refuses)
    return a


def by_name(a, spc, DO):
    """give every code of an EXTENDED COPY argument set by its table name / description (a documented input form)"""
    kw = a["_kwargs"]
    descr = {0x00: "Direct access block device (e.g., magnetic disk)", 0x01: "Sequential access device (e.g., magnetic tape)", 0x03: "Processor device",
             0x05: "CD/DVD device", 0x0E: "Simplified direct access device (e.g., magnetic disk)", 0x04: "Write-once device (e.g., some optical disks)",
             0x07: "Optical memory device (e.g., some optical disks)"}
    for d in kw["target_descriptor_list" if spc == 4 else "cscd_descriptor_list"]:
        d["descriptor_type_code"] = "Identification descriptor target descriptor" if spc == 4 else "Identification Descriptor CSCD descriptor"
        if isinstance(d["peripheral_device_type"], int):
            d["peripheral_device_type"] = descr[d["peripheral_device_type"]]
    for d in kw["segment_descriptor_list"]:
        if isinstance(d["descriptor_type_code"], int):
            d["descriptor_type_code"] = DO.SEG_NAMES[d["descriptor_type_code"]][0]


def observe(c, a, share=False):
    """the program each history step / thread runs: build, decode, encode"""
    from vmon import harness
    from vmon.spec import dataout as DO

    cmd = harness.construct(c, c.sets[0], DO.fresh(a) if c.custom and not share else a)
    cls = type(cmd)
    dec = cls.unmarshall_cdb(cmd.cdb)
    enc = bytes(cls.marshall_cdb(dec))
    return cmd, (bytes(cmd.cdb), len(cmd.datain), bytes(cmd.dataout), tuple(sorted(dec.items())), enc)


def layout_of(c):
    return tuple(sorted((k, tuple(v)) for k, v in c.load()._cdb_bits.items()))


DATA_PAIRS = [("ExtendedCopy5+id", "data:inquiry.vpd83"), ("data:inquiry.vpd83", "ExtendedCopy5+id"), ("ExtendedCopy4+id", "data:inquiry.vpd83"),
              ("data:inquiry.vpd83", "ExtendedCopy4+id"), ("PersistentReserveOut", "data:prin.readfullstatus"), ("data:prin.readfullstatus", "PersistentReserveOut"),
              ("ModeSelect10", "data:modesense10"), ("ModeSelect6", "data:modesense6"), ("data:inquiry.vpd83", "data:inquiry.vpd83"),
              ("data:readelementstatus", "data:reporttargetportgroups"), ("data:inquiry.standard", "data:inquiry.vpd86"), ("Inquiry", "data:inquiry.vpd83"),
              ("data:readelementstatus#1", "data:readelementstatus#2"), ("data:reporttargetportgroups#1", "data:reporttargetportgroups#2"),
              ("data:inquiry.vpd83#1", "data:inquiry.vpd83#2"), ("data:modesense10#1", "data:modesense10#2")]


def data_program(fname):
    """a thread that works on device data of its own: decode a fixed well-formed response, build it again ("fmt#k": the k-th
    different response of that format, so that two threads of one pair work on different data)"""
    import copy

    from vmon.spec import datain as D

    fname, _sep, salt = fname.partition("#")
    f = D.FORMATS[fname]
    rng = random.Random("c09data:%s:%s" % (fname, salt))
    if salt:
        # the richest of a few responses: an empty list gives the other thread nothing to disturb
        v = max((f.gen(rng, ("count", 3) if fname in ("inquiry.vpd83", "prin.readfullstatus") else "rand") for _i in range(6)), key=lambda x: len(f.encode(x)))
    else:
        v = f.gen(rng, ("count", 3) if fname in ("inquiry.vpd83", "prin.readfullstatus") else "rand")
    b = bytes(f.encode(v))
    kw = f.decode_kwargs(v)

    def prog():
        cls = f.lib_cls()
        r = cls.unmarshall_datain(bytearray(b), **kw)
        out = [repr(r)]
        if f.builder:
            try:
                out.append(bytes(f.lib_build(copy.deepcopy(r))))
            except Exception as e:  # noqa: BLE001
                out.append("build raises %s" % type(e).__name__)
        # same tuple shape as observe(): (cdb, datain_len, dataout, decode, encode)
        return (b"", 0, b"", out[0], out[1] if len(out) > 1 else b"")

    return prog


def program(S, name, args):
    if name.startswith("data:"):
        return data_program(name[5:])
    c = S.COMMANDS[name.split("+")[0]]
    if name.endswith("+shared"):
        # the threads build from the very same argument objects (a constant descriptor list of the application), not from copies
        return lambda: observe(c, args[name], share=True)[1]
    return lambda: observe(c, args[name])[1]


def add_extra_programs(S, base, args, names):
    for name in names:
        if name in base:
            continue
        if not name.startswith("data:"):
            args[name] = fixed_args(S.COMMANDS[name.split("+")[0]], 100)
        try:
            base[name] = program(S, name, args)()
        except Exception:  # noqa: BLE001
            base[name] = None


def first_decodes(ctx, shard):
    """runs in an interpreter that has decoded nothing yet. Per format: responses whose length and count fields say zero,
    one, or the largest value although data follows (what odd firmware sends; reserved but seen) are decoded *first*, then
    well-formed responses of the same format (several devices, several element / page / descriptor kinds), then the odd ones
    again: what is decoded from a response depends on that response alone, not on what the class has decoded before"""
    import random as _random

    from vmon.spec import datain as D

    rng = _random.Random("c09-first-decodes:%s" % shard.get("salt", 0))

    def outcome(f, b, v):
        try:
            return ("ok", repr(f.lib_decode(bytearray(b), v)))
        except Exception as e:  # noqa: BLE001
            return ("raises", type(e).__name__)

    for name, f in D.FORMATS.items():
        odd = []
        for _rep in range(16):
            v = f.gen(rng)
            try:
                b = bytearray(f.encode(v))
                sites = f.length_sites(v, b)
            except Exception:  # noqa: BLE001
                continue
            for off, n in sites[shard.get("site", 0)::6]:
                for val in (0, 1, (1 << (8 * n)) - 1, int.from_bytes(b[off:off + n], "big") // 2):
                    x = bytearray(b)
                    x[off:off + n] = val.to_bytes(n, "big")
                    if x != b:
                        odd.append((bytes(x), v, bytes(b), val))
        if not odd:
            continue
        odd.sort(key=lambda o: o[3] != 0)  # (stable) the ones that say zero first: they can teach the decoder nothing
        # what the class *builds* from given values is taken before anything was decoded, and again at the end
        built = []
        if f.builder:
            for _rep in range(6):
                v = f.gen(rng)
                try:
                    inp = f.lib_input(v)
                    built.append((inp, bytes(f.lib_build(D.strip_private(inp)))))
                except Exception:  # noqa: BLE001
                    pass
        before = [outcome(f, x, v) for x, v, _b, _val in odd]
        for _rep in range(12):
            v = f.gen(rng)
            try:
                f.lib_decode(bytearray(f.encode(v)), v)
            except Exception:  # noqa: BLE001
                pass
        after = []
        for x, v, b0, _val in odd:
            # ... each right after the well-formed response it was made from (same kinds, same descriptor sizes)
            try:
                f.lib_decode(bytearray(b0), v)
            except Exception:  # noqa: BLE001
                pass
            after.append(outcome(f, x, v))
        for inp, b1 in built:
            try:
                b2 = bytes(f.lib_build(D.strip_private(inp)))
            except Exception as e:  # noqa: BLE001
                b2 = b"raises " + type(e).__name__.encode()
            ctx.count("builds_repeated_after_decodes")
            if b1 != b2:
                ctx.fail("C09:build.depends_on_earlier_decodes.%s" % name, "%s: the same values were built into %s... before anything had been decoded in the process and into %s... after responses (odd and well-formed ones) had been decoded"
                         % (name, b1[:32].hex(), b2[:32].hex()), {"format": name})
                break
        ctx.case(("first-decodes", name, len(odd)), True)
        ctx.count("odd_responses_decoded_before_and_after_well_formed_ones", len(odd))
        for (x, _v, _b0, _val), r1, r2 in zip(odd, before, after):
            if r1 != r2:
                ctx.fail("C09:decode.depends_on_earlier_decodes.%s" % name, "%s: the response %s... decoded to %s as the first of its kind in the process and to %s after well-formed responses had been decoded"
                         % (name, x[:24].hex(), r1[1][:120], r2[1][:120]), {"format": name, "response": x.hex()})
                break


def run(shard, ctx):
    from vmon.spec import cdb as S

    kind = shard["kind"]
    if kind == "first-decodes":
        return first_decodes(ctx, shard)
    names = list(S.COMMANDS)
    base = {}
    args = {}
    for n in names:
        c = S.COMMANDS[n]
        args[n] = fixed_args(c)
        try:
            base[n] = observe(c, args[n])[1]
        except Exception as e:  # noqa: BLE001
            ctx.fail("C09:baseline_raises.%s" % n, "solo baseline of %s raised %s: %s" % (n, type(e).__name__, e), {"cmd": n}, exc=e)
            base[n] = None
    if kind == "pairs":
        for A in names:
            for B in names:
                seq_history(ctx, S, base, args, (A, B))
        base_class_and_derived(ctx, S, base, args)
        discarded_buffers(ctx, S)
    elif kind == "triples":
        if shard["firsts"] is None:
            rng = ctx.rng()
            for _ in range(shard["n"]):
                seq_history(ctx, S, base, args, tuple(rng.choice(names) for _ in range(3)))
        else:
            for A in shard["firsts"]:
                for B in names:
                    for C in names:
                        seq_history(ctx, S, base, args, (A, B, C))
    elif kind == "alias":
        alias_checks(ctx, S)
    elif kind in ("sched1", "sched2", "schedrand"):
        add_extra_programs(S, base, args, sorted({x for pr in shard.get("pairs", []) for x in pr if x not in base}))
        sched_runs(ctx, S, shard, base, args)
    elif kind == "stress":
        stress(ctx, S, shard, base, args)
    elif kind == "hashseeds":
        hash_seed_runs(ctx, shard)
        after_fault_in_other_thread(ctx, S)
        reentrant_in_one_thread(ctx, S, base, args)
    elif kind == "cold":
        cold_runs(ctx, shard)


def seq_history(ctx, S, base, args, seq):
    """<build seq[0]; build/encode/decode the others; decode+encode with seq[0]'s class; re-observe seq[0]>"""
    A = seq[0]
    cA = S.COMMANDS[A]
    if base[A] is None or any(base[x] is None for x in seq):
        return
    different = any(layout_of(S.COMMANDS[x]) != layout_of(cA) for x in seq[1:])
    wit = {"history": list(seq)}
    ctx.case(("seq",) + tuple(seq), different, sample=wit if ctx.want_sample() else None)
    ctx.count("sequential_histories")
    try:
        cmdA, obsA = observe(cA, args[A])
        snap = (bytes(cmdA.cdb), len(cmdA.datain), bytes(cmdA.dataout))
        for x in seq[1:]:
            _cmd, obs = observe(S.COMMANDS[x], args[x])
            if obs != base[x]:
                ctx.fail("C09:sequential.later_command_differs_from_solo", "%s built after %s differs from its solo baseline" % (x, A), wit)
        clsA = type(cmdA)
        dec = clsA.unmarshall_cdb(cmdA.cdb)
        if tuple(sorted(dec.items())) != base[A][3]:
            ctx.fail("C09:sequential.decode_depends_on_other_command",
                     "%s.unmarshall_cdb(own cdb) after building %s gives %r, alone it gives %r" % (A, seq[-1], sorted(dec.items())[:4], list(base[A][3])[:4]), wit)
        enc = bytes(clsA.marshall_cdb(dict(base[A][3])))
        if enc != base[A][4]:
            ctx.fail("C09:sequential.encode_depends_on_other_command",
                     "%s.marshall_cdb(fields) after building %s gives %s, alone %s" % (A, seq[-1], enc.hex(), base[A][4].hex()), wit)
        if (bytes(cmdA.cdb), len(cmdA.datain), bytes(cmdA.dataout)) != snap or snap != base[A][:3]:
            ctx.fail("C09:sequential.command_object_changed", "%s's cdb/buffers changed after building %s" % (A, seq[-1]), wit)
    except Exception as e:  # noqa: BLE001
        ctx.fail("C09:sequential.raises.%s" % type(e).__name__, "history %r raised %s: %s" % (seq, type(e).__name__, e), wit, exc=e)


def derived_decoders(ctx, S):
    """command classes derived by the user whose decoder is an ordinary method (it looks at the instance), two commands of
    each with different settings, decoded through cmd.unmarshall() in turn and again: each command is decoded by its own
    object; and a decoder replaced on the class between two commands is the one that runs"""
    import pyscsi.pyscsi.scsi_enum_command as E
    from pyscsi.pyscsi.scsi_cdb_inquiry import Inquiry
    from pyscsi.pyscsi.scsi_cdb_readcapacity16 import ReadCapacity16
    from pyscsi.pyscsi.scsi_cdb_report_luns import ReportLuns

    for parent, opname, kw in ((Inquiry, "INQUIRY", {}), (ReportLuns, "REPORT_LUNS", {}), (ReadCapacity16, None, {})):
        class Tagged(parent):
            tag = None

            def unmarshall_datain(self, data, **kwargs):
                out = dict(parent.unmarshall_datain(data, **kwargs))
                out["decoded_by"] = self.tag
                return out

        try:
            op = getattr(E.sbc, opname) if opname else next(iter([getattr(E.sbc, k) for k in E.sbc.keys if getattr(E.sbc, k).value == 0x9E]))
            cmds = []
            for tag in ("first", "second", "third"):
                cmd = Tagged(op, **kw)
                cmd.tag = tag
                for i in range(min(len(cmd.datain), 8)):
                    cmd.datain[i] = (len(tag) + i) & 0x7F
                cmds.append(cmd)
            seen = []
            for cmd in cmds + cmds[::-1]:
                cmd.unmarshall()
                seen.append((cmd.tag, cmd.result.get("decoded_by")))
            ctx.case(("derived-decoder", parent.__name__), True)
            ctx.count("derived_class_decodes", len(seen))
            if any(a != b for a, b in seen):
                ctx.fail("C09:derived_class.decoded_by_another_command", "commands of a class derived from %s whose decoder is an instance method: %r (own tag, tag of the object that decoded)" % (parent.__name__, seen),
                         {"class": parent.__name__})
            # the decoder replaced on the class (a test double, a site-specific fix): later commands are decoded by the new one
            Tagged.unmarshall_datain = lambda self, data, **kwargs: {"decoded_by": "replacement"}
            cmds[0].unmarshall()
            fresh = Tagged(op, **kw)
            fresh.unmarshall()
            if cmds[0].result != {"decoded_by": "replacement"} or fresh.result != {"decoded_by": "replacement"}:
                ctx.fail("C09:derived_class.replaced_decoder_ignored", "a decoder assigned to the class after its first use is not the one that runs", {"class": parent.__name__})
        except Exception as e:  # noqa: BLE001
            ctx.fail("C09:sequential.raises.%s" % type(e).__name__, "derived-decoder history raised %s: %s" % (type(e).__name__, e), {"class": parent.__name__}, exc=e)


def own_commands(ctx, S):
    """commands the library has no class for, written by the application directly on SCSICommand (START STOP UNIT, SEEK(10),
    a vendor command): the constructor fills the CDB and the buffers it was given *in place*. Several live commands of the same
    CDB length and buffer sizes: each keeps its own bytes"""
    import pyscsi.pyscsi.scsi_enum_command as E
    from pyscsi.pyscsi.scsi_command import SCSICommand
    from pyscsi.pyscsi.scsi_opcode import OpCode

    class InPlace(SCSICommand):
        def __init__(self, opcode, fill, dataout_alloclen=0, datain_alloclen=0):
            SCSICommand.__init__(self, opcode, dataout_alloclen, datain_alloclen)
            self.cdb[0] = self.opcode.value
            for i in range(1, len(self.cdb) - 1):
                self.cdb[i] = (fill + i) & 0xFF
            for i in range(len(self.dataout)):
                self.dataout[i] = (fill ^ i) & 0xFF
            for i in range(len(self.datain)):
                self.datain[i] = (fill + 2 * i) & 0xFF

    ops = [OpCode("START_STOP_UNIT", 0x1B, {}), OpCode("SEEK_10", 0x2B, {}), OpCode("REZERO", 0x01, {}), OpCode("VENDOR_A9", 0xA9, {}), OpCode("VENDOR_8B", 0x8B, {}),
           E.spc.TEST_UNIT_READY, E.sbc.READ_10]
    try:
        live = []
        for rnd in range(3):
            for j, op in enumerate(ops):
                fill = 0x10 * (rnd + 1) + j
                sizes = ((0, 0), (8, 0), (0, 8), (8, 8))[(rnd + j) % 4]
                cmd = InPlace(op, fill, *sizes)
                live.append((cmd, bytes(cmd.cdb), bytes(cmd.dataout), bytes(cmd.datain), op.name, fill))
                ctx.count("own_command_objects")
            # ... with shipped commands built in between
            from pyscsi.pyscsi.scsi_cdb_testunitready import TestUnitReady

            TestUnitReady(E.spc.TEST_UNIT_READY)
        ctx.case(("own-commands", len(live)), True)
        for cmd, cdb, dout, din, name, fill in live:
            if bytes(cmd.cdb) != cdb or bytes(cmd.dataout) != dout or bytes(cmd.datain) != din:
                ctx.fail("C09:own_command.changed_by_later_commands", "a %s command written directly on SCSICommand (filled in place with %#x) holds cdb %s / data-out %s / data-in %s after later commands were built; "
                         "it was built as %s / %s / %s" % (name, fill, bytes(cmd.cdb).hex(), bytes(cmd.dataout).hex(), bytes(cmd.datain).hex(), cdb.hex(), dout.hex(), din.hex()), {"command": name})
                break
        if len({id(c[0].cdb) for c in live}) != len(live):
            ctx.fail("C09:own_command.cdb_shared", "two live commands written directly on SCSICommand hold one CDB object", {})
    except Exception as e:  # noqa: BLE001
        ctx.fail("C09:sequential.raises.%s" % type(e).__name__, "own-command history raised %s: %s" % (type(e).__name__, e), {}, exc=e)


def base_class_and_derived(ctx, S, base, args):
    """histories that also use the generic base class (as older code did: SCSICommand.unmarshall_cdb) and a command
    class derived by the user from a shipped one with an extended layout"""
    from pyscsi.pyscsi.scsi_command import SCSICommand

    derived_decoders(ctx, S)
    own_commands(ctx, S)
    names = list(S.COMMANDS)
    for A in names:
        cA = S.COMMANDS[A]
        if base[A] is None:
            continue
        wit = {"history": ["SCSICommand.unmarshall_cdb/marshall_cdb (base class)", A]}
        ctx.case(("seq-base", A), True)
        ctx.count("sequential_histories")
        try:
            SCSICommand.unmarshall_cdb(bytearray(base[A][0]))
            try:
                SCSICommand.marshall_cdb({"opcode": cA.op})
            except Exception:  # noqa: BLE001
                pass
            _cmd, obs = observe(cA, args[A])
            if obs != base[A]:
                ctx.fail("C09:sequential.depends_on_base_class_use", "%s built after the base class was used for decoding differs from its solo baseline" % A, wit)
        except Exception as e:  # noqa: BLE001
            ctx.fail("C09:sequential.raises.%s" % type(e).__name__, "history %r raised %s" % (wit["history"], e), wit, exc=e)
    # a derived class with one more field, used after / before its parent
    for A in ("Read10", "Inquiry", "Write16", "ModeSense6", "SynchronizeCache16"):
        cA = S.COMMANDS[A]
        parent = cA.load()
        for order in ("parent_first", "child_first"):
            extra_byte = cA.length - 1  # CONTROL byte: unused by the parent's layout

            class Child(parent):
                _cdb_bits = dict(parent._cdb_bits, vendor_control=[0xC0, extra_byte])

            wit = {"history": [A, "class derived from %s with one more field" % A], "order": order}
            ctx.case(("seq-derived", A, order), True)
            ctx.count("sequential_histories")
            try:
                if order == "parent_first":
                    observe(cA, args[A])
                fields = dict(base[A][3])
                fields["vendor_control"] = 2
                b = bytes(Child.marshall_cdb(fields))
                d = Child.unmarshall_cdb(bytearray(b))
                if d.get("vendor_control") != 2 or b[extra_byte] != 0x80 or b[:extra_byte] != base[A][0][:extra_byte]:
                    ctx.fail("C09:sequential.derived_class_uses_other_layout", "a class derived from %s (%s) encodes %s / decodes vendor_control=%r" % (A, order, b.hex(), d.get("vendor_control")), wit)
                _cmd, obs = observe(cA, args[A])
                if obs != base[A]:
                    ctx.fail("C09:sequential.parent_changed_by_derived_class", "%s differs from its solo baseline after a derived class was used" % A, wit)
            except Exception as e:  # noqa: BLE001
                ctx.fail("C09:sequential.raises.%s" % type(e).__name__, "derived-class history raised %s" % e, wit, exc=e)


def discarded_buffers(ctx, S):
    """<build A; keep A.datain; discard A; build B of the same size>: the kept buffer is neither handed to B nor changed"""
    import gc

    from vmon import harness

    for name in ("Read10", "Read16", "Inquiry", "ReportLuns", "ReadCd", "ModeSense10"):
        c = S.COMMANDS[name]
        for size in (96, 512, 4096, 65536, 1 << 20):
            if c.xfer == "read":
                a = {"blocksize": 512, "lba": 5, "tl": size // 512}
                if size < 512 or size // 512 >= 1 << c.args["tl"][1]:
                    continue
            elif c.xfer == "readcd":
                if size % 3072:
                    continue
                a = {"lba": 0, "tl": size // 3072}
            else:
                an = [k for k, v in c.args.items() if v[0] == "alloc"][0]
                if size >= 1 << c.args[an][1]:
                    continue
                a = {k: 0 for k, v in c.args.items() if v[2] is S.REQ and v[0] == "u"}
                a[an] = size
            ctx.case(("discard", name, size), True, sample={"history": ["build %s(datain %d bytes)" % (name, size), "keep .datain, drop the command", "build another"]} if ctx.want_sample() else None)
            ctx.count("discarded_buffer_histories")
            try:
                held = []
                for i in range(6):
                    cmd = harness.construct(c, c.sets[0], dict(a))
                    buf = cmd.datain
                    for j in range(0, len(buf), max(1, len(buf) // 64)):
                        buf[j] = (i * 37 + j) & 0xFF or 1
                    held.append((buf, bytes(buf)))
                    del cmd
                    gc.collect()
                ids = {id(b) for b, _ in held}
                if len(ids) != len(held):
                    ctx.fail("C09:discarded.buffer_handed_to_later_command", "%s: the data-in buffer of a discarded command was handed to a later command (size %d)" % (name, size), {"cmd": name, "size": size})
                elif any(bytes(b) != snap for b, snap in held):
                    ctx.fail("C09:discarded.kept_buffer_changed", "%s: a kept data-in buffer changed when later commands were built (size %d)" % (name, size), {"cmd": name, "size": size})
            except Exception as e:  # noqa: BLE001
                ctx.fail("C09:discarded.raises.%s" % type(e).__name__, "history raised %s" % e, {"cmd": name, "size": size}, exc=e)


def alias_checks(ctx, S):
    import copy

    import pyscsi.pyscsi.scsi_enum_command as E

    from vmon import harness
    from vmon.spec import dataout as DO

    rng = ctx.rng()
    for name in ("ExtendedCopy4", "ExtendedCopy5", "PersistentReserveOut", "ModeSelect6", "ModeSelect10"):
        c = S.COMMANDS[name]
        for i in range(400 if name.startswith("Extended") else 150):
            a, _ = DO.GEN[c.custom](rng)
            if i % 2:
                a = to_bytearrays(a)  # callers (and the library's own tests) pass mutable bytearrays
            pristine = copy.deepcopy(a)
            ctx.case(("alias", name, repr(a)), True, sample={"cmd": name, "reuse": "same argument dictionaries for two commands"} if ctx.want_sample() else None)
            try:
                ref = harness.construct(c, c.sets[0], copy.deepcopy(pristine))
                c1 = harness.construct(c, c.sets[0], a)  # the library sees the caller's own objects
                snap = (bytes(c1.cdb), bytes(c1.dataout))
                c2 = harness.construct(c, c.sets[0], a)  # reused
            except Exception as e:  # noqa: BLE001
                ctx.fail("C09:reuse.raises.%s" % type(e).__name__, "%s built twice from the same dictionaries raised %s" % (name, e), {"cmd": name, "args": pristine}, exc=e)
                continue
            ctx.count("reuse_histories")
            if (bytes(c1.cdb), bytes(c1.dataout)) != snap:
                ctx.fail("C09:reuse.first_command_changed", "%s: building a second command from the same arguments changed the first" % name, {"cmd": name, "args": pristine})
            if (bytes(c2.cdb), bytes(c2.dataout)) != (bytes(ref.cdb), bytes(ref.dataout)):
                ctx.fail("C09:reuse.second_command_differs", "%s: second command from the same arguments differs from one built from a fresh copy" % name, {"cmd": name, "args": pristine})
            # the caller changes values *inside* its long-lived descriptors and sends the next command
            try:
                changed = perturb(a, 0, rng.choice([2, 4, 4, 5]), rng)  # sometimes only deep inside the descriptors
                if changed:
                    ctx.count("reuse_after_nested_change")
                    want = harness.construct(c, c.sets[0], copy.deepcopy(a))
                    c3 = harness.construct(c, c.sets[0], a)
                    if (bytes(c3.cdb), bytes(c3.dataout)) != (bytes(want.cdb), bytes(want.dataout)):
                        ctx.fail("C09:reuse.stale_after_nested_change", "%s: after values inside the reused argument dictionaries were changed in place, the next command "
                                 "differs from one built from a fresh copy of the same arguments" % name, {"cmd": name, "args": copy.deepcopy(a), "changed_leaves": changed})
            except Exception as e:  # noqa: BLE001
                ctx.fail("C09:reuse.raises.%s" % type(e).__name__, "%s built from reused dictionaries after an in-place change raised %s" % (name, e), {"cmd": name}, exc=e)
            if c1.dataout is c2.dataout and len(c1.dataout):
                ctx.fail("C09:reuse.buffers_shared", "%s: two commands share one dataout object" % name, {"cmd": name})
            # mutating one command's buffer must not affect the other
            if len(c1.dataout):
                before = bytes(c2.dataout)
                c1.dataout[0] ^= 0xFF
                if bytes(c2.dataout) != before:
                    ctx.fail("C09:reuse.buffers_aliased", "%s: writing to one command's dataout changed another's" % name, {"cmd": name})
    retyped_segments(ctx, S, rng)
    retargeted_opcode_objects(ctx, S, rng)
    # "repeating a call with equal inputs yields equal bytes": every command class, built three times from equal arguments
    # (also unusual but legal combinations: a 28-bit ATA command carrying 48-bit values)
    for c in S.COMMANDS.values():
        if c.custom:
            continue
        for i in range(40):
            a = harness.random_args(c, rng, cap=2048)
            if c.xfer == "ata" and i % 2:
                a["extend"] = 0
            ctx.case(("thrice", c.name, harness.args_repr(a)), True)
            outs = []
            for _k in range(3):
                try:
                    cmd = harness.construct(c, c.sets[0], dict(a))
                    outs.append((bytes(cmd.cdb), len(cmd.datain), bytes(cmd.dataout)))
                except Exception as e:  # noqa: BLE001
                    outs.append(("raises", type(e).__name__))
            ctx.count("commands_built_three_times")
            if len(set(outs)) != 1:
                ctx.fail("C09:repeated_construction_differs", "%s built three times from equal arguments: %s" % (c.name, [o[0].hex() if isinstance(o[0], bytes) else o for o in outs]),
                         {"cmd": c.name, "args": a})
    # facade defaults (mutable default arguments)
    dev = harness.Recorder(E.spc)
    s = harness.make_facade(dev)
    for meth in ("extendedcopy4", "extendedcopy5"):
        ctx.case(("defaults", meth), True)
        x = getattr(s, meth)()
        first = (bytes(x.cdb), bytes(x.dataout))
        x.dataout += b"\xAA\xBB"
        y = getattr(s, meth)()
        if (bytes(y.cdb), bytes(y.dataout)) != first:
            ctx.fail("C09:defaults.second_call_differs", "%s() twice with defaults gives different commands" % meth, {"method": meth})
        ctx.count("reuse_histories")
    # repeatability of marshalling calls
    from vmon.spec import datain as D

    # what one decode returned is not touched by a later decode of another response (of any format), nor by the caller editing
    # that later result
    from vmon.props.c06 import scribble_all

    fmts = list(D.FORMATS.values())
    # one fixed rich response per format (with text fields where the format has any), decoded before anything else: decoded
    # again after every hostile decode of that format it has to give what it gave then
    probes = {}
    for f in fmts:
        prng = random.Random("c09probe:%s" % f.name)
        pv = max((f.gen(prng) for _i in range(40)), key=lambda x: repr(x).count("iscsi_name") * 100000 + len(f.encode(x)))
        try:
            probes[f.name] = (pv, bytes(f.encode(pv)), repr(f.lib_decode(f.encode(pv), pv)))
        except Exception:  # noqa: BLE001
            ctx.count("probe_decode_raised")
    for f in fmts:
        for _ in range(200 if f.name in ("prin.readfullstatus", "reportpriority") else 12):
            v1 = f.gen(rng)
            b1 = f.encode(v1)
            g = f if rng.random() < 0.7 else rng.choice(fmts)
            v2 = g.gen(rng)
            ctx.case(("held-result", f.name, g.name, bytes(b1)), True)
            try:
                r1 = f.lib_decode(b1, v1)
                was = repr(r1)
                r2 = g.lib_decode(g.encode(v2), v2)
                mid = repr(r1)
                # ... and responses cut off anywhere (a transfer that ended early), whatever decoding them raises
                b2 = bytes(g.encode(v2))
                cuts = [rng.randrange(len(b2) + 1) for _cut in range(3)]
                # also in the middle of a character of a text field (UTF-8 continuation bytes)
                mid_char = [i for i in range(1, len(b2)) if 0x80 <= b2[i] <= 0xBF and b2[i - 1] >= 0xC0]
                cuts += rng.sample(mid_char, min(12, len(mid_char)))
                for cut in cuts:
                    try:
                        g.lib_decode(b2[:cut], v2)
                    except Exception:  # noqa: BLE001
                        pass
                ctx.count("truncated_decodes_in_between", len(cuts))
                scribble_all(r2)
                mid2 = repr(r1)
            except Exception:  # noqa: BLE001
                ctx.count("held_result_decode_raised")
                continue
            try:
                again = repr(f.lib_decode(b1, v1))
            except Exception as e:  # noqa: BLE001
                again = "raises %s" % type(e).__name__
            ctx.count("held_results_rechecked")
            # the same bytes decoded a second time give a result of their own: the caller editing that one changes neither the first
            # result nor what a third decode of these bytes returns
            try:
                twin = f.lib_decode(b1, v1)
                if twin is r1 and isinstance(r1, (dict, list)):
                    ctx.fail("C09:decode.same_object_for_equal_bytes.%s" % f.name, "decoding equal %s responses twice returned one and the same result object" % f.name, {"format": f.name, "response": bytes(b1)})
                scribble_all(twin)
                if isinstance(twin, dict):
                    twin.clear()
                third = repr(f.lib_decode(b1, v1))
                ctx.count("equal_bytes_decoded_thrice")
                if repr(r1) != was or third != was:
                    ctx.fail("C09:decode.result_shared_between_equal_responses.%s" % f.name, "after the caller edited the result of decoding a %s response, %s" % (
                        f.name, "an earlier result of decoding the same bytes changed" if repr(r1) != was else "decoding the same bytes again returns the edited values"), {"format": f.name, "response": bytes(b1)})
            except Exception:  # noqa: BLE001
                ctx.count("held_result_decode_raised")
            if g.name in probes:
                pv, pb, pwas = probes[g.name]
                try:
                    pnow = repr(g.lib_decode(pb, pv))
                except Exception as e:  # noqa: BLE001
                    pnow = "raises %s" % type(e).__name__
                ctx.count("probe_responses_decoded_again")
                if pnow != pwas:
                    ctx.fail("C09:decode.depends_on_earlier_decode.%s" % g.name, "a fixed %s response decodes differently after other (also cut off) %s responses were decoded: %s" % (g.name, g.name, pnow[:200]),
                             {"format": g.name, "response": pb})
            if mid != was or mid2 != was or repr(r1) != was:
                ctx.fail("C09:decode.earlier_result_changed.%s" % f.name, "the result of decoding a %s response changed when a %s response was decoded (and edited) afterwards" % (f.name, g.name),
                         {"format": f.name, "then": g.name, "response": bytes(b1)})
            elif again != was:
                ctx.fail("C09:decode.depends_on_earlier_decode.%s" % f.name, "decoding the same %s response again after a %s response was decoded gives another result" % (f.name, g.name),
                         {"format": f.name, "then": g.name, "response": bytes(b1)})

    # responses of equal length that differ in a few equally spaced bytes whose differences cancel (+1 -2 +1, +1 -1 -1 +1: same
    # byte sum, same position-weighted sum) or that have two bytes swapped: what simple checksums cannot tell apart.  A response
    # decoded right after its neighbour decodes as it did before
    for f in fmts:
        for _ in range(12):
            v1 = max((f.gen(rng) for _i in range(3)), key=lambda x: len(f.encode(x)))
            b1 = bytearray(f.encode(v1))
            if len(b1) < 12:
                continue
            b2 = bytearray(b1)
            pat = rng.choice([(1, -2, 1), (1, -1, -1, 1), (-1, 2, -1), "swap"])
            d = rng.choice([1, 2, 3, 4, 8, 12, 16, 20, 24])
            if pat == "swap":
                i, j = rng.randrange(4, len(b1)), rng.randrange(4, len(b1))
                b2[i], b2[j] = b2[j], b2[i]
            else:
                starts = [i for i in range(4, len(b1) - d * (len(pat) - 1)) if all(0 <= b1[i + k * d] + pat[k] <= 255 for k in range(len(pat)))]
                if not starts:
                    continue
                i = rng.choice(starts)
                for k in range(len(pat)):
                    b2[i + k * d] += pat[k]
            if b2 == b1:
                continue

            def dec(b):
                try:
                    return repr(f.lib_decode(bytes(b), v1))
                except Exception as e:  # noqa: BLE001
                    return "raises %s" % type(e).__name__

            # (in between: a well-formed response of another length, so that neither neighbour is "the one decoded last")
            vf = v1
            for _t in range(6):
                vf = f.gen(rng)
                if len(f.encode(vf)) != len(b1):
                    break
            flush = bytes(f.encode(vf)) if len(f.encode(vf)) != len(b1) else bytes(b1) + bytes(8)
            for seq in (("f", "1"), ("f", "2")):
                try:
                    f.lib_decode(flush, vf)
                except Exception:  # noqa: BLE001
                    pass
                if seq[1] == "1":
                    first = dec(b1)
                else:
                    other = dec(b2)
            again = dec(b1)
            other_again = dec(b2)
            ctx.case(("neighbour", f.name, bytes(b1), bytes(b2)), True)
            ctx.count("checksum_neighbours_decoded")
            if again != first or other_again != other:
                ctx.fail("C09:decode.depends_on_earlier_decode.%s" % f.name, "a %s response decoded right after a response of equal length and equal byte sums decodes differently than before" % f.name,
                         {"format": f.name, "response": bytes(b1), "neighbour": bytes(b2)})

    for fname, f in D.FORMATS.items():
        if not f.builder:
            continue
        for _ in range(20):
            v = f.gen(rng)
            d = f.lib_input(v)
            ctx.case(("repeat", fname, repr(d)), True)
            try:
                b1 = bytes(f.lib_build(copy.deepcopy(d)))
                b2 = bytes(f.lib_build(d))
                b3 = bytes(f.lib_build(d))
            except Exception:  # noqa: BLE001
                ctx.count("repeat_build_raised")
                continue
            ctx.count("repeat_marshall_calls")
            if not (b1 == b2 == b3):
                ctx.fail("C09:marshalling_not_repeatable.%s" % fname, "%s.marshall_datain with equal inputs gave different bytes" % fname, {"format": fname})


STRUCTURAL = ("type", "code", "length", "format", "association", "protocol", "naa", "piv", "spf", "page", "lu_id", "nul", "pad", "cat")


def retargeted_opcode_objects(ctx, S, rng):
    """one OpCode object carries a command, is given another value through its public property (an opcode scanner, a vendor
    quirk patched into a table entry) and carries a command of another CDB size: that second command is the one a fresh OpCode
    object gives"""
    from pyscsi.pyscsi.scsi_opcode import OpCode

    from vmon import harness

    plain = [c for c in S.COMMANDS.values() if not c.sa and not c.custom and c.xfer in ("none", "read", "alloc")]
    for c1 in plain:
        for c2 in plain:
            if c1 is c2:
                continue
            a1, a2 = fixed_args(c1), fixed_args(c2)
            ctx.case(("opcode-retargeted", c1.name, c2.name), c1.length != c2.length)
            try:
                want = c2.load()(OpCode(c2.name, c2.op, {}), **harness.call_kwargs(c2, a2))
                oc = OpCode(c1.name, c1.op, {})
                c1.load()(oc, **harness.call_kwargs(c1, a1))
                oc.value = c2.op
                got = c2.load()(oc, **harness.call_kwargs(c2, a2))
            except Exception as e:  # noqa: BLE001
                ctx.fail("C09:opcode_object_reused.raises.%s" % type(e).__name__, "%s built with an OpCode object that carried %s before raised %s: %s" % (c2.name, c1.name, type(e).__name__, e),
                         {"first": c1.name, "second": c2.name}, exc=e)
                continue
            ctx.count("retargeted_opcode_objects")
            if bytes(got.cdb) != bytes(want.cdb) or len(got.datain) != len(want.datain):
                ctx.fail("C09:opcode_object_reused.second_command_differs", "%s built with an OpCode object that carried %s before has CDB %s, with a fresh object %s"
                         % (c2.name, c1.name, bytes(got.cdb).hex(), bytes(want.cdb).hex()), {"first": c1.name, "second": c2.name})


def retyped_segments(ctx, S, rng):
    """a long-lived segment descriptor dictionary holding only the keys common to all kinds is sent, given another type code
    (of the other size class, or the same) in place, and sent again: the second command is the one a fresh copy would give"""
    import copy

    from vmon import harness
    from vmon.spec import dataout as DO

    codes = [0x00, 0x01, 0x02, 0x0B, 0x0C, 0x0D]
    for name, spc in (("ExtendedCopy4", 4), ("ExtendedCopy5", 5)):
        c = S.COMMANDS[name]
        sk, dk = ("source_target_descriptor_id", "destination_target_descriptor_id") if spc == 4 else ("source_cscd_descriptor_id", "destination_cscd_descriptor_id")
        for c1 in codes:
            for c2 in codes:
                for form in ("int", "name"):
                    a, _ = DO.GEN[c.custom](rng, ("counts", 1, 1, 0))
                    seg = {"descriptor_type_code": c1 if form == "int" else DO.SEG_NAMES[c1][0], "cat": rng.getrandbits(1), sk: rng.getrandbits(16), dk: rng.getrandbits(16)}
                    a["_kwargs"]["segment_descriptor_list"] = [seg]
                    ctx.case(("retyped", name, c1, c2, form), c1 != c2, sample={"cmd": name, "segment_retyped": [c1, c2]} if ctx.want_sample() else None)
                    pristine = copy.deepcopy(a)  # what the caller wrote, before the library ever saw it
                    try:
                        harness.construct(c, c.sets[0], a)
                        seg["descriptor_type_code"] = c2 if form == "int" else DO.SEG_NAMES[c2][0]
                        pristine["_kwargs"]["segment_descriptor_list"][0]["descriptor_type_code"] = seg["descriptor_type_code"]
                        want = harness.construct(c, c.sets[0], pristine)
                    except Exception:  # noqa: BLE001
                        ctx.count("retyped_segment_refused")
                        continue
                    # `want` comes from a freshly written dictionary with the same contents; the caller's own, used objects next
                    try:
                        got = harness.construct(c, c.sets[0], a)
                    except Exception as e:  # noqa: BLE001
                        ctx.fail("C09:reuse.raises.%s" % type(e).__name__, "%s from a re-typed reused segment dictionary raised %s" % (name, e), {"cmd": name, "codes": [c1, c2]}, exc=e)
                        continue
                    ctx.count("retyped_segment_reuses")
                    if (bytes(got.cdb), bytes(got.dataout)) != (bytes(want.cdb), bytes(want.dataout)):
                        ctx.fail("C09:reuse.stale_after_retype", "%s: a segment dictionary sent as type %02Xh, re-typed to %02Xh in place and sent again gives another command than a fresh copy of it"
                                 % (name, c1, c2), {"cmd": name, "codes": [c1, c2], "dataout": bytes(got.dataout), "fresh": bytes(want.dataout)})


def perturb(x, depth, min_depth, rng):
    """change leaf values in place (container objects stay the caller's): the low bit of integers that do not select a structure, the
    last byte of mutable byte strings; only at nesting depth >= min_depth.  Returns the number of leaves changed."""
    n = 0
    if isinstance(x, dict):
        for k in list(x):
            y = x[k]
            if isinstance(y, (dict, list)):
                n += perturb(y, depth + 1, min_depth, rng)
            elif depth >= min_depth and not any(t in k for t in STRUCTURAL) and rng.random() < 0.6:
                if isinstance(y, int) and not isinstance(y, bool):
                    x[k] = y ^ 1
                    n += 1
                elif isinstance(y, bytearray) and len(y) > 1:
                    y[-1] ^= 0x01
                    n += 1
    elif isinstance(x, list):
        for y in x:
            if isinstance(y, (dict, list)):
                n += perturb(y, depth + 1, min_depth, rng)
    return n


def to_bytearrays(x):
    if isinstance(x, bytes):
        return bytearray(x)
    if isinstance(x, dict):
        return {k: to_bytearrays(v) for k, v in x.items()}
    if isinstance(x, list):
        return [to_bytearrays(v) for v in x]
    return x


def sched_runs(ctx, S, shard, base, args):
    from vmon.mon.sched import Scheduler

    sch = Scheduler()
    rng = ctx.rng()
    names = list(S.COMMANDS)
    try:
        if shard["kind"] == "schedrand":
            for _ in range(shard["n"]):
                trio = [rng.choice(names) for _ in range(3)]
                if any(base[x] is None for x in trio):
                    continue
                total = 900
                sched = {}
                for _k in range(rng.randint(1, 4)):
                    sched[rng.randrange(1, total)] = rng.randrange(3)
                one_schedule(ctx, S, sch, trio, sched, base, args)
            return
        for A, B in shard["pairs"]:
            if base[A] is None or base[B] is None:
                continue
            # serial run: how many scheduling points does thread 0 have?
            r = one_schedule(ctx, S, sch, [A, B], {}, base, args, count=False)
            n0 = r["per_thread"][0]
            n1 = r["per_thread"][1]
            ctx.maximum("scheduling_points_per_constructor", n0, {"cmd": A})
            if shard["kind"] == "sched1":
                step = max(1, -(-n0 // shard["maxpoints"])) if shard.get("maxpoints") else 1
                for k in range(1, n0 + 1, step):
                    one_schedule(ctx, S, sch, [A, B], {k: 1}, base, args)
            else:
                st = shard["stride"]
                while (n0 // st + 1) * (n1 // st + 1) > 40000:
                    st += 1  # keep one pair below ~40k schedules
                for k1 in range(1, n0 + 1, st):
                    for k2 in range(1, n1 + 1, st):
                        one_schedule(ctx, S, sch, [A, B], {k1: 1, k1 + k2: 0}, base, args)
    finally:
        sch.close()


def one_schedule(ctx, S, sch, progs, sched, base, args, count=True):
    programs = [program(S, x, args) for x in progs]
    r = sch.run(programs, sched)
    wit = {"programs": list(progs), "schedule": {str(k): v for k, v in sorted(sched.items())}}
    if r["hung"]:
        ctx.inconclusive_because("scheduler watchdog fired for %r" % wit)
        return r
    if count:
        different = any(x.startswith("data:") for x in progs) or len({layout_of(S.COMMANDS[x.split("+")[0]]) for x in progs}) > 1
        ctx.case(("sched", tuple(progs), tuple(sorted(sched.items()))), different and r["interleaved"],
                 sample=dict(wit, steps=r["steps"], switches=r["switches"]) if ctx.want_sample() else None)
        ctx.count("scheduled_runs")
        if r["interleaved"]:
            ctx.count("interleavings_distinct_from_serial")
        ctx.add("preemption_counts", r["switches"])
    for i, x in enumerate(progs):
        if r["errors"][i] is not None:
            ctx.fail("C09:interleaved.thread_raises.%s" % type(r["errors"][i]).__name__,
                     "thread building %s raised %r under schedule %r" % (x, r["errors"][i], wit["schedule"]), wit, exc=r["errors"][i])
            continue
        got = r["results"][i]
        if got != base[x]:
            what = ["cdb", "datain_len", "dataout", "decode", "encode"]
            bad = [what[j] for j in range(5) if got[j] != base[x][j]]
            ctx.fail("C09:interleaved.%s_differs_from_solo" % bad[0],
                     "thread building %s: %s differ from the solo baseline under schedule %r (other thread: %s)" % (x, bad, wit["schedule"], [p for p in progs if p is not x][:1]),
                     dict(wit, thread=i, got_cdb=got[0], solo_cdb=base[x][0]))
    return r


def after_fault_in_other_thread(ctx, S):
    """one thread gets the library's refusals (an inconsistent TransportID, unknown descriptor keys, a block transfer without
    block size, an unknown service action ...), catches them and stays alive outside the library; another thread then builds
    every command and decodes every format: it finishes, with what it gets alone.  A thread that never comes back while nothing
    else runs is stuck on something the first thread left behind (its stack is reported)"""
    import copy
    import sys
    import threading
    import time
    import traceback

    import pyscsi.pyscsi.scsi_enum_command as E

    from vmon import harness
    from vmon.spec import datain as D, dataout as DO

    rng = random.Random("c09fault")
    solo = {}
    jobs = []
    for c in S.COMMANDS.values():
        a = DO.GEN[c.custom](rng)[0] if c.custom else harness.random_args(c, rng, cap=2048)
        jobs.append((c.name, (lambda c=c, a=a: (lambda cmd: bytes(cmd.cdb) + b"/" + bytes(cmd.dataout))(harness.construct(c, c.sets[0], DO.fresh(a) if c.custom else dict(a))))))
    # (the same families the first thread will be refused in, with valid arguments)
    pro = S.COMMANDS["PersistentReserveOut"]
    for i, kind in enumerate(D.TID_KINDS):
        tid = D.strip_private(D.gen_transport_id(rng, kind, 24))
        for sa, kw in ((7, {"relative_target_port_id": 1, "transport_id": tid}), (0, {"spec_i_pt": 1, "transport_ids": [tid, tid]})):
            a = {"service_action": sa, "scope": 0, "pr_type": 1, "_kwargs": dict(kw, reservation_key=1, service_action_reservation_key=2)}
            jobs.append(("PersistentReserveOut:tid:%s:%d" % (kind, sa), (lambda a=a: (lambda cmd: bytes(cmd.cdb) + b"/" + bytes(cmd.dataout))(harness.construct(pro, "spc", DO.fresh(a))))))
    for cname in ("ExtendedCopy4", "ExtendedCopy5"):
        c = S.COMMANDS[cname]
        for i in range(3):
            a = DO.GEN[c.custom](rng)[0]
            jobs.append(("%s:more:%d" % (cname, i), (lambda c=c, a=a: (lambda cmd: bytes(cmd.cdb) + b"/" + bytes(cmd.dataout))(harness.construct(c, "spc", DO.fresh(a))))))
    for name, f in D.FORMATS.items():
        v = f.gen(rng)
        b = bytes(f.encode(v))
        jobs.append(("decode:" + name, (lambda f=f, b=b, v=v: repr(f.lib_decode(b, v)))))
        if f.builder:
            d = f.lib_input(v)
            jobs.append(("build:" + name, (lambda f=f, d=d: bytes(f.lib_build(copy.deepcopy(d))))))
    for name, job in jobs:
        try:
            solo[name] = job()
        except Exception as e:  # noqa: BLE001
            solo[name] = "raises %s" % type(e).__name__

    def refusals():
        """calls that the library refuses, of every family"""
        from pyscsi.pyscsi.scsi_cdb_testunitready import TestUnitReady
        from pyscsi.pyscsi.scsi_opcode import OpCode

        pro = S.COMMANDS["PersistentReserveOut"]
        out = []
        for tid in ({"protocol_id": 5, "tpid_format": 0, "iscsi_name": "iqn.2003-01.org.example:x", "iscsi_initiator_session_id": "23d000000"},
                    {"protocol_id": 5, "tpid_format": 1, "iscsi_name": "iqn.2003-01.org.example:x"}, {"protocol_id": 5}, {"protocol_id": 0x0E}, {}, None, 7):
            out.append(lambda tid=tid: harness.construct(pro, "spc", {"service_action": 7, "scope": 0, "pr_type": 1, "_kwargs": {"reservation_key": 1, "service_action_reservation_key": 2, "relative_target_port_id": 1, "transport_id": tid}}))
            out.append(lambda tid=tid: harness.construct(pro, "spc", {"service_action": 0, "scope": 0, "pr_type": 1, "_kwargs": {"reservation_key": 1, "service_action_reservation_key": 2, "spec_i_pt": 1, "transport_ids": [tid]}}))
        for cname in ("ExtendedCopy4", "ExtendedCopy5"):
            c = S.COMMANDS[cname]
            a, _e = DO.GEN[c.custom](rng, ("counts", 1, 1, 0))
            lk = "target_descriptor_list" if cname.endswith("4") else "cscd_descriptor_list"
            for bad in ("key", "code", "segcode"):
                a2 = DO.fresh(a)
                if bad == "key":
                    a2["_kwargs"][lk][0]["bogus"] = 1
                elif bad == "code":
                    a2["_kwargs"][lk][0]["descriptor_type_code"] = 0x55
                else:
                    a2["_kwargs"]["segment_descriptor_list"][0]["descriptor_type_code"] = 0x77
                out.append(lambda c=c, a2=a2: harness.construct(c, "spc", a2))
        for cname in ("Read10", "Write16", "WriteSame10"):
            c = S.COMMANDS[cname]
            a = dict(harness.random_args(c, rng, cap=2048), blocksize=0)
            out.append(lambda c=c, a=a: harness.construct(c, c.sets[0], a))
        out.append(lambda: TestUnitReady(OpCode("X", 0xC5, {})))
        out.append(lambda: harness.make_facade(harness.Recorder(E.spc)).persistentreservein(9))
        for name, f in D.FORMATS.items():
            out.append(lambda f=f: f.lib_decode(b"\xff" * 5, f.gen(random.Random(1))))
            if f.builder:
                out.append(lambda f=f: f.lib_build({"unexpected": object()}))
                out.append(lambda f=f: f.lib_build(None))
        return out

    parked = threading.Event()
    release = threading.Event()
    stats = {"refused": 0, "accepted": 0}

    def first():
        for call in refusals():
            try:
                call()
                stats["accepted"] += 1
            except Exception:  # noqa: BLE001
                stats["refused"] += 1
        parked.set()
        release.wait(600)

    got = {}
    progress = {"at": None}

    def second():
        for name, job in jobs:
            progress["at"] = name
            try:
                got[name] = job()
            except Exception as e:  # noqa: BLE001
                got[name] = "raises %s" % type(e).__name__
        progress["at"] = "done"

    t1 = threading.Thread(target=first, daemon=True)
    t1.start()
    if not parked.wait(300):
        ctx.inconclusive_because("the refusing thread did not finish")
        release.set()
        return
    ctx.count("refusals_in_first_thread", stats["refused"])
    t2 = threading.Thread(target=second, daemon=True)
    t2.start()
    t2.join(60)
    ctx.case(("after-fault-in-other-thread",), True)
    if t2.is_alive():
        # nothing else is running: the first thread is parked outside the library.  Sample where the second one is, twice
        def where():
            fr = sys._current_frames().get(t2.ident)
            return "".join(traceback.format_stack(fr)[-4:]) if fr is not None else ""

        w1 = where()
        time.sleep(5)
        w2 = where()
        if w1 == w2 and progress["at"] != "done" and t2.is_alive():
            ctx.fail("C09:thread_stuck_after_refusal_in_other_thread", "after another (still living) thread had %d requests refused, a thread building %s never came back; it waits at:\n%s"
                     % (stats["refused"], progress["at"], w2[-600:]), {"stuck_at": progress["at"]})
        else:
            ctx.inconclusive_because("second thread slow but moving")
        release.set()
        return
    release.set()
    ctx.count("jobs_after_fault_in_other_thread", len(jobs))
    for name, _job in jobs:
        if got.get(name) != solo[name]:
            ctx.fail("C09:differs_after_refusal_in_other_thread.%s" % name.split(":")[0], "%s gives another result after another thread had requests refused" % name, {"job": name})
            break


def reentrant_in_one_thread(ctx, S, base, args):
    """code that runs *inside* the building of a command, in the same thread -- a signal handler (a watchdog polling the unit), a
    finaliser or weak-reference callback -- builds a command of its own through the library.  Emulated with a line-event
    callback that, at the k-th library line of program A, runs program B to completion and returns: A's result is what A gets
    alone, B's what B gets alone; for every k (strided)"""
    import sys

    from vmon import repo

    mon = sys.monitoring
    TOOL = 4
    try:
        mon.use_tool_id(TOOL, "vmon-reentry")
    except ValueError:
        pass
    state = {"n": 0, "at": None, "inner": None, "busy": False, "inner_result": None}

    def on_line(code, lineno):
        if not repo.is_lib_file(code.co_filename):
            return mon.DISABLE
        if state["busy"] or state["at"] is None:
            return None
        state["n"] += 1
        if state["n"] == state["at"]:
            state["busy"] = True
            try:
                state["inner_result"] = state["inner"]()
            except Exception as e:  # noqa: BLE001
                state["inner_result"] = "raises %s" % type(e).__name__
            finally:
                state["busy"] = False
        return None

    mon.register_callback(TOOL, mon.events.LINE, on_line)
    pairs = [("Read16", "ReadCapacity16"), ("Read10", "Inquiry"), ("Write16", "TestUnitReady"), ("ExtendedCopy4", "ExtendedCopy4"), ("PersistentReserveOut", "Read16"),
             ("ModeSense10", "ModeSelect6"), ("Inquiry", "Read16"), ("ReadCapacity16", "GetLBAStatus")]
    try:
        for A, B in pairs:
            if base.get(A) is None or base.get(B) is None:
                continue
            progA, progB = program(S, A, args), program(S, B, args)
            # how many library lines A takes
            state.update(n=0, at=-1, inner=None)
            mon.set_events(TOOL, mon.events.LINE)
            try:
                progA()
            finally:
                mon.set_events(TOOL, 0)
            total = state["n"]
            step = max(1, total // 60)
            for k in range(1, total + 1, step):
                state.update(n=0, at=k, inner=progB, inner_result=None)
                mon.set_events(TOOL, mon.events.LINE)
                try:
                    try:
                        outer = progA()
                    except Exception as e:  # noqa: BLE001
                        outer = "raises %s" % type(e).__name__
                finally:
                    mon.set_events(TOOL, 0)
                    state["at"] = None
                ctx.case(("reentrant", A, B, k), True)
                ctx.count("reentrant_runs")
                wit = {"outer": A, "inner": B, "inner_ran_at_library_line_event": k, "of": total}
                if outer != base[A]:
                    ctx.fail("C09:reentrant.outer_differs_from_solo", "%s, interrupted at its %d-th library line by code that built %s in the same thread, gives another result than alone" % (A, k, B), wit)
                    break
                if state["inner_result"] is not None and state["inner_result"] != base[B]:
                    ctx.fail("C09:reentrant.inner_differs_from_solo", "%s built inside the building of %s (at its %d-th library line) gives another result than alone" % (B, A, k), wit)
                    break
    finally:
        mon.set_events(TOOL, 0)
        mon.register_callback(TOOL, mon.events.LINE, None)
        try:
            mon.free_tool_id(TOOL)
        except Exception:  # noqa: BLE001
            pass


def hash_seed_runs(ctx, shard):
    """'repeating a call with equal inputs yields equal bytes' -- also in the next run of the program: the same builds and decodes
    (every command, every format, values padded and unpadded, caller layouts with overlapping views) in fresh interpreters whose
    str hashes are salted differently print the same lines"""
    import os
    import subprocess
    import sys

    outs = {}
    for hs in ("0", "1", "2", "3", "5", "8", "13", "4294967295", "random"):
        env = dict(os.environ, PYTHONHASHSEED=hs)
        try:
            p = subprocess.run([sys.executable, "-B", "-m", "vmon.hashprobe", shard.get("probe", "0")], env=env, stdout=subprocess.PIPE, stderr=subprocess.PIPE, timeout=300)
        except subprocess.TimeoutExpired:
            ctx.inconclusive_because("hash seed probe: watchdog fired")
            return
        if p.returncode != 0:
            ctx.inconclusive_because("hash seed probe failed: %s" % p.stderr.decode(errors="replace")[-300:])
            return
        outs[hs] = p.stdout.decode().splitlines()
        ctx.count("hash_seed_processes")
    base = outs["0"]
    ctx.count("hash_seed_lines_compared", len(base) * (len(outs) - 1))
    if len(base) < 200:
        ctx.inconclusive_because("hash seed probe printed only %d lines" % len(base))
        return
    for hs, lines in outs.items():
        ctx.case(("hashseed", hs, shard.get("probe")), True)
        for a, b in zip(base, lines):
            if a != b:
                label = a.split(" ")[0]
                ctx.fail("C09:output_depends_on_hash_seed.%s" % ":".join(label.split(":")[:2]), "%s differs between interpreters started with PYTHONHASHSEED=0 and =%s: %s... / %s..." % (label, hs, a[:90], b[:90]),
                         {"line": label, "hash_seeds": ["0", hs]})
                break
        if len(lines) != len(base):
            ctx.fail("C09:output_depends_on_hash_seed.line_count", "%d lines with PYTHONHASHSEED=%s, %d with 0" % (len(lines), hs, len(base)), {"hash_seeds": ["0", hs]})


def cold_runs(ctx, shard):
    """single-preemption schedules, each in a fresh interpreter, so that first-use races are reachable"""
    import json
    import os
    import subprocess
    import sys

    env = dict(os.environ)
    for A, B in shard["pairs"]:
        n0 = None
        k = 1
        step = 1
        while True:
            spec = {"progs": [A, B], "salts": [100, 101], "schedule": {str(k): 1}}
            try:
                p = subprocess.run([sys.executable, "-B", "-m", "vmon.cold", json.dumps(spec)], env=env, stdout=subprocess.PIPE, stderr=subprocess.PIPE, timeout=120)
            except subprocess.TimeoutExpired:
                ctx.inconclusive_because("cold run watchdog fired for %r" % spec)
                break
            if p.returncode != 0:
                ctx.inconclusive_because("cold run failed to start: %s" % p.stderr.decode(errors="replace")[-300:])
                break
            r = json.loads(p.stdout.decode().strip().splitlines()[-1])
            wit = {"programs": [A, B], "schedule": spec["schedule"], "fresh_interpreter": True}
            ctx.case(("cold", A, B, k), r["interleaved"], sample=dict(wit, steps=r["steps"]) if ctx.want_sample() else None)
            ctx.count("cold_start_runs")
            if r["interleaved"]:
                ctx.count("interleavings_distinct_from_serial")
            if r["hung"]:
                ctx.inconclusive_because("cold run: scheduler watchdog fired for %r" % spec)
                break
            for t in r["threads"]:
                if t.get("error"):
                    ctx.fail("C09:cold_start.thread_raises.%s" % t["error"].split(":")[0], "first use of %s in a fresh interpreter, preempted at step %d: %s" % (t["prog"], k, t["error"]), wit)
                elif t.get("differs"):
                    import re as _re

                    ctx.fail("C09:cold_start.%s_differs_from_solo" % _re.sub(r"\d+", "<n>", t["differs"][0]), "first use of %s in a fresh interpreter, preempted at step %d: %s differ" % (t["prog"], k, t["differs"]), wit)
            if n0 is None:
                n0 = r["per_thread"][0]
                step = max(1, n0 // shard["points"])
                k += (step // 2) * shard.get("phase", 0)  # two shards with the same stride interleave their preemption points
            k += step
            if k > n0:
                break


def stress(ctx, S, shard, base, args):
    import sys
    import threading

    names = [n for n in S.COMMANDS if base[n] is not None]
    old = sys.getswitchinterval()
    sys.setswitchinterval(1e-6)
    bad = []
    done = [0] * 8

    def worker(i):
        rng = random.Random(i)
        for k in range(shard["n"] // 8):
            x = rng.choice(names)
            try:
                got = observe(S.COMMANDS[x], args[x])[1]
            except Exception as e:  # noqa: BLE001
                bad.append((x, "raised %r" % e))
                continue
            if got != base[x]:
                bad.append((x, "differs"))
            done[i] += 1

    ts = [threading.Thread(target=worker, args=(i,)) for i in range(8)]
    for t in ts:
        t.start()
    for t in ts:
        t.join()
    sys.setswitchinterval(old)
    ctx.count("stress_constructions", sum(done))
    ctx.case(("stress", sum(done)), True)
    if bad:
        ctx.fail("C09:stress.command_differs_from_solo", "%d of %d free-running constructions differ from their solo baseline (first: %r)" % (len(bad), sum(done), bad[0]),
                 {"first": bad[0], "count": len(bad)})


def finalize(merged, tier):
    c = merged["counters"]
    for k in ("sequential_histories", "scheduled_runs", "interleavings_distinct_from_serial", "reuse_histories", "cold_start_runs", "discarded_buffer_histories", "hash_seed_processes"):
        if c.get(k, 0) == 0:
            merged["inconclusive"].append("monitor never reached: %s" % k)
    return {"distinct_interleavings": c.get("interleavings_distinct_from_serial", 0)}


def replay(rec, ctx):
    from vmon.spec import cdb as S

    w = rec["witness"]
    names = list(S.COMMANDS)
    base, args = {}, {}
    for n in names:
        args[n] = fixed_args(S.COMMANDS[n])
        try:
            base[n] = observe(S.COMMANDS[n], args[n])[1]
        except Exception:  # noqa: BLE001
            base[n] = None
    if "hash_seeds" in w:
        hash_seed_runs(ctx, {"probe": str(rec.get("seed", 0))})
    elif "history" in w:
        seq_history(ctx, S, base, args, tuple(w["history"]))
    elif "programs" in w:
        from vmon.mon.sched import Scheduler

        sch = Scheduler()
        add_extra_programs(S, base, args, [x for x in w["programs"] if x not in base])
        try:
            one_schedule(ctx, S, sch, w["programs"], {int(k): v for k, v in w["schedule"].items()}, base, args)
        finally:
            sch.close()
    else:
        alias_checks(ctx, S)
