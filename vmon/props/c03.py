"""C03 - data buffers match the transfer the CDB announces."""
LEVEL = "exploration"
RULE = (
    "per command class x opcode table: block sizes {1,512,520,4096,65536}; transfer/allocation lengths from the boundary set "
    "clipped to 64 KiB (a few 16 MiB cases in thorough); all 32 ATA t_length/byte_block/t_type/t_dir/extra_tl-presence "
    "combinations x counts; parameter dictionaries from the C05 generators.  The CDB is decoded with the reference and the "
    "transfer it announces is compared with len(cmd.datain)/cmd.dataout at the object and with what fake sgio / fake iscsi "
    "received.  distinct = hash(command, table, path, tuple); non-trivial = announced transfer > 0"
)
ASSUMPTIONS = [
    "READ CD: sufficiency (>= tl x sector bytes of the requested layout, empty for tl=0), not equality: the library "
    "documents a 3 KiB/sector over-allocation and the CDB announces sectors, not bytes",
    "fake sgio/iscsi model the bindings' Python boundary",
]

from vmon.harness import Huge  # noqa: E402

BYTESLIKE = (bytes, bytearray, memoryview, Huge)


def shards(tier, seed):
    from vmon.spec import cdb as S

    return [{"id": n, "cmd": n, "n": 60 if tier == "quick" else 3000, "small": tier == "quick"} for n in S.COMMANDS]


def expected(c, fields, a):
    """(len_in, len_out, out_identity) announced by the wire CDB; None = skip"""
    from vmon.spec import cdb as S

    x = c.xfer
    if x == "none":
        return 0, 0, None
    if x == "alloc":
        return fields["alloc"], 0, None
    if x == "allocarg":
        return a["alloclen"], 0, None
    if x == "read":
        return fields["tl"] * a["blocksize"], 0, None
    if x == "write":
        n = fields["tl"] * a["blocksize"]
        if a.get("wrprotect") and a.get("data") is not None and len(a["data"]) > n and fields["tl"] and (len(a["data"]) - n) % fields["tl"] == 0:
            n = len(a["data"])  # blocks with protection information behind each of them (8 / 16 / 64 bytes per block)
        return 0, n, a["data"]
    if x == "writesame":
        if fields.get("ndob"):
            return 0, 0, None
        # one logical block as the caller hands it over: with protection information behind it (WRPROTECT non-zero on a unit
        # formatted with PI) it is longer than the block size
        return 0, len(a["data"]) if a.get("data") is not None else a["blocksize"], a["data"]
    if x == "list":
        return 0, fields["pll"], None
    if x == "ata":
        t = S.ata_transfer(a)
        if t is None:
            return None
        out, inn = t
        ident = None
        if a.get("data"):
            if a["t_dir"] == 0:
                out, ident = len(a["data"]), a["data"]
            else:
                inn = len(a["data"])
        return inn, out, ident
    if x == "readcd":
        n = S.readcd_sector_bytes(a["est"], a["mcsb"], a["c2ei"], a["scsb"])
        if n is None:
            return None
        return ("min", fields["tl"] * n), 0, None
    raise KeyError(x)


def decode_fields(c, cdb):
    from vmon import refcodec as R

    return {f: R.get(cdb, *pos) for f, pos in c.fields.items()}


FIRST = [0]


def check_buffers(ctx, c, setname, path, a, cdb, datain, dataout, by_cdb_only=False):
    wit = {"cmd": c.name, "table": setname, "path": path, "args": a, "cdb": bytes(cdb),
           "datain": "%s len=%s" % (type(datain).__name__, _len(datain)), "dataout": "%s len=%s" % (type(dataout).__name__, _len(dataout))}
    for nm, buf in (("datain", datain), ("dataout", dataout)):
        if not isinstance(buf, BYTESLIKE):
            ctx.fail("C03:%s.%s_not_a_byte_buffer" % (c.name, nm), "%s.%s is %s" % (c.name, nm, type(buf).__name__), wit)
            return False
    if len(cdb) < c.length:
        return False
    fields = decode_fields(c, cdb)
    full = dict(a)
    if by_cdb_only and c.xfer not in ("alloc", "none", "list"):
        return False  # the announced transfer is not readable from the CDB alone
    exp = expected(c, fields, full)
    if exp is None:
        ctx.count("skipped_unspecified_layout")
        return False
    inn, out, ident = exp
    if isinstance(inn, tuple):
        if len(datain) < inn[1] or (inn[1] == 0 and fields["tl"] == 0 and len(datain) != 0):
            ctx.fail("C03:%s.datain_too_small" % c.name, "datain %d bytes, CDB announces %d sectors = %d bytes" % (len(datain), fields["tl"], inn[1]), wit)
    elif len(datain) != inn:
        ctx.fail("C03:%s.datain_length" % c.name, "len(datain)=%d, CDB announces %d" % (len(datain), inn), wit)
    if len(dataout) != out:
        ctx.fail("C03:%s.dataout_length" % c.name, "len(dataout)=%d, CDB announces %d" % (len(dataout), out), wit)
    if ident is not None and dataout is not ident and (isinstance(dataout, Huge) or bytes(dataout) != bytes(ident)):
        ctx.fail("C03:%s.dataout_not_callers_data" % c.name, "dataout differs from the caller's data", wit)
    t = inn[1] if isinstance(inn, tuple) else inn
    return (t + out) > 0


def _len(x):
    try:
        return len(x)
    except TypeError:
        return None


def cases(c, rng, shard):
    import itertools

    from vmon import harness
    from vmon.spec import cdb as S, dataout as DO

    n = shard["n"]
    if c.custom:
        for _ in range(n * 2):
            yield DO.GEN[c.custom](rng)[0]
        return
    if c.xfer == "ata":
        for tl, bb, tt, td, xt in itertools.product(range(4), (0, 1), (0, 1), (0, 1), (None, 0, 5)):
            for cnt in (0, 1, 2, 7, 63):
                for bs in (0, 512, 520, 4096):
                    a = harness.random_args(c, rng)
                    a.update({"t_length": tl, "byte_block": bb, "t_type": tt, "t_dir": td, "extra_tl": xt, "fetures": cnt,
                              "count": (cnt * 3) & 0xFF, "blocksize": bs})
                    if S.ata_transfer(a) is None:
                        continue
                    yield a
                    if cnt == 7:
                        a2 = dict(a)
                        t = S.ata_transfer(a)
                        a2["data"] = harness.pattern_bytes(max(t) or 16, 3)
                        yield a2
                        # an explicitly given but empty buffer is no buffer
                        for empty in (b"", bytearray()):
                            a3 = dict(a)
                            a3["data"] = empty
                            yield a3
        for a in harness.novel_products(c, rng, limit=6000):
            if S.ata_transfer(a) is not None:
                yield a
        return
    bss = harness.BLOCKSIZES if "blocksize" in c.args else [None]
    for bs in bss:
        for fill in ("zero", "rand"):
            for name in harness.int_args(c):
                if c.args[name][0] not in ("alloc", "tl", "cdtl"):
                    continue
                base = harness.base_args(c, fill, rng)
                if bs is not None:
                    base["blocksize"] = bs
                for v in harness.domain(c, name, base):
                    a = dict(base)
                    a[name] = v
                    yield harness.fill_derived(c, a, rng)
    for _ in range(n):
        yield harness.random_args(c, rng)
    if not c.custom:
        for a in harness.novel_products(c, rng, limit=6000 if c.xfer == "ata" else 800):
            yield a
    if c.xfer in ("alloc", "allocarg"):
        # the allocation length left at its default
        for _ in range(6):
            r = harness.random_args(c, rng)
            yield {k: r[k] for k, v in c.args.items() if v[2] is S.REQ or k in c.facade_req}
    if c.xfer in ("alloc", "read", "write", "allocarg"):
        for a in harness.huge_cases(c, rng):
            a["_huge"] = True
            yield a
    if not shard["small"] and c.xfer in ("alloc", "read", "write"):
        for _ in range(2):
            yield harness.random_args(c, rng, cap=S.BIGCAP)
    if c.xfer == "none":
        for a in harness.walking_cases(c, rng, small=True):
            yield a
    if c.xfer == "write":
        # WRITE to a unit formatted with protection information: every block is followed by its 8 (16, 64) bytes
        for bs in (512, 4096):
            for tl in (1, 2, 7):
                for extra in (8, 16, 64):
                    a = harness.random_args(c, rng)
                    a.update({"blocksize": bs, "tl": tl, "wrprotect": rng.randrange(1, 6)})
                    a["data"] = harness.pattern_bytes((bs + extra) * tl, extra + tl)
                    yield a
    if c.xfer == "writesame":
        for bs in harness.BLOCKSIZES:
            for ndob in ((0, 1) if "ndob" in c.args else (0,)):
                a = harness.random_args(c, rng)
                a["blocksize"] = bs
                if "ndob" in c.args:
                    a["ndob"] = ndob
                yield harness.fill_derived(c, a, rng)
                if not ndob:
                    # the block with its protection information (8 bytes per protection interval; 16- and 64-byte formats exist)
                    for extra in (8, 16, 64, bs):
                        a = harness.fill_derived(c, dict(harness.random_args(c, rng), blocksize=bs), rng)
                        if "ndob" in c.args:
                            a["ndob"] = 0
                        a["wrprotect"] = rng.randrange(1, 8)
                        a["data"] = harness.pattern_bytes(bs + extra, extra)
                        yield a
    if c.xfer == "readcd":
        from vmon.spec.datain import ReadCdF

        for est, mcsb, c2, sc in ReadCdF().layouts():
            for tl in (0, 1, 3):
                yield {"lba": 16, "tl": tl, "est": est, "dap": 0, "mcsb": mcsb, "c2ei": c2, "scsb": sc}


def run(shard, ctx):
    from vmon.sim import install

    install.install_fakes()
    from vmon import harness
    from vmon.spec import cdb as S, dataout as DO

    c = S.COMMANDS[shard["cmd"]]
    rng = ctx.rng()
    transports = install.transport_factories()
    i = 0
    for setname in c.sets:
        if c.xfer in ("read", "write", "writesame") and c.facade:
            for _ in range(3 if shard["small"] else 40):
                two_facades(ctx, c, setname, rng)
            for _ in range(6 if shard["small"] else 80):
                attached_facade(ctx, c, setname, rng)
        if c.xfer == "alloc" and c.facade:
            greedy_replies(ctx, c, setname, rng)
        for a in cases(c, rng, shard):
            i += 1
            if a.pop("_huge", False):
                with harness.huge_buffers():
                    one(ctx, c, setname, a, transports, True, rng)
                ctx.count("huge_buffer_cases")
                continue
            one(ctx, c, setname, a, transports, not (shard["small"] and i % 3), rng)


def one(ctx, c, setname, a, transports, do_transports, rng):
    from vmon import harness
    from vmon.spec import dataout as DO

    if True:
        if True:
            full = dict(harness.defaults(c))
            full.update(a)
            rep = (c.name, setname, harness.args_repr(a) if not c.custom else repr(a))
            try:
                cmd = harness.construct(c, setname, DO.fresh(a) if c.custom else a)
            except Exception as e:  # noqa: BLE001
                ctx.case(("ctor",) + rep, False)
                ctx.fail("C03:%s.constructor_raises.%s" % (c.name, type(e).__name__), "constructor raised %s: %s" % (type(e).__name__, e),
                         {"cmd": c.name, "table": setname, "args": a}, exc=e)
                return
            nt = check_buffers(ctx, c, setname, "ctor", full, cmd.cdb, cmd.datain, cmd.dataout)
            ctx.case(("ctor",) + rep, nt, sample={"cmd": c.name, "args": a, "cdb": bytes(cmd.cdb), "len_in": _len(cmd.datain),
                                                  "len_out": _len(cmd.dataout)} if ctx.want_sample() else None)
            ctx.count("objects_checked")
            ctx.add("xfer_kinds", c.xfer)
            if not isinstance(cmd.datain, Huge) and not isinstance(cmd.dataout, Huge) and len(cmd.datain) + len(cmd.dataout) <= 1 << 16:
                import copy as _copy

                try:
                    clone = _copy.deepcopy(cmd)
                    check_buffers(ctx, c, setname, "deepcopy", full, clone.cdb, clone.datain, clone.dataout)
                    ctx.count("deep_copies_checked")
                except Exception as e:  # noqa: BLE001
                    ctx.fail("C03:%s.deepcopy_raises" % c.name, "copy.deepcopy(command) raised %s" % e, {"cmd": c.name, "args": a}, exc=e)
            if not c.custom and not a.get("_huge") and ctx.evaluations % 5 == 0 and not isinstance(cmd.datain, Huge) and not isinstance(cmd.dataout, Huge):
                # a command object recycled for the next step of a loop (cmd.__init__(...) again, with other arguments): the buffers
                # are those of the request it now stands for
                a2 = harness.random_args(c, rng, cap=4096)
                full2 = dict(harness.defaults(c))
                full2.update(a2)
                try:
                    type(cmd).__init__(cmd, c.opcode_obj(setname), **harness.call_kwargs(c, a2))
                    ctx.count("recycled_command_objects")
                    check_buffers(ctx, c, setname, "recycled_object", full2, cmd.cdb, cmd.datain, cmd.dataout)
                except Exception as e:  # noqa: BLE001
                    ctx.fail("C03:%s.recycled_object_raises.%s" % (c.name, type(e).__name__), "initialising an existing %s object again raised %s" % (c.name, e), {"cmd": c.name, "args": a2}, exc=e)
                try:
                    cmd = harness.construct(c, setname, a)
                except Exception:  # noqa: BLE001
                    return
            if not c.facade or not do_transports:
                return
            foreign_keywords(ctx, c, setname, a, full)
            for tname, mk in transports:
                dev, log = mk(setname)
                s = harness.make_facade(dev)
                err = None
                if c.xfer in ("alloc", "allocarg") and not isinstance(cmd.datain, Huge) and (ctx.evaluations % 2 or len(a) < len(full)):
                    # the device has more to report than fits the allocation length: it reports the full length and
                    # transfers what fits; every hand-off of the command must still carry buffers that match its CDB
                    import sys as _sys

                    from vmon.props.c13 import response_for

                    resp = response_for(c, full, rng, big=True)

                    if c.name in ("ModeSense6", "ModeSense10") and FIRST[0] % 3 == 0:
                        # the largest MODE DATA LENGTH there is (FFh / FFFEh / FFFFh): more data than any allocation length can ask for
                        resp = bytearray(resp)
                        if c.name == "ModeSense6":
                            resp[0:1] = b"\xff"
                        else:
                            resp[0:2] = (b"\xff\xff", b"\xff\xfe")[FIRST[0] % 2]
                        resp = bytes(resp)
                        ctx.count("mode_data_lengths_at_the_maximum")

                    def filler(ev, resp=resp):
                        buf = ev.get("eff_in") if "eff_in" in ev else ev.get("in")
                        if buf is not None and len(buf) and resp:
                            k = min(len(buf), len(resp))
                            buf[:k] = resp[:k]
                        return 0, None

                    _sys.modules["sgio" if tname == "sgio" else "iscsi"].handler = filler
                    ctx.count("replies_announcing_more_than_fits")
                FIRST[0] += 1
                if FIRST[0] % 3 == 1:  # (3: odd period, so that both transports get their turn)
                    # the first reply is not GOOD (BUSY, TASK SET FULL, a UNIT ATTENTION): whatever the library does about it, every
                    # hand-off of the command carries buffers that match its CDB
                    import sys as _sys2

                    from vmon.spec import sense as _SN

                    modx = _sys2.modules["sgio" if tname == "sgio" else "iscsi"]
                    inner = modx.handler
                    pending = [[(0x08, None)], [(0x28, None)], [(2, _SN.build(0x70, 0, 6, 0x29, 0, 18))], [(2, _SN.build(0x70, 0, 5, 0x24, 0, 18))],
                               [(0x08, None), (0x08, None)]][(FIRST[0] // 3) % 5]
                    pending = list(pending)

                    def flaky(ev, inner=inner, pending=pending):
                        if pending:
                            return pending.pop(0)
                        return inner(ev) if inner is not None else (0, None)

                    modx.handler = flaky
                    ctx.count("first_reply_not_good")
                try:
                    cmd2 = harness.facade_call(c, s, DO.fresh(a) if c.custom else dict(a))
                except Exception as e:  # noqa: BLE001
                    err = e
                if not log:
                    ctx.case((tname,) + rep, False)
                    ctx.fail("C03:%s.transport_raises.%s" % (c.name, tname),
                             "%s over %s raised %s before reaching the binding: %s" % (c.facade, tname, type(err).__name__, err),
                             {"cmd": c.name, "table": setname, "args": a, "transport": tname}, exc=err)
                    return
                ev = log[0]
                for later in log[1:]:
                    # the facade handed the command over more than once: every hand-off must be consistent in itself
                    f2 = dict(full)
                    check_buffers(ctx, c, setname, tname + ".further_hand_off", f2, later["cdb"], later["in"], later["out"], by_cdb_only=c.xfer == "allocarg")
                    ctx.count("further_hand_offs_checked")
                nt = check_buffers(ctx, c, setname, tname, full, ev["cdb"], ev["in"], ev["out"])
                ctx.case((tname,) + rep, nt)
                ctx.count("%s_boundary_events" % tname)
                if err is None and (ev["in"] is not cmd2.datain or ev["out"] is not cmd2.dataout):
                    ctx.fail("C03:%s.buffer_identity.%s" % (c.name, tname), "binding received other buffer objects than the command carries",
                             {"cmd": c.name, "args": a, "transport": tname})
                if err is None:
                    # after the facade returned, and at a second hand-off of the same command object (retry), the buffers
                    # must still be what the CDB announces -- also when the first reply was short (SG_IO residual)
                    nt2 = check_buffers(ctx, c, setname, tname + ".after_return", full, cmd2.cdb, cmd2.datain, cmd2.dataout)
                    if tname == "sgio" and not isinstance(cmd2.datain, Huge):
                        import sys as _sys

                        sg = _sys.modules["sgio"]
                        sg.resid = lambda e: (len(e["in"]) * 2) // 3 if e["in_len"] else 0
                        try:
                            del log[:]
                            dev.execute(cmd2)
                            sg.resid = None
                            dev.execute(cmd2)
                            if len(log) == 2:
                                check_buffers(ctx, c, setname, "sgio.re_execution_after_short_reply", full, log[1]["cdb"], log[1]["in"], log[1]["out"])
                                ctx.count("re_executions_checked")
                        except Exception as e:  # noqa: BLE001
                            ctx.fail("C03:%s.re_execution_raises.%s" % (c.name, type(e).__name__), "re-executing the command raised %s" % e,
                                     {"cmd": c.name, "args": a}, exc=e)
                        finally:
                            sg.resid = None
                if err is None and c.xfer == "alloc" and "alloc" in c.fields and not isinstance(cmd2.datain, Huge):
                    # the two-step fetch: the caller writes another ALLOCATION LENGTH into the command's CDB in place, gives the
                    # command a data-in buffer of that size and hands it over again: what the binding gets agrees with itself
                    from vmon import refcodec as _R

                    byte, msb, width = c.fields["alloc"]
                    new_len = rng.choice([4, 8, 36, 64, 252, 255, 512, 1000]) & ((1 << width) - 1)
                    if new_len != len(cmd2.datain):
                        import sys as _sys3

                        _sys3.modules["sgio" if tname == "sgio" else "iscsi"].handler = None
                        try:
                            del log[:]
                            old_len = _R.get(cmd2.cdb, byte, msb, width)
                            d = type(cmd2).unmarshall_cdb(cmd2.cdb)
                            keys = [k for k, v in d.items() if v == old_len and k != "opcode"]
                            if FIRST[0] % 2 and len(keys) == 1 and old_len != new_len:
                                # ... or builds the command's CDB again with the new length (cmd.cdb = cmd.build_cdb(...))
                                d[keys[0]] = new_len
                                cmd2.cdb = cmd2.build_cdb(**d)
                                ctx.count("adjusted_by_build_cdb")
                            else:
                                _R.put(cmd2.cdb, byte, msb, width, 0)
                                _R.put(cmd2.cdb, byte, msb, width, new_len)
                            cmd2.datain = bytearray(new_len)
                            dev.execute(cmd2)
                            ctx.count("adjusted_commands_handed_over_again")
                            if log:
                                check_buffers(ctx, c, setname, tname + ".after_in_place_adjustment", full, log[0]["cdb"], log[0]["in"], log[0]["out"], by_cdb_only=True)
                                if tname == "iscsi" and (log[0].get("dir"), log[0].get("xferlen")) != ((1, new_len) if new_len else (0, 0)):
                                    ctx.fail("C03:%s.iscsi_task_direction" % c.name, "after the adjustment the task was created with dir=%r xferlen=%r for a %d-byte data-in buffer"
                                             % (log[0].get("dir"), log[0].get("xferlen"), new_len), {"cmd": c.name, "args": a, "transport": tname})
                                if _R.get(log[0]["cdb"], byte, msb, width) != new_len:
                                    ctx.fail("C03:%s.in_place_adjustment_lost" % c.name, "ALLOCATION LENGTH %d written into cmd.cdb in place; the binding received a CDB announcing %d"
                                             % (new_len, _R.get(log[0]["cdb"], byte, msb, width)), {"cmd": c.name, "args": a, "transport": tname})
                        except Exception as e:  # noqa: BLE001
                            ctx.fail("C03:%s.re_execution_raises.%s" % (c.name, type(e).__name__), "handing the adjusted command over again raised %s" % e,
                                     {"cmd": c.name, "args": a}, exc=e)
                if tname == "iscsi" and isinstance(ev["in"], BYTESLIKE) and isinstance(ev["out"], BYTESLIKE):
                    li, lo = len(ev["in"]), len(ev["out"])
                    want = (2, lo) if lo else ((1, li) if li else (0, 0))
                    if (ev["dir"], ev["xferlen"]) != want:
                        ctx.fail("C03:%s.iscsi_task_direction" % c.name, "Task(dir=%r, xferlen=%r) for in=%d out=%d" % (ev["dir"], ev["xferlen"], li, lo),
                                 {"cmd": c.name, "args": a})


def foreign_keywords(ctx, c, setname, a, full):
    """constructors that swallow unknown keywords (**kwargs): a keyword spelt like a CDB field or like another class's
    argument may be ignored or honoured, but CDB and buffers must agree with each other either way"""
    import inspect

    from vmon import harness

    cls = c.load()
    try:
        if not any(p.kind is p.VAR_KEYWORD for p in inspect.signature(cls.__init__).parameters.values()):
            return
    except (TypeError, ValueError):
        return
    if c.custom:
        return
    names = set(getattr(cls, "_cdb_bits", {})) | {"alloc_len", "alloclen", "allocation_length", "alloc", "tl", "transfer_length", "parameter_list_length", "blocksize"}
    names -= set(harness.call_kwargs(c, a)) | {"opcode", "service_action"}
    for name in sorted(names):
        for val in (8, 24, 8192):
            kw = harness.call_kwargs(c, a)
            kw[name] = val
            try:
                cmd = cls(c.opcode_obj(setname), **kw)
            except Exception:  # noqa: BLE001
                ctx.count("foreign_keyword_refused")
                continue
            ctx.count("foreign_keyword_accepted")
            check_buffers(ctx, c, setname, "foreign_keyword.%s" % name, full, cmd.cdb, cmd.datain, cmd.dataout, by_cdb_only=True)


def two_facades(ctx, c, setname, rng):
    """two facade objects with different block sizes over one device object, used alternately"""
    import pyscsi.pyscsi.scsi_enum_command as E

    from vmon import harness

    dev = harness.Recorder(getattr(E, setname))
    sizes = rng.sample([512, 520, 4096, 1024], 2)
    facs = [harness.make_facade(dev, bs) for bs in sizes]
    for i in range(8):
        j = rng.choice([0, 1]) if i > 1 else i
        a = harness.random_args(c, rng, cap=1 << 16)
        a["blocksize"] = sizes[j]
        if "tl" in c.args:
            a["tl"] = rng.choice([0, 1, 4, 16])
        a = harness.fill_derived(c, a, rng)
        kw = harness.call_kwargs(c, a)
        kw.pop("blocksize")
        before = len(dev.calls)
        try:
            getattr(facs[j], c.facade)(**kw)
        except Exception as e:  # noqa: BLE001
            ctx.fail("C03:%s.two_facades_raises" % c.name, "%s raised %s" % (c.facade, e), {"cmd": c.name, "args": a}, exc=e)
            continue
        ctx.case(("two-facades", c.name, setname, i, harness.args_repr(a)), True)
        ctx.count("two_facade_calls")
        if len(dev.calls) == before + 1:
            sent = dev.calls[-1][0]
            full = dict(harness.defaults(c))
            full.update(a)
            check_buffers(ctx, c, setname, "two_facades_one_device", full, sent.cdb, sent.datain, sent.dataout)


def attached_facade(ctx, c, setname, rng):
    """the facade attached for real (SCSI(dev, blocksize)) to a device whose standard INQUIRY data has every capability bit at
    random (PROTECT, 3PC, TPGS, ENCSERV, MULTIP, CMDQUE ...): what the device says it *can* do does not change the transfer a
    plain request announces, nor the buffers it carries"""
    import pyscsi.pyscsi.scsi_enum_command as E
    from pyscsi.pyscsi.scsi import SCSI

    from vmon import harness
    from vmon.spec import datain as D

    f = D.FORMATS["inquiry.standard"]
    devtype = {"sbc": 0x00, "mmc": 0x05, "ssc": 0x01, "smc": 0x08, "spc": 0x03}.get(setname, 0)
    v = f.gen(rng)
    v["peripheral_device_type"], v["peripheral_qualifier"] = devtype, 0
    for flag in ("protect", "3pc", "encserv", "multip", "cmdque", "sccs", "acc"):
        if flag in v and rng.random() < 0.6:
            v[flag] = 1
    std = f.encode(v)

    def fill(cmd):
        if cmd.cdb[0] == 0x12 and not cmd.cdb[1] & 1:
            k = min(len(std), len(cmd.datain))
            cmd.datain[:k] = std[:k]

    dev = harness.Recorder(E.spc, fill)
    bs = rng.choice([512, 520, 4096])
    try:
        s = SCSI(dev, bs)
    except Exception as e:  # noqa: BLE001
        ctx.fail("C03:attach_raises.%s" % type(e).__name__, "SCSI(dev, %d) raised %s" % (bs, e), {"inquiry": std}, exc=e)
        return
    if dev.opcodes is not getattr(E, setname):
        dev.opcodes = getattr(E, setname)
    for i in range(4):
        a = harness.random_args(c, rng, cap=1 << 16)
        a["blocksize"] = bs
        if "tl" in c.args:
            a["tl"] = rng.choice([1, 4, 8, 16])
        a = harness.fill_derived(c, a, rng)
        kw = harness.call_kwargs(c, a)
        kw.pop("blocksize")
        before = len(dev.calls)
        try:
            getattr(s, c.facade)(**kw)
        except Exception as e:  # noqa: BLE001
            ctx.fail("C03:%s.attached_facade_raises" % c.name, "%s raised %s" % (c.facade, e), {"cmd": c.name, "args": a}, exc=e)
            continue
        ctx.case(("attached-facade", c.name, setname, i, harness.args_repr(a), bytes(std[:8])), True,
                 sample={"cmd": c.name, "inquiry_flags": {k: v[k] for k in ("protect", "3pc", "encserv", "multip", "cmdque") if k in v}} if ctx.want_sample() else None)
        ctx.count("attached_facade_calls")
        if len(dev.calls) == before + 1:
            sent = dev.calls[-1][0]
            full = dict(harness.defaults(c))
            full.update(a)
            check_buffers(ctx, c, setname, "attached_facade", full, sent.cdb, sent.datain, sent.dataout)


def greedy_replies(ctx, c, setname, rng):
    """a device that announces the largest amount of data its length fields can express (FFh / FFFFh / FFFF FFFFh, one less, and
    plausible large values), asked through the facade with the allocation length left at its default and with explicit ones:
    however the library reacts, every hand-over of a command carries buffers that match its CDB"""
    import pyscsi.pyscsi.scsi_enum_command as E

    from vmon import harness

    heads = [b"\xff" * 8, b"\xff\xfe" + b"\xff" * 6, b"\x00\x00\xff\xff" + bytes(4), b"\xff\xff\xff\xfe" + bytes(4), b"\x00\xff" + bytes(6), b"\xfe" + bytes(7), b"\x00\x01\x00\x00" + bytes(4)]
    alloc_arg = next((k for k, spec in c.args.items() if spec[0] == "alloc"), None)
    for head in heads:
        for explicit in (False, True):
            def fill(cmd, head=head):
                if cmd.datain is not None and len(cmd.datain):
                    k = min(len(head), len(cmd.datain))
                    cmd.datain[:k] = head[:k]

            dev = harness.Recorder(getattr(E, setname), fill)
            s = harness.make_facade(dev, 512)
            a = dict(harness.random_args(c, rng, cap=4096))
            if "blocksize" in a:
                a["blocksize"] = 512
            kw = harness.call_kwargs(c, harness.fill_derived(c, a, rng))
            kw.pop("blocksize", None)
            if not explicit and alloc_arg:
                kw.pop(alloc_arg, None)
                a.pop(alloc_arg, None)
            kw.update(c.facade_fixed)
            try:
                getattr(s, c.facade)(**kw)
            except Exception:  # noqa: BLE001
                pass  # (decoding such a reply may fail: C04/C11's business)
            ctx.case(("greedy", c.name, setname, head, explicit), True)
            ctx.count("greedy_replies")
            full = dict(harness.defaults(c))
            full.update(a)
            for n, call in enumerate(dev.calls):
                sent = call[0]
                check_buffers(ctx, c, setname, "facade.after_greedy_reply.hand_over_%d" % min(n, 2), full, sent.cdb, sent.datain, sent.dataout, by_cdb_only=True)


def finalize(merged, tier):
    c = merged["counters"]
    for k in ("objects_checked", "sgio_boundary_events", "iscsi_boundary_events", "re_executions_checked"):
        if c.get(k, 0) == 0:
            merged["inconclusive"].append("monitor never reached: %s" % k)
    return {}


def replay(rec, ctx):
    from vmon.props.c01 import decode_args
    from vmon.sim import install

    install.install_fakes()
    w = rec["witness"]
    run({"id": w["cmd"], "cmd": w["cmd"], "n": 30, "small": True}, ctx)
