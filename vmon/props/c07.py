"""C07 - a command that did not complete with GOOD status never looks successful.

Fault enumeration at the substituted bindings; trace predicates over each
recorded call (DESIGN.md 4 C07)."""
LEVEL = "fault_enumeration"
RULE = (
    "fault enumeration: all 256 status bytes x {SG_IO, iSCSI, iSCSI binding without raw_sense} x {device.execute, facade "
    "methods} x raw-sense {off,on}; sense buffers fixed/descriptor x current/deferred x 16 keys x assorted ASC/ASCQ x lengths "
    "8..252, each unique (INFORMATION / ASCQ carry the injection counter); sequences of 1..20 commands with a failure at every "
    "position, re-execution of the same command object after a failure, GOOD after failure.  distinct = hash(transport, path, "
    "status, raw flag, sense class, position); non-trivial = status != GOOD"
)
ASSUMPTIONS = [
    "vmon/sim/fake_sgio.py, fake_iscsi.py model the Python boundary of cython-sgio (CheckConditionError(sense) / UnspecifiedError) "
    "and cython-iscsi (Task.status, Task.raw_sense)",
    "SG_IO: the binding only distinguishes CHECK CONDITION from other failures, so for other statuses any exception is accepted",
    "binding without Task.raw_sense cannot deliver sense: any exception is accepted for CHECK CONDITION there",
]

NAMED = {0x04: "ConditionsMet", 0x08: "BusyStatus", 0x18: "ReservationConflict", 0x28: "TaskSetFull", 0x30: "ACAActive", 0x40: "TaskAborted"}
TRANSPORTS = ["sgio", "iscsi", "iscsi_noraw"]


def shards(tier, seed):
    out = []
    for t in TRANSPORTS:
        out.append({"id": "status-" + t, "kind": "status", "transport": t})
        out.append({"id": "sense-" + t, "kind": "sense", "transport": t, "n": 400 if tier == "quick" else 6000})
        nseq = 700 if tier == "quick" else 40000
        for i in range(1 if tier == "quick" else 4):
            out.append({"id": "seq-%s-%d" % (t, i), "kind": "seq", "transport": t, "n": nseq})
        out.append({"id": "facade-" + t, "kind": "facade", "transport": t,
                    "statuses": "some" if tier == "quick" else "all"})
        out.append({"id": "facade-sessions-" + t, "kind": "facade_sessions", "transport": t, "n": 120 if tier == "quick" else 2500})
        out.append({"id": "any-opcode-" + t, "kind": "any_opcode", "transport": t})
        if t != "iscsi_noraw":
            for part in range(2 if tier == "quick" else 4):
                out.append({"id": "condition-sweep-%s-%d" % (t, part), "kind": "condition_sweep", "transport": t, "part": part, "parts": 2 if tier == "quick" else 4, "thin": 0})
        if t != "iscsi_noraw":
            out.append({"id": "sense-table-" + t, "kind": "sense_table", "transport": t, "keys": [0, 1, 2, 5, 6, 0xB] if tier == "quick" else list(range(16))})
    return out


class Env:
    def __init__(self, transport):
        import sys

        from vmon.sim import install

        install.install_fakes()
        self.transport = transport
        self.sg = sys.modules["sgio"]
        self.isc = sys.modules["iscsi"]
        self.isc.with_raw_sense = transport != "iscsi_noraw"
        self.node = None
        self.static_sense = None  # when set: the binding hands out this one bytearray for every CHECK CONDITION
        if transport == "sgio":
            self.dev, self.node = install.sgio_device()
            self.mod = self.sg
        else:
            self.dev = install.iscsi_device()
            self.mod = self.isc
        self.plan = []  # [(status, sense)] consumed per command
        self.injected = []
        self.counter = 0
        self.mod.handler = self.handler
        self.mod.log = []

    def handler(self, ev):
        status, sense = self.plan.pop(0) if self.plan else (0, None)
        self.injected.append((status, sense))
        if status == "raise":
            raise sense  # the binding itself fails (the ioctl, the connection): an exception out of its execute / command
        if self.static_sense is not None:
            # a binding that reuses one sense buffer: overwritten by every command, zeroed on GOOD
            for i in range(len(self.static_sense)):
                self.static_sense[i] = 0
            if sense is not None:
                self.static_sense[: len(sense)] = sense
                return status, self.static_sense
        return status, sense

    def unique_sense(self, rng, rc=None, key=None, n=None):
        from vmon.spec import sense as ref

        self.counter += 1
        rc = rc if rc is not None else rng.choice([0x70, 0x70, 0x72, 0x71, 0x73])
        free_key = key is None
        key = key if key is not None else rng.randrange(16)
        asc = rng.choice([0x00, 0x04, 0x20, 0x24, 0x29, 0x3A, 0x44, 0x5D, 0x7F, 0x80, 0xFF, rng.getrandbits(8)])
        ascq = self.counter & 0xFF
        if free_key and rng.random() < 0.35:
            # the conditions initiators are known to act on (retry, downgrade, re-probe, ignore): exactly these triples
            key, asc, ascq = rng.choice(DRIVER_TRIPLES)
            if rc < 0x72 and n is None and rng.random() < 0.6:
                # ... with sense-key specific bytes in use (field pointer, progress indication, retry count)
                b = ref.build(rc, 1, key, asc, ascq, 18, info=self.counter)
                b = bytearray(b)
                b[15] = 0x80 | rng.choice([0x40, 0x00, 0x48, 0x47]) | rng.randrange(8)
                b[16], b[17] = rng.choice([(0, 0), (0, 1), (0, 2), (0, 6), (0, 9), (0xFF, 0xFF), (rng.getrandbits(8), rng.getrandbits(8))])
                return type(ref.build(rc, 1, key, asc, ascq, 18))(b)
        if rc >= 0x72 and n is None and rng.random() < 0.5:
            # descriptor format with real descriptors, among them forwarded sense data of another command
            kinds = [rng.choice(ref.DESCRIPTOR_KINDS) for _ in range(rng.randint(1, 3))]
            if rng.random() < 0.5:
                kinds.append("forwarded")
            return ref.build_with_descriptors(rc, key, asc, ascq, [ref.descriptor(k, rng) for k in kinds])
        n = n if n is not None else rng.choice([8, 14, 18, 18, 32, 96, 252])
        if rc < 0x72:
            n = max(n, 14)
        return ref.build(rc, 1, key, asc, ascq, n, info=self.counter)


DRIVER_TRIPLES = [(5, 0x24, 0), (5, 0x24, 0), (5, 0x20, 0), (5, 0x25, 0), (5, 0x21, 0), (5, 0x26, 0), (5, 0x1A, 0), (5, 0x2C, 0), (5, 0x55, 4), (6, 0x29, 0), (6, 0x29, 1), (6, 0x29, 2),
                  (6, 0x29, 3), (6, 0x29, 4), (6, 0x28, 0), (6, 0x2A, 1), (6, 0x2A, 9), (6, 0x3F, 3), (6, 0x3F, 0xE), (6, 0x3F, 1), (6, 0x2F, 0), (2, 4, 0), (2, 4, 1), (2, 4, 2),
                  (2, 4, 3), (2, 4, 7), (2, 0x3A, 0), (2, 0x3A, 1), (1, 0x17, 0), (1, 0x17, 1), (1, 0x17, 6), (1, 0x18, 0), (1, 0x18, 2), (1, 0x0B, 1), (1, 0x5D, 0), (0, 0, 0), (0, 0, 0x1D), (1, 0, 0x1D), (3, 0x11, 0),
                  (3, 0x14, 1), (4, 0x44, 0), (0xB, 0x47, 3), (0xB, 0, 0), (0xB, 0x4F, 0), (7, 0x27, 0), (8, 0, 0), (0xD, 0, 0), (0xE, 0x1D, 0), (0xF, 0, 0), (0xA, 0, 0), (9, 0x80, 0)]


def same_sense(attached, sent):
    """the attached raw sense is what the target sent (a binding with one fixed-size sense buffer pads with zeros)"""
    a, b = bytes(attached), bytes(sent)
    return a[: len(b)] == b and not any(a[len(b):])


def judge_call(ctx, env, path, status, sense, raw, outcome, exc, cmd, extra):
    """predicates 1-3 for one executed command"""
    from vmon.spec import sense as ref

    t = env.transport
    sclass = "good" if status == 0 else "check_condition" if status == 2 else ("named_" + NAMED[status]) if status in NAMED else "other_status"
    wit = dict(extra, transport=t, path=path, status=status, sense=sense, en_raw_sense=raw, outcome=outcome,
               exception=repr(exc)[:200] if exc is not None else None)
    base = "C07:%s.%s" % (t, path)
    if status == 0:
        if outcome != "returned":
            ctx.fail(base + ".good_status_raises", "GOOD status raised %r" % exc, wit, exc=exc)
        return
    if outcome == "returned":
        ok = status == 2 and raw and sense is not None and cmd is not None and cmd.raw_sense_data is not None and same_sense(cmd.raw_sense_data, sense)
        if not ok:
            ctx.fail(base + ".returns_normally.%s%s" % (sclass, ".raw" if raw else ""),
                     "status %02Xh over %s via %s (en_raw_sense=%s) returned normally" % (status, t, path, raw), wit)
        return
    # raised
    name = type(exc).__name__
    if status == 2:
        if t == "iscsi_noraw":
            return  # no sense available from the binding: any exception accepted
        is_cc = isinstance(exc, env.dev.CheckCondition)
        if not is_cc:
            ctx.fail(base + ".check_condition_wrong_exception", "CHECK CONDITION raised %s, not the device's CheckCondition" % name, wit, exc=exc)
            return
        fmt, deferred, key, asc, ascq = ref.parse(sense)
        got = (exc.data.get("sense_key"), getattr(exc, "asc", None), getattr(exc, "ascq", None))
        if fmt is not None and got != (key, asc, ascq):
            prev = [s for st, s in env.injected[:-1] if s is not None and ref.parse(s)[2:] == got]
            mech = ".stale_sense_of_earlier_command" if prev else ".wrong_sense_values"
            ctx.fail(base + mech, "CheckCondition reports key/asc/ascq %r, target sent %r" % (got, (key, asc, ascq)), wit)
        if raw and cmd is not None and (cmd.raw_sense_data is None or not same_sense(cmd.raw_sense_data, sense)):
            ctx.fail(base + ".raw_sense_not_attached", "en_raw_sense=True but cmd.raw_sense_data != injected sense", wit)
    elif status in NAMED and t.startswith("iscsi"):
        if name != NAMED[status]:
            ctx.fail(base + ".wrong_named_exception.%s" % NAMED[status], "status %02Xh raised %s, expected %s" % (status, name, NAMED[status]), wit, exc=exc)
        else:
            # ... and it is that status only: a handler written for another status (`except dev.ConditionsMet: pass`, the one
            # status that means success) or for CHECK CONDITION must not catch it
            others = [n for n in list(NAMED.values()) + ["CheckCondition"] if n != NAMED[status] and isinstance(exc, getattr(env.dev, n, ()))]
            ctx.count("exception_class_relations_checked")
            if others:
                ctx.fail(base + ".status_exception_is_also.%s" % others[0], "the %s raised for status %02Xh is also an instance of %s: a handler for that other status swallows it"
                         % (NAMED[status], status, "/".join(others)), wit, exc=exc)
    if status == 2 and isinstance(exc, tuple(getattr(env.dev, n) for n in NAMED.values() if hasattr(env.dev, n))):
        ctx.fail(base + ".check_condition_is_also_a_status_error", "the CheckCondition is also an instance of a status exception class (%s)" % name, wit, exc=exc)


FLAGS = [0]


def execute(env, cmd, raw, via=None):
    """returns (outcome, exc); via='scsi' uses the generic SCSI.execute(cmd) of a facade"""
    try:
        if via == "scsi":
            from vmon import harness

            s = harness.make_facade(env.dev)
            FLAGS[0] += 1
            if raw:
                s.execute(cmd, en_raw_sense=(True, 1, "raw")[FLAGS[0] % 3])
            elif FLAGS[0] % 3 == 0:
                s.execute(cmd, en_raw_sense=(0, None, "")[(FLAGS[0] // 3) % 3])
            else:
                s.execute(cmd)
        elif via is None:
            # the flag is a truth value: whatever is false asks for the exception, whatever is true for the raw sense; given by
            # keyword or by position
            FLAGS[0] += 1
            from vmon import harness as _h

            flag = ((True, 1, "raw", 2, _h.IntSub(1)) if raw else (False, 0, None, "", _h.IntSub(0), 0.0))[FLAGS[0] % (5 if raw else 6)]
            if FLAGS[0] % 2:
                env.dev.execute(cmd, en_raw_sense=flag)
            else:
                env.dev.execute(cmd, flag)
        else:
            via()
        return "returned", None
    except Exception as e:  # noqa: BLE001
        return "raised", e


def fresh_cmd(env, rng, kind=None):
    from pyscsi.pyscsi.scsi_cdb_inquiry import Inquiry
    from pyscsi.pyscsi.scsi_cdb_read10 import Read10
    from pyscsi.pyscsi.scsi_cdb_testunitready import TestUnitReady
    from pyscsi.pyscsi.scsi_cdb_write10 import Write10
    import pyscsi.pyscsi.scsi_enum_command as E

    kind = kind or rng.choice(["tur", "inq", "read", "write", "any", "any"])
    if kind == "any":
        from vmon import harness
        from vmon.spec import cdb as S, dataout as DO

        c = rng.choice(list(S.COMMANDS.values()))
        a = DO.GEN[c.custom](rng)[0] if c.custom else harness.random_args(c, rng, cap=2048)
        return harness.construct(c, c.sets[0], a)
    if kind == "tur":
        return TestUnitReady(E.sbc.TEST_UNIT_READY)
    if kind == "inq":
        return Inquiry(E.sbc.INQUIRY)
    if kind == "read":
        return Read10(E.sbc.READ_10, 512, rng.getrandbits(20), 1)
    return Write10(E.sbc.WRITE_10, 512, rng.getrandbits(20), 1, bytearray(512))


def run(shard, ctx):
    env = Env(shard["transport"])
    rng = ctx.rng()
    t = env.transport
    kind = shard["kind"]
    if kind == "status":
        for status in range(256):
            for raw in (False, True):
                for ck in ("tur", "inq", "any", "any"):
                    sense = env.unique_sense(rng) if status == 2 else None
                    env.plan = [(status, sense)]
                    cmd = fresh_cmd(env, rng, ck)
                    via = "scsi" if ck == "any" else None
                    outcome, exc = execute(env, cmd, raw, via)
                    ctx.case((t, "scsi.execute" if via else "execute", status, raw, ck, type(cmd).__name__), status != 0,
                             sample={"transport": t, "status": status, "raw": raw, "outcome": outcome, "exception": repr(exc)[:80]} if ctx.want_sample() else None)
                    ctx.add("statuses_injected", status)
                    ctx.count("binding_calls")
                    judge_call(ctx, env, "scsi_execute" if via else "execute", status, sense, raw, outcome, exc, cmd,
                               {"cmd": ck, "class": type(cmd).__name__, "opcode": cmd.cdb[0]})
        # the error must also leave a `with` block of the device and of the facade
        from vmon import harness
        from vmon.sim import install as _inst

        for status in range(256):
            for how in ("with_device", "with_facade"):
                if t == "sgio":
                    dev = _inst.sgio_device()[0]
                else:
                    dev = _inst.iscsi_device()
                sense = env.unique_sense(rng) if status == 2 else None
                env.plan = [(status, sense)]
                cmd = fresh_cmd(env, rng, "tur")
                # the logout at the end of the block may itself fail (the target dropped the connection): the binding then answers
                # with a negative number
                env.isc.disconnect_result = (None, 0, -1, -5)[status % 4]
                try:
                    if how == "with_device":
                        with dev as d:
                            d.execute(cmd)
                    else:
                        s = harness.make_facade(dev)
                        with s as s2:
                            s2.execute(cmd)
                    outcome, exc = "returned", None
                except Exception as e:  # noqa: BLE001
                    outcome, exc = "raised", e
                env.isc.disconnect_result = None
                ctx.case((t, how, status), status != 0)
                ctx.count("binding_calls")
                old_dev, env.dev = env.dev, dev
                try:
                    judge_call(ctx, env, how, status, sense, False, outcome, exc, cmd, {"cmd": "tur"})
                finally:
                    env.dev = old_dev
    elif kind == "sense":
        for rc in (0x70, 0x71, 0x72, 0x73):
            for key in range(16):
                for n in (8, 14, 18, 32, 252):
                    for raw in (False, True):
                        sense = env.unique_sense(rng, rc, key, n)
                        env.plan = [(2, sense)]
                        cmd = fresh_cmd(env, rng)
                        outcome, exc = execute(env, cmd, raw)
                        ctx.case((t, "sense", sense, raw), True)
                        ctx.add("sense_classes", "%02x:key%x:len%d" % (rc, key, len(sense)))
                        ctx.count("binding_calls")
                        judge_call(ctx, env, "execute", 2, sense, raw, outcome, exc, cmd, {"sense_class": "%02x/%x/%d" % (rc, key, n)})
        # sense data that is not sense data (all zero, vendor-specific and reserved response codes): still a failed command
        for rc in (0x00, 0x7F, 0x7E, 0x74, 0x6F, 0x01, 0xFF, 0x80):
            for n in (1, 8, 18, 32):
                for raw in (False, True):
                    sense = bytes([rc]) + bytes((rc * 7 + i) & 0xFF if rc else 0 for i in range(n - 1))
                    env.plan = [(2, sense)]
                    cmd = fresh_cmd(env, rng)
                    outcome, exc = execute(env, cmd, raw)
                    ctx.case((t, "odd-sense", sense, raw), True)
                    ctx.count("binding_calls")
                    ctx.count("check_conditions_with_unknown_response_codes")
                    judge_call(ctx, env, "execute", 2, sense, raw, outcome, exc, cmd, {"sense_class": "response code %02Xh, %d bytes" % (rc, n)})
        for _ in range(shard["n"]):
            sense = env.unique_sense(rng)
            raw = bool(rng.getrandbits(1))
            env.plan = [(2, sense)]
            cmd = fresh_cmd(env, rng)
            outcome, exc = execute(env, cmd, raw)
            ctx.case((t, "sense", sense, raw), True)
            ctx.count("binding_calls")
            judge_call(ctx, env, "execute", 2, sense, raw, outcome, exc, cmd, {})
    elif kind == "seq":
        run_sequences(shard, ctx, env, rng)
    elif kind == "facade":
        run_facade(shard, ctx, env, rng)
    elif kind == "facade_sessions":
        run_facade_sessions(shard, ctx, env, rng)
    elif kind == "any_opcode":
        run_any_opcode(ctx, env, rng)
    elif kind == "condition_sweep":
        run_condition_sweep(shard, ctx, env, rng)
    elif kind == "sense_table":
        run_sense_table(shard, ctx, env, rng)
    # no binding call may have been skipped
    if env.plan:
        ctx.fail("C07:%s.command_never_reached_binding" % t, "planned status never consumed", {"left": len(env.plan)})


def ref_build_ua(env):
    from vmon.spec import sense as ref

    env.counter += 1
    return ref.build(0x70, 0, 6, 0x29, env.counter & 0xFF, 18, info=env.counter)


def run_sequences(shard, ctx, env, rng):
    t = env.transport
    for s in range(shard["n"]):
        length = rng.randint(1, 20)
        cmds = []
        steps = []
        for pos in range(length):
            r = rng.random()
            status = 0 if r < 0.5 else 2 if r < 0.8 else rng.choice(list(NAMED) + [0x01, 0x10, 0xFF, rng.getrandbits(8)])
            reuse = cmds and rng.random() < 0.35
            steps.append((status, reuse, bool(rng.getrandbits(1)) if rng.random() < 0.2 else False))
        hist = []
        nontriv = False
        if len(env.mod.log) > 5000:
            env.mod.log = []
            del env.injected[:-4]
        env.static_sense = bytearray(252) if s % 3 == 1 else None
        kept = None  # (exception, values, text) of the previous CHECK CONDITION
        deferred = []  # errors the application only collects: first looked at when the whole batch is over
        raw_kept = []  # commands that returned with raw sense: (command, its raw sense then, position)
        for pos, (status, reuse, raw) in enumerate(steps):
            if status == 2 and rng.random() < 0.3:
                # UNIT ATTENTION / POWER ON, RESET: typically seen (repeatedly) after a re-plug
                sense = ref_build_ua(env)
            else:
                sense = env.unique_sense(rng) if status == 2 else None
            if status == 2 and raw and t == "sgio" and rng.random() < 0.15:
                sense = b""  # CHECK CONDITION without sense data (autosense failed): a zero-length sense is still "failed"
                ctx.count("check_conditions_with_empty_sense")
            env.plan = [(status, sense)]
            if env.node is not None and rng.random() < 0.15:
                from vmon.sim import devnode

                devnode.replug(env.node)
                hist.append({"pos": pos, "event": "node replaced"})
            if reuse:
                cmd = rng.choice(cmds)
            else:
                cmd = fresh_cmd(env, rng)
                cmds.append(cmd)
            via = "scsi" if (pos + s) % 4 == 0 else None
            consumed_before = len(env.injected)
            outcome, exc = execute(env, cmd, raw, via)
            ctx.count("binding_calls")
            hist.append({"pos": pos, "status": status, "reused_object": bool(reuse), "raw": raw, "outcome": outcome, "via": via or "device.execute"})
            if len(env.injected) - consumed_before != 1:
                ctx.fail("C07:%s.sequence.binding_reached_%d_times" % (t, len(env.injected) - consumed_before),
                         "one execute() reached the binding %d times" % (len(env.injected) - consumed_before), {"history": hist[-6:]})
            if status == 2 and not raw and outcome == "raised" and isinstance(exc, env.dev.CheckCondition) and t != "iscsi_noraw" and (pos + s) % 3 == 0:
                deferred.append((exc, sense, pos))
                ctx.count("errors_inspected_only_later")
                continue
            if kept is not None:
                k_exc, k_vals, k_text = kept
                now = (k_exc.data.get("sense_key"), getattr(k_exc, "asc", None), getattr(k_exc, "ascq", None))
                try:
                    now_text = str(k_exc)
                except Exception:  # noqa: BLE001
                    now_text = None
                if now != k_vals or now_text != k_text:
                    ctx.fail("C07:%s.sequence.earlier_error_changed_by_later_command" % t,
                             "the CheckCondition of an earlier command now reports %r (%r), it reported %r (%r)" % (now, now_text, k_vals, k_text),
                             {"history": hist[-6:], "static_sense_buffer": env.static_sense is not None})
                kept = None
            if status == 2 and outcome == "raised" and isinstance(exc, env.dev.CheckCondition) and isinstance(getattr(exc, "data", None), dict):
                try:
                    kept = (exc, (exc.data.get("sense_key"), getattr(exc, "asc", None), getattr(exc, "ascq", None)), str(exc))
                except Exception:  # noqa: BLE001
                    kept = None
            nontriv = nontriv or status != 0
            raw_kept = [x for x in raw_kept if x[0] is not cmd]  # executed again: its raw sense is that of the new execution
            if status == 2 and raw and getattr(cmd, "raw_sense_data", None) is not None and env.static_sense is None:
                raw_kept.append((cmd, bytes(cmd.raw_sense_data), pos))
            judge_call(ctx, env, "sequence", status, sense, raw, outcome, exc, cmd,
                       {"position": pos, "reused_command_object": bool(reuse), "history": hist[-6:]})
        for r_cmd, r_was, r_pos in raw_kept:
            ctx.count("raw_sense_rechecked_after_later_commands")
            if r_cmd.raw_sense_data is None or bytes(r_cmd.raw_sense_data) != r_was:
                ctx.fail("C07:%s.sequence.raw_sense_of_earlier_command_changed" % t, "the raw sense attached to command %d reads %r after later commands ran, it was %r"
                         % (r_pos, bytes(r_cmd.raw_sense_data)[:18] if r_cmd.raw_sense_data is not None else None, r_was[:18]), {"history": hist[-6:], "position": r_pos})
        for d_exc, d_sense, d_pos in deferred:
            from vmon.spec import sense as _ref

            fmt, _deferred, key, asc, ascq = _ref.parse(d_sense)
            try:
                got = (d_exc.data.get("sense_key"), getattr(d_exc, "asc", None), getattr(d_exc, "ascq", None))
            except Exception as e:  # noqa: BLE001
                ctx.fail("C07:%s.sequence.collected_error_unreadable.%s" % (t, type(e).__name__), "an error looked at only after later commands ran cannot be read: %s" % e,
                         {"history": hist[-6:], "position": d_pos, "static_sense_buffer": env.static_sense is not None}, exc=e)
                continue
            if fmt is not None and got != (key, asc, ascq):
                ctx.fail("C07:%s.sequence.collected_error_reports_later_command" % t,
                         "the CheckCondition of command %d, first looked at after the sequence, reports key/asc/ascq %r; the target sent %r for that command" % (d_pos, got, (key, asc, ascq)),
                         {"history": hist[-6:], "position": d_pos, "static_sense_buffer": env.static_sense is not None})
        ctx.case((t, "seq", tuple((h.get("status"), h.get("reused_object"), h.get("raw"), h.get("via"), h.get("event")) for h in hist)), nontriv,
                 sample={"transport": t, "history": hist} if ctx.want_sample() else None)
        ctx.add("sequence_lengths", length)
        if any(h.get("reused_object") and h.get("status") == 2 for h in hist):
            ctx.count("sequences_with_retry_after_failure")


def facade_calls(env, rng):
    """(name, thunk(scsi)) for all 38 facade methods with valid arguments"""
    from vmon import harness
    from vmon.spec import cdb as S, dataout as DO

    out = []
    seen = set()
    for c in S.COMMANDS.values():
        if not c.facade:
            continue
        a = DO.GEN[c.custom](rng)[0] if c.custom else harness.random_args(c, rng, cap=4096)
        if c.name == "ReadCd":
            # a legal main-channel selection: decoding after GOOD must not be refused for the arguments' sake
            a.update({"est": 2, "mcsb": 0x1E, "c2ei": 0, "scsb": 0, "tl": 1})
        label = c.facade + (":%d" % c.facade_fixed["service_action"] if c.facade_fixed else "")
        if label in seen:
            continue
        seen.add(label)
        out.append((label, c, a))
        if not c.custom:
            # the same method with an allocation length too short for any header (the caller probes) and with the largest one
            for an, spec in c.args.items():
                if spec[0] == "alloc":
                    for tag, val in (("short", 4), ("zero", 0), ("large", min((1 << spec[1]) - 1, 4096))):
                        b = dict(a)
                        b[an] = val
                        out.append(("%s:alloc_%s" % (label, tag), c, b))
                    break
        if c.xfer == "ata":
            # the commands whose data a caller decodes: IDENTIFY (PACKET) DEVICE, one 512-byte sector in
            for cmdbyte in (0xEC, 0xA1):
                b = dict(a)
                b.update({"command": cmdbyte, "protocal": 4, "t_dir": 1, "t_length": 2, "byte_block": 1, "t_type": 0, "count": 1, "fetures": 0, "lba": 0, "off_line": 0, "data": None})
                if "blocksize" in b:
                    b["blocksize"] = 512
                out.append(("%s:identify_%02X" % (label, cmdbyte), c, b))
    return out


def run_any_opcode(ctx, env, rng):
    """hand-built commands of every operation code with a fixed CDB length (commands the library has no class for: PRE-FETCH,
    READ POSITION, vendor tools), every named status and CHECK CONDITION: the status decides, not the operation code"""
    from pyscsi.pyscsi.scsi_command import SCSICommand
    from pyscsi.pyscsi.scsi_opcode import OpCode

    from vmon.spec import opcodes as O

    t = env.transport
    for v in range(256):
        if O.group_length(v) is None:
            continue
        for status in [0, 2] + sorted(NAMED) + [0x10, 0x22, 0xFF]:
            for raw in (False, True):
                try:
                    oc = OpCode("HAND_BUILT_%02X" % v, v, {})
                    cmd = SCSICommand(oc, 0, 16 if v & 1 else 0)
                    cmd.cdb = SCSICommand.init_cdb(oc)
                    cmd.cdb[0] = v
                except Exception:  # noqa: BLE001
                    continue
                sense = env.unique_sense(rng) if status == 2 else None
                env.plan = [(status, sense)]
                outcome, exc = execute(env, cmd, raw, "scsi" if v % 3 == 0 else None)
                ctx.case((t, "any-opcode", v, status, raw), status != 0)
                ctx.count("binding_calls")
                ctx.count("hand_built_commands")
                judge_call(ctx, env, "any_opcode", status, sense, raw, outcome, exc, cmd, {"opcode": v})


def run_sense_table(shard, ctx, env, rng):
    """CHECK CONDITION with every assigned ASC/ASCQ (the library's table and the reference's) x sense keys x fixed / descriptor
    format, raw sense on and off: no sense content turns an error into a normal return"""
    import pyscsi.pyscsi.scsi_sense as mod

    from vmon.spec import sense as ref

    t = env.transport
    pairs = sorted(set(ref.ASC) | {(k >> 8, k & 0xFF) for k in mod.sense_ascq_dict} | {(0x00, 0x1D), (0x5D, 0x10), (0x0B, 0x01), (0x3F, 0x0E), (0x80, 0x00), (0xFF, 0xFF)}
                   | {(rng.getrandbits(8), rng.getrandbits(8)) for _ in range(200)})
    for asc, ascq in pairs:
        for key in shard["keys"]:
            for rc in (0x70, 0x72):
                for raw in (False, True) if (asc + ascq + key) % 5 == 0 else (False,):
                    sense = ref.build(rc, 0, key, asc, ascq, 18 if rc == 0x70 else 8)
                    env.plan = [(2, sense)]
                    cmd = fresh_cmd(env, rng, "tur")
                    outcome, exc = execute(env, cmd, raw)
                    ctx.case((t, "sense-table", asc, ascq, key, rc, raw), True)
                    ctx.count("binding_calls")
                    ctx.count("assigned_codes_injected")
                    judge_call(ctx, env, "sense_table", 2, sense, raw, outcome, exc, cmd, {"key": key, "asc": asc, "ascq": ascq, "response_code": rc})


def run_condition_sweep(shard, ctx, env, rng):
    """every facade method x every condition initiators are known to act on x the forms sense data takes (fixed with and without
    sense-key specific bytes naming CDB byte 0, 1, 2, 6; descriptor format with and without a sense-key specific descriptor, with an
    ATA status return descriptor in front), with optional arguments at non-default values: a deterministic product, because a
    reaction wired to one method, one triple and one field pointer is never met by drawing the three independently"""
    import pyscsi.pyscsi.scsi_enum_command as E

    from vmon import harness
    from vmon.spec import dataout as DO, sense as ref

    t = env.transport
    methods = facade_calls(env, rng)
    forms = [("fixed", None), ("fixed", (0xC0, 0, 0)), ("fixed", (0xC0, 0, 1)), ("fixed", (0xC8, 0, 2)), ("fixed", (0xC7, 0, 6)), ("fixed", (0x80, 0xFF, 0xFF)),
             ("descriptor", None), ("descriptor", (0xC0, 0, 1)), ("descriptor-ata-first", None)]
    triples = sorted(set(DRIVER_TRIPLES))
    part, parts = shard.get("part", 0), shard.get("parts", 1)
    n = 0
    for mi, (label, c, a0) in enumerate(methods):
        if mi % parts != part:
            continue
        setname = "sbc" if "sbc" in c.sets else c.sets[0]
        for ti, (key, asc, ascq) in enumerate(triples):
            for fi, (form, sks) in enumerate(forms):
                if shard.get("thin") and (mi + ti + fi) % shard["thin"]:
                    continue
                env.dev.opcodes = getattr(E, setname)
                s = harness.make_facade(env.dev)
                a = dict(a0) if not c.custom else a0
                if not c.custom and c.xfer != "ata":
                    # optional arguments at a value of their own (a flag that is set is what a unit rejects)
                    for name, (kind_, width, d) in c.args.items():
                        if kind_ == "u" and d is not None and not isinstance(d, type) and width and width <= 8 and name in a and (mi + ti + fi) % 2:
                            a[name] = 1 if width == 1 else (a[name] or 1)
                # INFORMATION as units fill it: the block the condition is about, inside the range the caller asked for (when the
                # command has one); else a running number
                info = n
                if not c.custom and isinstance(a, dict) and isinstance(a.get("lba"), int) and (ti + fi) % 3:
                    span = a.get("tl") or a.get("nb") or a.get("numblks") or 1
                    info = (a["lba"] + ((ti + fi) % max(1, span if isinstance(span, int) else 1))) & 0xFFFFFFFF
                if form == "fixed":
                    sb = bytearray(ref.build(0x70 if (ti + fi) % 5 else 0x71, 1, key, asc, ascq, 18, info=info))
                    if sks:
                        sb[15], sb[16], sb[17] = sks
                elif form == "descriptor":
                    d = [bytes([0x02, 0x06, 0x00, 0x00, sks[0], sks[1], sks[2], 0x00])] if sks else [ref.descriptor("information", rng)]
                    sb = bytearray(ref.build_with_descriptors(0x72 if (ti + fi) % 5 else 0x73, key, asc, ascq, d))
                else:
                    sb = bytearray(ref.build_with_descriptors(0x72, key, asc, ascq, [ref.descriptor("ata_status", rng), ref.descriptor("information", rng)]))
                sense = type(ref.build(0x70, 1, 0, 0, 0, 18))(sb)
                env.plan = [(2, sense)]
                before = len(env.injected)
                try:
                    ret = harness.facade_call(c, s, DO.fresh(a) if c.custom else dict(a))
                    outcome, exc = "returned", None
                except Exception as e:  # noqa: BLE001
                    ret, outcome, exc = None, "raised", e
                reached = len(env.injected) - before
                env.plan = []
                n += 1
                ctx.count("binding_calls")
                ctx.count("condition_sweep_calls")
                if reached == 0:
                    continue  # refused before sending
                wit = {"method": label, "condition": [key, asc, ascq], "form": form, "sense_key_specific": list(sks) if sks else None}
                if reached != 1:
                    ctx.fail("C07:%s.condition_sweep.binding_reached_%d_times" % (t, reached), "%s answered with CHECK CONDITION %x/%02x/%02x (%s) reached the binding %d times" % (label, key, asc, ascq, form, reached), wit)
                    continue
                judge_call(ctx, env, "condition_sweep", 2, sense, c.xfer == "ata", outcome, exc, ret, wit)
        ctx.case((t, "condition-sweep", label), True)


def run_facade_sessions(shard, ctx, env, rng):
    """one facade object kept over 5..30 calls of mixed methods with injected statuses: what happened to an earlier call
    (a failed ATA pass-through, a CHECK CONDITION, a busy target) must not change how a later failure is reported"""
    import pyscsi.pyscsi.scsi_enum_command as E

    from vmon import harness
    from vmon.spec import dataout as DO

    t = env.transport
    methods = facade_calls(env, rng)
    ata = [m for m in methods if m[1].xfer == "ata"]
    for sess in range(shard["n"]):
        s = harness.make_facade(env.dev)
        hist = []
        # a third of the sessions are polling loops: one method, the same arguments, again and again on one facade
        poll = rng.choice(methods) if rng.random() < 0.33 else None
        if poll is not None and rng.random() < 0.4:
            poll = next((m for m in methods if m[0].lower().replace("_", "") == "testunitready"), poll)  # (what initiators poll with)
        if poll is not None:
            ctx.count("polling_sessions")
        for i in range(rng.randint(5, 30)):
            label, c, a = poll if poll is not None else rng.choice(ata) if rng.random() < 0.25 else rng.choice(methods)
            setname = "sbc" if "sbc" in c.sets else c.sets[0]
            env.dev.opcodes = getattr(E, setname)
            r = rng.random()
            status = 0 if r < 0.45 else 2 if r < 0.8 else rng.choice(list(NAMED) + [0x01, 0xFF, 0x10])
            sense = env.unique_sense(rng) if status == 2 else None
            if status == 2 and rng.random() < 0.15 and t != "sgio":
                sense = None  # CHECK CONDITION for which the iSCSI binding has no sense data (a task without autosense)
                env.isc.omit_absent_sense = rng.random() < 0.5  # ... and, in one binding, no raw_sense attribute on such a task either
                ctx.count("check_conditions_without_sense_data")
            if rng.random() < 0.09:
                import errno as _errno

                status, sense = "raise", rng.choice([OSError(_errno.ENODEV, "No such device"), OSError(_errno.ENXIO, "No such device or address"), OSError(_errno.EIO, "Input/output error"),
                                                     OSError(_errno.EBUSY, "busy"), TimeoutError("timed out"), ConnectionResetError(104, "reset"), MemoryError(), RuntimeError("binding failed"),
                                                     # every errno a system call behind the binding can end with (each is its own OSError subclass or none)
                                                     OSError(_errno.EINTR, "Interrupted system call"), OSError(_errno.EAGAIN, "Resource temporarily unavailable"),
                                                     OSError(_errno.ENOMEM, "Cannot allocate memory"), OSError(_errno.ENOTTY, "Inappropriate ioctl for device"),
                                                     OSError(_errno.EPERM, "Operation not permitted"), OSError(_errno.EACCES, "Permission denied"),
                                                     OSError(_errno.ENOENT, "No such file or directory"), OSError(_errno.EPIPE, "Broken pipe"),
                                                     OSError(_errno.ETIMEDOUT, "Connection timed out"), OSError(_errno.ECONNABORTED, "aborted"),
                                                     OSError(_errno.EINVAL, "Invalid argument"), OSError(_errno.EFAULT, "Bad address"), OSError(_errno.EBADF, "Bad file descriptor"),
                                                     OSError(_errno.ENOSPC, "No space left on device"), OSError(_errno.EDOM, "out of domain"), OSError(_errno.ERANGE, "range"),
                                                     KeyError("task"), ValueError("I/O operation on closed file"), AttributeError("raw_sense"), TypeError("an integer is required"),
                                                     StopIteration(), ArithmeticError("overflow")])
                ctx.count("binding_errors_injected")
            env.plan = [(status, sense)]
            before = len(env.injected)
            try:
                ret = harness.facade_call(c, s, DO.fresh(a) if c.custom else dict(a))
                outcome, exc = "returned", None
            except Exception as e:  # noqa: BLE001
                ret, outcome, exc = None, "raised", e
            reached = len(env.injected) - before
            hist.append({"method": label, "status": status if status != "raise" else "binding raises %s" % type(sense).__name__, "outcome": outcome})
            ctx.count("binding_calls")
            if status == "raise":
                if reached == 1 and (outcome != "raised" or exc is not sense):
                    ctx.fail("C07:%s.facade_session.binding_error_%s" % (t, "hidden" if outcome != "raised" else "replaced"), "%s: the binding raised %r, the caller %s"
                             % (label, sense, "got a normal return" if outcome != "raised" else "got %r" % exc), {"history": hist[-6:]})
                elif reached > 1:
                    ctx.fail("C07:%s.facade_session.binding_reached_%d_times" % (t, reached), "%s reached the binding %d times after the binding had raised" % (label, reached), {"history": hist[-6:]})
                env.plan = []
                continue
            if status == 2 and sense is None:
                env.isc.omit_absent_sense = False
                # whatever is raised, it does not carry the sense of an earlier command
                from vmon.spec import sense as _ref

                if outcome != "raised":
                    ctx.fail("C07:%s.facade_session.returns_normally.check_condition_without_sense" % t, "%s returned normally after CHECK CONDITION (no sense data available)" % label, {"history": hist[-6:]})
                elif isinstance(exc, env.dev.CheckCondition) and isinstance(getattr(exc, "data", None), dict) and exc.data.get("sense_key") is not None:
                    got = (exc.data.get("sense_key"), getattr(exc, "asc", None), getattr(exc, "ascq", None))
                    if any(se is not None and _ref.parse(se)[2:] == got for _st, se in env.injected[:-1] if _st == 2):
                        ctx.fail("C07:%s.facade_session.stale_sense_of_earlier_command" % t, "%s failed with CHECK CONDITION without sense data; the CheckCondition raised reports %r, the sense of an earlier command" % (label, got),
                                 {"history": hist[-6:]})
                env.plan = []
                continue
            if reached != 1:
                env.plan = []
                if reached == 0:
                    continue  # refused before sending (e.g. decode of arguments): not a status matter
                ctx.fail("C07:%s.facade_session.binding_reached_%d_times" % (t, reached), "%s reached the binding %d times" % (label, reached), {"history": hist[-6:]})
                continue
            if status == 0 and outcome == "raised":
                continue  # decoding an empty buffer after GOOD: C04/C13's business
            raw = c.xfer == "ata"
            judge_call(ctx, env, "facade_session", status, sense, raw, outcome, exc, ret, {"method": label, "position": i, "history": hist[-6:]})
        ctx.case((t, "facade-session", tuple((h["method"], h["status"]) for h in hist)), True,
                 sample={"transport": t, "history": hist[:8]} if ctx.want_sample() else None)
        ctx.count("facade_sessions")


def run_facade(shard, ctx, env, rng):
    import pyscsi.pyscsi.scsi_enum_command as E
    from pyscsi.pyscsi.scsi_command import SCSICommand

    from vmon import harness
    from vmon.spec import dataout as DO

    t = env.transport
    statuses = list(range(256)) if shard["statuses"] == "all" else [0, 1, 2, 4, 8, 0x10, 0x18, 0x22, 0x28, 0x30, 0x40, 0x7F, 0x80, 0xFF]
    unm = {"n": 0}
    orig_unm = SCSICommand.unmarshall

    def hooked_unmarshall(self, **kw):
        unm["n"] += 1
        return orig_unm(self, **kw)

    raised_by_device = {}
    dev = env.dev
    orig_exec = type(dev).execute

    def hooked_exec(self, cmd, en_raw_sense=False):
        try:
            return orig_exec(self, cmd, en_raw_sense=en_raw_sense)
        except Exception as e:  # noqa: BLE001
            raised_by_device["exc"] = e
            raise

    SCSICommand.unmarshall = hooked_unmarshall
    type(dev).execute = hooked_exec
    try:
        methods = facade_calls(env, rng)
        ctx.count("facade_methods", len({m[0].split(":")[0] for m in methods}))
        # the conditions initiators are tempted to "handle" themselves (fall back to another command, retry, ignore): whatever
        # the sense says, one command was sent and its failure reaches the caller
        from vmon.spec import sense as SN

        well_known = []
        for key, asc, ascq in ((5, 0x20, 0x00), (5, 0x24, 0x00), (5, 0x25, 0x00), (5, 0x26, 0x00), (5, 0x21, 0x00), (5, 0x1A, 0x00), (6, 0x29, 0x00), (6, 0x28, 0x00), (6, 0x2A, 0x01),
                               (6, 0x3F, 0x0E), (2, 0x04, 0x01), (2, 0x04, 0x02), (2, 0x3A, 0x00), (0xB, 0x47, 0x03), (0xB, 0x00, 0x00), (1, 0x17, 0x01), (1, 0x5D, 0x00), (0, 0x00, 0x00),
                               (3, 0x11, 0x00), (4, 0x44, 0x00), (7, 0x27, 0x00), (8, 0x00, 0x00), (0xD, 0x00, 0x00), (0xE, 0x1D, 0x00), (0xA, 0x0D, 0x01)):
            well_known.append(SN.build(0x70, 0, key, asc, ascq, 18))
            well_known.append(SN.build(0x72, 0, key, asc, ascq, 8))
        if shard["statuses"] != "all":
            well_known = well_known[::3] + well_known[:4]
        ctx.count("well_known_conditions_per_method", len(well_known))
        for label, c, a in methods:
            setname = {"sbc": "sbc"}.get(c.sets[0], c.sets[0])
            if "sbc" in c.sets:
                setname = "sbc"
            dev.opcodes = getattr(E, setname)
            for status, fixed_sense in [(st, None) for st in statuses] + [(2, ws) for ws in well_known]:
                sense = fixed_sense if fixed_sense is not None else env.unique_sense(rng) if status == 2 else None
                env.plan = [(status, sense)]
                unm["n"] = 0
                raised_by_device.clear()
                s = harness.make_facade(dev)
                before = len(env.mod.log)
                ret = None
                try:
                    ret = harness.facade_call(c, s, DO.fresh(a) if c.custom else dict(a))
                    outcome, exc = "returned", None
                except Exception as e:  # noqa: BLE001
                    outcome, exc = "raised", e
                reached = len(env.mod.log) - before
                raw = c.xfer == "ata"  # the facade asks for raw sense on ATA pass-through only
                ctx.case((t, "facade", label, status, bytes(fixed_sense[:14]) if fixed_sense is not None else None), status != 0,
                         sample={"transport": t, "method": label, "status": status, "outcome": outcome, "exception": repr(exc)[:80]} if ctx.want_sample() else None)
                ctx.add("facade_methods_driven", label)
                wit = {"method": label, "args": a, "table": setname}
                if reached != 1:
                    env.plan = []
                    if status != 0 and reached == 0 and outcome == "raised":
                        # refused before sending on GOOD too? then it is not this property's business
                        ctx.count("facade_raised_before_binding")
                        continue
                    ctx.fail("C07:%s.facade.binding_reached_%d_times" % (t, reached), "%s reached the binding %d times" % (label, reached), wit)
                    continue
                ctx.count("binding_calls")
                cmd = ret if ret is not None else None
                if status == 0 and outcome == "raised" and "exc" not in raised_by_device:
                    # raised by the decoding of an empty buffer after a GOOD command: C04/C13's business, not a status matter
                    ctx.count("facade_good_then_decode_raised")
                    continue
                judge_call(ctx, env, "facade", status, sense, raw, outcome, exc, cmd, wit)
                if status != 0 and outcome == "raised":
                    if "exc" in raised_by_device and exc is not raised_by_device["exc"]:
                        ctx.fail("C07:%s.facade.exception_replaced" % t, "%s: caller got %r, device raised %r" % (label, exc, raised_by_device["exc"]), wit)
                    if unm["n"]:
                        ctx.fail("C07:%s.facade.decoded_after_failure" % t, "%s: unmarshall ran %d times although status was %02Xh" % (label, unm["n"], status), wit)
                if status != 0 and outcome == "returned":
                    # (legitimate only where the caller asked for the raw sense: ATA pass-through over SG_IO) the data-in buffer of a
                    # command that failed is not decoded, the command carries no result
                    res = getattr(ret, "result", None)
                    if unm["n"] or res:
                        ctx.fail("C07:%s.facade.decoded_after_failure" % t, "%s returned after status %02Xh and %s" % (
                            label, status, "unmarshall ran %d times" % unm["n"] if unm["n"] else "the command carries a result with %d entries" % len(res)), wit)
                    ctx.count("returned_failures_checked_for_decoding")
                if status == 0 and outcome == "raised" and "exc" in raised_by_device:
                    ctx.fail("C07:%s.facade.good_status_raises" % t, "%s raised %r on GOOD" % (label, exc), wit, exc=exc)
    finally:
        SCSICommand.unmarshall = orig_unm
        type(dev).execute = orig_exec


def finalize(merged, tier):
    c = merged["counters"]
    if c.get("binding_calls", 0) == 0:
        merged["inconclusive"].append("stand-in bindings never reached")
    n = len(merged["sets"].get("statuses_injected", ()))
    return {"exhaustive": n == 256, "exhaustive_dimension": "status byte values 0..255 on each transport, raw-sense on/off (%d values observed)" % n,
            "facade_methods_driven": len({m.split(":")[0] for m in merged["sets"].get("facade_methods_driven", ())})}


def replay(rec, ctx):
    for s in shards(rec.get("tier", "quick"), rec.get("seed", 0)):
        if s["id"] == rec.get("shard"):
            run(s, ctx)
            return
