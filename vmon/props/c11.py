"""C11 - decoding device data always terminates, whatever the bytes."""
import random
import tracemalloc

PYOPT = {"quick": 1, "thorough": 2}  # every (thorough: every second) shard also runs in the -O -W error / debug-logging configuration
LEVEL = "exploration"
BASE, SLOPE = 10_000, 1_024
RULE = (
    "every decoder (27 response formats through their unmarshall_datain with every parameter combination, plus "
    "SCSICheckCondition) is called under a step monitor (sys.monitoring LINE events inside pyscsi) with the budget "
    "10000 + 1024*max(len(buffer), allocation length) steps; exceeding it aborts the call and is the violation; returning or "
    "raising within it is success.  Buffers: (a) well-formed reference responses with every embedded length/count field "
    "forced to 0,1,2,max,max-1 and random inconsistent values, singly and in pairs; (b) every prefix of those; (c) all-00, "
    "all-FF, ascending and random buffers of lengths 0..4100; (d) READ CD with every est/mcsb/c2ei/scsb combination.  A sample "
    "of calls also runs under tracemalloc with the bound 1 MiB + 512*len.  distinct = hash(decoder, parameters, buffer); "
    "non-trivial = >=1 length field differs from its consistent value (or buffer is not a well-formed response)"
)
ASSUMPTIONS = [
    "bounded liveness: 'terminates' is restated as 'within 10000+1024*len library line events'; the costliest terminating decoder "
    "seen must stay below half the budget, else the run is inconclusive",
]


def shards(tier, seed):
    from vmon.spec import datain as D

    tiny = ("readcapacity10", "readcapacity16", "prin.readreservation", "prin.reportcapabilities")  # (32 bytes or fewer: many more of them cost nothing)
    out = [{"id": n, "fmt": n, "n": (40 if n not in tiny else 1500) if tier == "quick" else (800 if n not in tiny else 6000), "small": tier == "quick"} for n in D.FORMATS]
    out.append({"id": "sense", "fmt": None, "n": 3000 if tier == "quick" else 100000, "small": tier == "quick"})
    out.append({"id": "readcd-params", "fmt": "readcd", "n": 0, "small": tier == "quick"})
    out.append({"id": "scaling", "fmt": None, "n": 0, "small": tier == "quick"})
    for part in range(4):
        out.append({"id": "vpd-any-%d" % part, "fmt": None, "vpd_any": True, "part": part, "parts": 4, "small": tier == "quick"})
    out.append({"id": "new-codes", "fmt": None, "new_codes": True, "small": tier == "quick"})
    out.append({"id": "retention", "fmt": None, "retention": True, "n": 300 if tier == "quick" else 3000, "small": tier == "quick"})
    for t in ("sgio", "iscsi"):
        out.append({"id": "hostile-" + t, "fmt": None, "hostile": t, "reps": 1 if tier == "quick" else 12, "small": tier == "quick"})
    return out


def call_budget(ctx, sm, name, fn, buf, alloc, wit_fn, klass, memcheck=False):
    n = max(len(buf), alloc)
    budget = BASE + SLOPE * n
    if memcheck:
        tracemalloc.start()
    out, steps = sm.run(fn, budget, opaque_cpu=0.5 + 20e-6 * n)
    if memcheck:
        _cur, peak = tracemalloc.get_traced_memory()
        tracemalloc.stop()
        ctx.count("tracemalloc_samples")
        if peak > (1 << 20) + 512 * n and out != "budget":  # one dictionary per 4-byte descriptor is ~130 bytes per byte, legitimately
            ctx.fail("C11:%s.memory.%s" % (name, klass), "%s allocated %d bytes decoding %d bytes" % (name, peak, len(buf)), wit_fn())
    ctx.count("monitored_calls")
    ctx.count("outcome_" + out.split(":")[0])
    if out.startswith("raised"):
        ctx.add("exception_types", "%s:%s" % (name, out[7:]))
    if out == "opaque":
        ctx.fail("C11:%s.work_hidden_in_one_step.%s" % (name, klass),
                 "%s spent %.1f s of CPU beyond what its %d counted lines account for on a %d-byte buffer (%s)" % (name, sm.opaque_hit, steps, len(buf), klass), wit_fn())
    elif out == "budget":
        ctx.fail("C11:%s.nonterminating.%s" % (name, klass),
                 "%s did not finish within %d steps on a %d-byte buffer (%s)" % (name, budget, len(buf), klass), wit_fn())
    elif out != "opaque":
        ctx.maximum("steps_per_byte.%s" % name, round(steps / max(1, n), 2), {"len": len(buf), "steps": steps})
        ctx.maximum("budget_fraction", round(steps / budget, 4), {"decoder": name, "len": len(buf), "steps": steps, "budget": budget})
    return out


def mutations(rng, b, sites, small):
    """(class, bytes) hostile variants of well-formed response b"""
    from vmon.refcodec import be

    def force(buf, off, n, val):
        buf[off : off + n] = be(val & ((1 << (8 * n)) - 1), n)

    vals = lambda n: [0, 1, 2, (1 << (8 * n)) - 1, (1 << (8 * n)) - 2]
    for i, (off, n) in enumerate(sites):
        if off + n > len(b):
            continue
        for v in vals(n) + [rng.getrandbits(8 * n) for _ in range(2)]:
            m = bytearray(b)
            force(m, off, n, v)
            yield "site%d=%s" % (min(i, 3), "0" if v == 0 else "max" if v == (1 << (8 * n)) - 1 else "x"), bytes(m)
        # a few bytes more or less than the consistent value: the announced end falls inside a descriptor or its header
        honest = int.from_bytes(b[off : off + n], "big")
        for d in list(range(-24, 0)) + [1, 2, 3, 4, 5]:
            if 0 <= honest + d < 1 << (8 * n):
                m = bytearray(b)
                force(m, off, n, honest + d)
                yield "site%d_off_by_few" % min(i, 3), bytes(m)
    pairs = [(i, j) for i in range(len(sites)) for j in range(i + 1, len(sites))]
    if small and len(pairs) > 6:
        pairs = rng.sample(pairs, 6)
    for i, j in pairs:
        for vi in (0, 1, None):
            for vj in (0, None):
                m = bytearray(b)
                for (off, n), v in ((sites[i], vi), (sites[j], vj)):
                    if off + n <= len(m):
                        force(m, off, n, (1 << (8 * n)) - 1 if v is None else v)
                yield "pair", bytes(m)
    # single bytes replaced (separators, terminators, type codes ...)
    for _ in range(12 if small else 60):
        if not b:
            break
        m = bytearray(b)
        m[rng.randrange(len(m))] = rng.choice([0x00, 0x20, 0x2C, 0x2E, 0x30, 0x41, 0x7F, 0xFF, rng.getrandbits(8)])
        yield "bytereplaced", bytes(m)
    # prefixes
    cuts = range(len(b) + 1) if len(b) <= (120 if small else 700) else sorted(set(rng.randrange(len(b)) for _ in range(120 if small else 500)))
    for k in cuts:
        yield "prefix", bytes(b[:k])


def garbage(rng, small):
    lens = list(range(0, 40)) + [63, 64, 65, 95, 96, 97, 255, 256, 257, 571, 572, 1023, 4095, 4100]
    if not small:
        lens += [rng.randrange(0, 4100) for _ in range(200)]
    for n in lens:
        yield "zeros", bytes(n)
        yield "ones", b"\xff" * n
        yield "ascending", bytes((i + 1) & 0xFF for i in range(n))
        for _ in range(2 if small else 6):
            yield "random", bytes(rng.getrandbits(8) for _ in range(n))
        # small numbers in every byte make length fields plausible-but-wrong
        yield "smallints", bytes(rng.choice((0, 0, 1, 2, 4, 8)) for _ in range(n))
    # a long run of one filler byte with something else at the very end
    for n in ((1000, 20000) if small else (1000, 20000, 65000)):
        for fill, tail in ((0x20, b"X"), (0x00, b"\x01"), (0x20, b"\x00X"), (0x61, b",")):
            yield "run_then_tail", bytes([fill]) * n + tail


def run_hostile(shard, ctx):
    """the whole initiator (facade + transport) against a device that gives the same hostile answer to every command, for ever:
    a reset / not-ready / busy report that never goes away, data that always announces more than was asked for.  Every facade
    call and the attach must come back (returning or raising) within a step budget, a handful of commands and without buffers
    whose size the device dictates"""
    import sys

    from vmon.sim import install

    install.install_fakes()
    import pyscsi.pyscsi.scsi_command as sc
    import pyscsi.pyscsi.scsi_enum_command as E
    from pyscsi.pyscsi.scsi import SCSI

    from vmon import harness
    from vmon.mon.steps import BudgetExceeded, StepMonitor
    from vmon.props.c13 import required_args, response_for
    from vmon.spec import cdb as S, dataout as DO, sense as SR

    t = shard["hostile"]
    mod = sys.modules["sgio" if t == "sgio" else "iscsi"]
    rng = ctx.rng()
    sm = StepMonitor()
    state = {"n": 0, "requests": []}
    real_ba = bytearray

    def guarded(n=0):
        if isinstance(n, int):
            state["requests"].append(n)
            if n > (64 << 20):
                raise MemoryError("allocation guard: %d bytes" % n)
        return real_ba(n)

    def sense_handler(status, sense):
        def h(ev):
            state["n"] += 1
            if state["n"] > 64:
                raise BudgetExceeded()  # stop a retry loop that the step budget has not stopped yet
            return status, sense
        return h

    def data_handler(kind, resp):
        def h(ev):
            state["n"] += 1
            if state["n"] > 64:
                raise BudgetExceeded()
            buf = ev.get("eff_in") if "eff_in" in ev else ev.get("in")
            if buf is not None and len(buf):
                n = len(buf)
                if kind == "all_ff":
                    buf[:] = b"\xff" * n
                elif kind in ("claims_alloc", "claims_double", "claims_one_more"):
                    claim = {"claims_alloc": n, "claims_double": 2 * n, "claims_one_more": n + 8}[kind]
                    head = claim.to_bytes(4, "big")
                    buf[: min(4, n)] = head[: min(4, n)]
                elif resp:
                    k = min(n, len(resp))
                    buf[:k] = resp[:k]
            return 0, None
        return h

    behaviours = [("unit_attention_29_fixed", lambda c, a: sense_handler(2, SR.build(0x70, 0, 6, 0x29, 0x00, 18))),
                  ("unit_attention_29_descriptor", lambda c, a: sense_handler(2, SR.build(0x72, 0, 6, 0x29, 0x01, 8))),
                  ("not_ready_becoming_ready", lambda c, a: sense_handler(2, SR.build(0x70, 0, 2, 0x04, 0x01, 18))),
                  ("aborted_command", lambda c, a: sense_handler(2, SR.build(0x70, 0, 0xB, 0x47, 0x03, 18))),
                  ("recovered_error", lambda c, a: sense_handler(2, SR.build(0x70, 0, 1, 0x17, 0x01, 18))),
                  ("busy", lambda c, a: sense_handler(0x08, None)), ("task_set_full", lambda c, a: sense_handler(0x28, None)),
                  ("all_ff", lambda c, a: data_handler("all_ff", None)), ("claims_alloc", lambda c, a: data_handler("claims_alloc", None)),
                  ("claims_double", lambda c, a: data_handler("claims_double", None)), ("claims_one_more", lambda c, a: data_handler("claims_one_more", None)),
                  ("more_descriptors_than_fit", lambda c, a: data_handler("resp", response_for(c, a, rng, big=True) if c is not None else b"\x00\x00\x06\x02\xff\x00\x00\x02"))]
    # devices whose answer depends on the command (a bridge that knows only the short commands, a target that rejects one
    # family): each command gets one of the answers above, for ever
    simple = dict(behaviours[:11])
    invalid_opcode = lambda c, a: sense_handler(2, SR.build(0x70, 0, 5, 0x20, 0x00, 18))  # noqa: E731
    invalid_field = lambda c, a: sense_handler(2, SR.build(0x72, 0, 5, 0x24, 0x00, 8))  # noqa: E731

    def mixed(choose):
        def mk(c, a):
            hs = {}

            def h(ev):
                cdb = ev.get("cdb") or b"\x00"
                key = choose(cdb)
                if key not in hs:
                    hs[key] = key(c, a)
                return hs[key](ev)
            return h
        return mk

    def by_length(short, long_):
        return lambda cdb: short if len(cdb) <= 10 else long_

    def by_salt(salt):
        pool = list(simple.values()) + [invalid_opcode, invalid_field]
        return lambda cdb: pool[random.Random("%s:%d:%d" % (salt, cdb[0], cdb[1] & 0x1F if cdb[0] in (0x9E, 0x9F, 0xA3, 0xA4, 0x5E, 0x5F, 0x7F) and len(cdb) > 1 else 0)).randrange(len(pool))]

    behaviours += [("short_saturated_long_rejected", mixed(by_length(simple["all_ff"], invalid_opcode))),
                   ("short_rejected_long_saturated", mixed(by_length(invalid_opcode, simple["all_ff"]))),
                   ("short_claims_more_long_rejected", mixed(by_length(simple["claims_double"], invalid_opcode))),
                   ("short_rejected_long_claims_more", mixed(by_length(invalid_field, simple["claims_double"]))),
                   ("short_saturated_long_invalid_field", mixed(by_length(simple["all_ff"], invalid_field))),
                   ("short_not_ready_long_saturated", mixed(by_length(simple["not_ready_becoming_ready"], simple["all_ff"])))]
    behaviours += [("per_command_%d" % i, mixed(by_salt("%s:%d" % (ctx.seed, i)))) for i in range(6)]
    sc.bytearray = guarded
    try:
        for rep in range(shard["reps"]):
            for c in [None] + [x for x in S.COMMANDS.values() if x.facade]:
                for bname, mk in behaviours:
                    if t == "sgio":
                        dev = install.sgio_device()[0]
                    else:
                        dev = install.iscsi_device()
                    a = dict(required_args(c, rng)) if c is not None else {}
                    if c is not None:
                        dev.opcodes = getattr(E, rng.choice(c.sets))
                        full = dict(harness.defaults(c))
                        full.update(a)
                    else:
                        full = {}
                    mod.handler = mk(c, full)
                    state["n"] = 0
                    del state["requests"][:]
                    label = "attach" if c is None else c.facade
                    wit = {"transport": t, "call": label, "device_behaviour": bname, "args": a}

                    def call():
                        if c is None:
                            SCSI(dev)
                        else:
                            s = harness.make_facade(dev, 512)
                            harness.facade_call(c, s, DO.fresh(a) if c.custom else dict(a))

                    asked = 65536 + sum(v for v in full.values() if isinstance(v, int) and 0 < v < (1 << 24))
                    out, steps = sm.run(call, BASE + SLOPE * 64 + 40 * asked)
                    ctx.case(("hostile", t, label, bname, rep), True, sample=dict(wit, outcome=out, commands=state["n"], steps=steps) if ctx.want_sample() else None)
                    ctx.count("hostile_device_calls")
                    ctx.count("hostile_outcome_" + out.split(":")[0])
                    ctx.maximum("hostile_commands_per_call", state["n"], wit)
                    if out in ("budget", "opaque") or state["n"] > 64:
                        ctx.fail("C11:facade.%s.never_comes_back.%s" % (label, bname), "%s over %s did not come back within its budget against a device answering %s to every command (%d commands sent, %d steps)"
                                 % (label, t, bname, state["n"], steps), wit)
                    elif state["n"] > 8:
                        ctx.fail("C11:facade.%s.commands_without_bound.%s" % (label, bname), "%s over %s sent %d commands for one call against a device answering %s" % (label, t, state["n"], bname), wit)
                    big = [n for n in state["requests"] if n > max(1 << 20, 16 * asked)]
                    if big:
                        ctx.fail("C11:facade.%s.allocation_dictated_by_device.%s" % (label, bname), "%s over %s asked for a buffer of %d bytes because of what the device answered (the caller asked for at most %d)"
                                 % (label, t, max(big), asked), wit)
                    try:
                        dev.close()
                    except Exception:  # noqa: BLE001
                        pass
                    mod.log = []
    finally:
        try:
            del sc.bytearray
        except AttributeError:
            pass
        mod.handler = None
        sm.close()


def run(shard, ctx):
    if shard.get("hostile"):
        return run_hostile(shard, ctx)
    from vmon.mon.steps import StepMonitor
    from vmon.spec import datain as D

    sm = StepMonitor()
    rng = ctx.rng()
    try:
        if shard["id"] == "sense":
            return run_sense(shard, ctx, sm, rng)
        if shard["id"] == "scaling":
            return run_scaling(shard, ctx, sm, rng)
        if shard.get("vpd_any"):
            return run_vpd_any(shard, ctx, sm, rng)
        if shard.get("retention"):
            return run_retention(shard, ctx, rng)
        if shard.get("new_codes"):
            return run_new_codes(shard, ctx, sm, rng)
        f = D.FORMATS[shard["fmt"]]
        cls = f.lib_cls()
        if shard["id"] == "readcd-params":
            return run_readcd(shard, ctx, sm, rng, f, cls)
        i = 0
        # (a)+(b): hostile variants of well-formed responses
        for _ in range(shard["n"]):
            v = f.gen(rng)
            b = f.encode(v)
            kw = f.decode_kwargs(v)
            alloc = v["_tl"] * 3072 if f.name == "readcd" else 0
            for klass, m in [("wellformed", b)] + list(mutations(rng, b, f.length_sites(v, b), shard["small"])):
                i += 1
                ctx.case((f.name, repr(sorted(kw.items())), m), klass != "wellformed",
                         sample={"decoder": f.name, "class": klass, "kwargs": kw, "buffer": m} if ctx.want_sample() else None)
                ctx.add("hostility_classes", "%s:%s" % (f.name, klass))
                call_budget(ctx, sm, f.name, lambda m=m: cls.unmarshall_datain(bytearray(m), **kw), m, alloc,
                            lambda m=m, klass=klass: {"decoder": f.name, "class": klass, "kwargs": kw, "buffer": m}, klass, memcheck=(i % 25 == 0))
                if (i % 3 == 0 or klass.endswith("off_by_few")) and f.name != "readcd":
                    instance_path(ctx, sm, f, rng, m, kw, klass)
        if f.name == "readelementstatus":
            cross_referenced_elements(ctx, sm, f, cls, rng, shard["small"])
        # (c) garbage, with every parameter combination
        kws = [{}]
        if f.name.startswith("inquiry"):
            kws = [{"evpd": 0}, {"evpd": 1}]
        if f.name == "readcd":
            kws = [{"lba": 0, "tl": t, "est": e, "mcsb": m, "c2ei": c, "scsb": s}
                   for t in (1, 2) for e in (1, 2, 4) for m in (0, 0x1F, 0x02) for c in (0, 1) for s in (0, 2)]
        if f.name != "inquiry.standard" and f.name.startswith("inquiry"):
            gb = list(garbage(rng, True))
        else:
            gb = list(garbage(rng, shard["small"]))
        for klass, m in gb:
            if f.name.startswith("inquiry.vpd") and len(m) >= 2:
                m = bytes([m[0], f.page]) + m[2:]  # reach this page's decoder
                if klass == "run_then_tail":
                    from vmon.refcodec import be

                    m = bytes([0, f.page]) + bytes(be(min(len(m), 65535 - 4), 2)) + m[: 65535 - 4]
            for kw in (kws if len(kws) <= 2 else rng.sample(kws, 2)):
                i += 1
                ctx.case((f.name, repr(sorted(kw.items())), m), True)
                ctx.add("hostility_classes", "%s:%s" % (f.name, klass))
                alloc = kw.get("tl", 0) * 3072
                call_budget(ctx, sm, f.name, lambda m=m, kw=kw: cls.unmarshall_datain(bytearray(m), **kw), m, alloc,
                            lambda m=m, kw=kw, klass=klass: {"decoder": f.name, "class": klass, "kwargs": kw, "buffer": m}, klass, memcheck=(i % 25 == 0))
    finally:
        sm.close()


def cross_referenced_elements(ctx, sm, f, cls, rng, small):
    """fields that *refer to* other descriptors of the same response (SOURCE STORAGE ELEMENT ADDRESS with SVALID): every small
    reference graph - self references, pairs and longer cycles that do or do not contain the start, chains into a cycle, references
    to elements that are not reported - is data a hostile changer can send"""
    import itertools

    for n in (1, 2, 3, 4, 6):
        maps = list(itertools.product(range(n + 1), repeat=n)) if n <= 4 else [tuple(rng.randrange(n + 1) for _ in range(n)) for _ in range(40 if small else 400)]
        if small and len(maps) > 120:
            maps = rng.sample(maps, 120)
        for pi in maps:
            for etypes in ((1,), (4,), (3, 1), (2, 4), (2,)):
                v = {"first_element_address": 100, "num_elements": n, "element_status_pages": []}
                k = 0
                per = -(-n // len(etypes))
                for t in etypes:
                    p = {"element_type": t, "pvoltag": 0, "avoltag": 0, "_tail": 4, "element_descriptors": []}
                    for _ in range(per):
                        if k >= n:
                            break
                        d = {name: 0 for name, *_r in f.BYTYPE[t].fields}
                        d.update({"element_address": 100 + k, "full": 1, "svalid": 1,
                                  "source_storage_element_address": 100 + pi[k] if pi[k] < n else 999})  # 999: not reported
                        p["element_descriptors"].append(d)
                        k += 1
                    v["element_status_pages"].append(p)
                m = f.encode(v)
                ctx.case((f.name, "xref", pi, etypes), True, sample={"decoder": f.name, "class": "cross_references", "source_of_each_element": list(pi)} if ctx.want_sample() else None)
                ctx.add("hostility_classes", "%s:cross_references" % f.name)
                ctx.count("reference_graphs")
                call_budget(ctx, sm, f.name, lambda m=m: cls.unmarshall_datain(bytearray(m)), m, 0,
                            lambda m=m, pi=pi: {"decoder": f.name, "class": "cross_references", "kwargs": {}, "buffer": m, "source_of_each_element": list(pi)}, "cross_references")


def instance_path(ctx, sm, f, rng, m, kw, klass):
    """the same bytes through a command *object*: cmd.datain = what the device left, cmd.unmarshall(**kw)"""
    from vmon.props.c13 import FMT_BY_CMD, required_args
    from vmon.spec import cdb as S

    cname = "Inquiry" if f.name.startswith("inquiry") else next((c for c, fm in FMT_BY_CMD.items() if fm == f.name), None)
    if cname is None and f.name.startswith("readdiscinformation"):
        cname = "ReadDiscInformation"
    if cname is None and f.name == "readcd":
        cname = "ReadCd"
    if cname is None:
        return
    c = S.COMMANDS[cname]
    try:
        from vmon import harness

        cmd = harness.construct(c, c.sets[0], dict(required_args(c, rng)))
    except Exception:  # noqa: BLE001
        return
    cmd.datain = bytearray(m)
    ctx.count("instance_path_calls")
    call_budget(ctx, sm, f.name + ".instance", lambda: cmd.unmarshall(**kw), m, 0,
                lambda: {"decoder": f.name, "class": klass, "kwargs": kw, "buffer": m, "path": "cmd.unmarshall()"}, klass + ".instance")


def run_scaling(shard, ctx, sm, rng):
    """work must be *proportional* to the size: the same kind of response with 16x as many (distinct) descriptors may not
    cost more than ~16x the steps"""
    from vmon.spec import datain as D

    for name in ("getlbastatus", "reportluns", "reporttargetportgroups", "readelementstatus", "prin.readkeys", "prin.readfullstatus",
                 "inquiry.vpd83", "inquiry.vpd00", "inquiry.vpd80", "reportpriority"):
        f = D.FORMATS[name]
        cls = f.lib_cls()
        n1, n2 = (48, 768) if name not in ("inquiry.vpd00",) else (16, 256)
        if name == "reportpriority":
            n1, n2 = 64, 1200  # 16 KiB, the default allocation length of the command
        if shard["small"] is False and name not in ("inquiry.vpd83", "inquiry.vpd00", "prin.readfullstatus", "reportpriority"):
            n2 = 3072
        res = []
        vbig = f.gen(rng, ("count", n2, 0) if name == "reporttargetportgroups" else ("count", n2))
        if name == "reporttargetportgroups":
            for i, g in enumerate(vbig["target_port_group_descriptors"]):
                g["target_port_group"] = i & 0xFFFF  # all distinct
        for n in (n1, n2):
            v = shrink(vbig, n) if n != n2 else vbig  # same structure, fewer descriptors
            b = f.encode(v)
            kw = f.decode_kwargs(v)
            out, steps = sm.run(lambda: cls.unmarshall_datain(bytearray(b), **kw), BASE + SLOPE * len(b))
            ctx.case(("scaling", name, n, len(b)), True, sample={"decoder": name, "descriptors": n, "bytes": len(b), "steps": steps} if ctx.want_sample() else None)
            ctx.count("monitored_calls")
            ctx.count("scaling_measurements")
            res.append((len(b), steps, out))
        (l1, s1, o1), (l2, s2, o2) = res
        if "budget" in (o1, o2):
            ctx.fail("C11:%s.nonterminating.scaling" % name, "%s exceeded its step budget on a well-formed %d-byte response" % (name, l2), {"decoder": name, "bytes": l2})
            continue
        r1, r2 = s1 / max(1, l1), s2 / max(1, l2)
        ctx.maximum("per_byte_cost_growth.%s" % name, round(r2 / max(r1, 1e-9), 2), {"bytes": [l1, l2], "steps": [s1, s2]})
        if r2 > 2.5 * r1 + 5:
            ctx.fail("C11:%s.superlinear_work" % name, "%s: %.1f steps/byte on %d bytes but %.1f steps/byte on %d bytes: work is not proportional to the size" % (name, r1, l1, r2, l2),
                     {"decoder": name, "bytes": [l1, l2], "steps": [s1, s2]})
            continue
        # work that no line event shows (a search or a copy inside one C call per descriptor, the rest of the data copied for every
        # entry): the processor time of the calling thread for two well-formed responses of the same kind, one four times the
        # size of the other, outside the step monitor.  Proportional work costs four times as much; a verdict is given only for
        # more than 2.2 times that, measured three times over, on responses that take long enough to be measurable
        import time as _time

        def cpu(b, kw):
            buf = bytearray(b)
            t0 = _time.thread_time()
            try:
                cls.unmarshall_datain(buf, **kw)
            except Exception:  # noqa: BLE001
                pass
            return _time.thread_time() - t0

        big_n = {"reportluns": 32768, "getlbastatus": 32768, "prin.readkeys": 32768, "reporttargetportgroups": 8192, "readelementstatus": 8192,
                 "prin.readfullstatus": 4096, "reportpriority": 4096}.get(name)
        stages = [big_n] if big_n is None else [big_n, big_n * 4]  # the larger pair only if the first one is proportional
        if name in ("reporttargetportgroups", "reportpriority", "prin.readfullstatus") and big_n is not None:
            stages.append(big_n * 16)  # (their second stage is still below a megabyte)
        for big_n in stages:
            if cpu_stage(ctx, name, f, cls, rng, cpu, big_n, vbig, n1, n2):
                break
        else:
            # responses built to be expensive for hashing: entries that are all different but whose natural keys (the integer value
            # of an identifier; the tuple of a descriptor's fields) have one and the same hash value
            for label, mk, (n_small, n_big) in [(lb, fn, sz) for lb, fn in ADVERSARIAL.get(name, ())
                                                for sz in (((8192, 32768), (8192, 131072)) if name in ("readelementstatus", "reporttargetportgroups") else ((2048, 8192),))]:
                small_b, big_b = mk(n_small), mk(n_big)
                over, ratios = 0, []
                for _round in range(3):
                    t1, t2 = min(cpu(small_b, {}), cpu(small_b, {})), cpu(big_b, {})
                    ratios.append(round(t2 / max(t1, 1e-6), 1))
                    if t2 > 0.05 and t2 > 2.2 * (len(big_b) / len(small_b)) * max(t1, 1e-4):
                        over += 1
                    else:
                        break
                ctx.count("hash_adversarial_responses_timed")
                ctx.maximum("cpu_time_growth_over_proportional.crafted.%s" % name, round(ratios[0] / (len(big_b) / len(small_b)), 2), {"input": label, "bytes": [len(small_b), len(big_b)], "cpu_ratio": ratios})
                ctx.case(("cpu-adversarial", name, label), True)
                if over == 3:
                    ctx.fail("C11:%s.superlinear_work.cpu_time" % name, "%s on %s: %d bytes cost %s times the processor time of %d bytes, in three measurements" % (name, label, len(big_b), ratios, len(small_b)),
                             {"decoder": name, "input": label, "bytes": [len(small_b), len(big_b)], "cpu_ratio": ratios})


M61 = (1 << 61) - 1
_M64 = (1 << 64) - 1
_XP1, _XP2, _XP5 = 11400714785074694791, 14029467366897019727, 2870177450012600261


def _tuple_hash(items):
    """CPython's hash of a tuple of non-negative ints below 2**61-1 (xxHash based, 3.8+)"""
    acc = _XP5
    for x in items:
        acc = (acc + x * _XP2) & _M64
        acc = ((acc << 31) | (acc >> 33)) & _M64
        acc = (acc * _XP1) & _M64
    return (acc + (len(items) ^ (_XP5 ^ 3527539))) & _M64


def _first_item_for(target, rest):
    """the first item (if it is below 2**61-1) that gives the tuple (item, *rest) the hash `target`"""
    inv1, inv2 = pow(_XP1, -1, 1 << 64), pow(_XP2, -1, 1 << 64)
    acc = (target - ((len(rest) + 1) ^ (_XP5 ^ 3527539))) & _M64
    for x in reversed(rest):
        acc = (acc * inv1) & _M64
        acc = ((acc >> 31) | (acc << 33)) & _M64
        acc = (acc - x * _XP2) & _M64
    acc = (acc * inv1) & _M64
    acc = ((acc >> 31) | (acc << 33)) & _M64
    return ((acc - _XP5) * inv2) & _M64


def adversarial_getlbastatus(n):
    """n different extents whose (lba, number of blocks, status) tuples all have the same hash"""
    out = bytearray()
    target = _tuple_hash((4096, 8, 0))
    nb = 1
    while len(out) < 16 * n:
        nb += 1
        lba = _first_item_for(target, (nb, 1))
        if lba < M61 and hash((lba, nb, 1)) == hash((4096, 8, 0)):
            out += lba.to_bytes(8, "big") + nb.to_bytes(4, "big") + bytes([1, 0, 0, 0])
    return bytes((len(out) + 4).to_bytes(4, "big") + bytes(4) + out)


def adversarial_reportpriority(n):
    """n different 24-byte TransportIDs of one port whose integer values are congruent modulo 2**61-1"""
    base = int.from_bytes(bytes([0x00]) + bytes(7) + bytes(range(1, 17)), "big")
    body = b"".join(bytes([3, 0, 0, 1, 0, 0, 0, 24]) + (base + i * M61).to_bytes(24, "big") for i in range(n))
    return len(body).to_bytes(4, "big") + body


def adversarial_reportluns(n):
    """n different LUNs ... as many of one hash value as 64 bits allow (8), repeated patterns of them"""
    luns = [(7 + (i % 8) * M61 + (i // 8) * 8 * M61) & _M64 for i in range(n)]
    body = b"".join(x.to_bytes(8, "big") for x in luns)
    return len(body).to_bytes(4, "big") + bytes(4) + body


def adversarial_element_pages(n):
    """n element status pages with one descriptor each (a changer that reports every element in a page of its own)"""
    pages = b"".join(bytes([2, 0, 0, 12, 0, 0, 0, 12]) + (i & 0xFFFF).to_bytes(2, "big") + bytes([1, 0, 0, 0, 0, 0, 0, 0, 0, 0]) for i in range(n * 2))
    return bytes([0, 0]) + ((n * 2) & 0xFFFF).to_bytes(2, "big") + bytes(1) + len(pages).to_bytes(3, "big") + pages


def adversarial_port_groups(n):
    """n target port groups of four ports each whose port identifiers descend"""
    body = bytearray()
    port = 0xFFFF
    for i in range(n // 2):
        body += bytes([0x80 | (i % 4), 0x8F]) + (i & 0xFFFF).to_bytes(2, "big") + bytes([0, 0, 0, 4])
        for _p in range(4):
            body += bytes(2) + (port & 0xFFFF).to_bytes(2, "big")
            port = (port - 1) & 0xFFFF or 0xFFFF
    return len(body).to_bytes(4, "big") + bytes(body)


ADVERSARIAL = {"readelementstatus": [("one element per page, tens of thousands of pages", adversarial_element_pages)],
               "reporttargetportgroups": [("port identifiers in descending order", adversarial_port_groups)],
               "getlbastatus": [("extents whose field tuples share one hash value", adversarial_getlbastatus)],
               "reportpriority": [("TransportIDs congruent modulo 2**61-1", adversarial_reportpriority)],
               "reportluns": [("LUNs congruent modulo 2**61-1", adversarial_reportluns)]}


def cpu_stage(ctx, name, f, cls, rng, cpu, big_n, vbig, n1, n2):
    """one pair of responses (big_n entries and a quarter of that); returns True when a verdict was given"""
    if True:
        if big_n is None:
            vcpu = vbig
            vs = shrink(vbig, max(n1 * 4, n2 // 4))
        else:
            vcpu = f.gen(rng, ("count", big_n, 0) if name == "reporttargetportgroups" else ("count", big_n))
            if name == "reportluns":
                vcpu["_luns"] = [(i * 2654435761) & ((1 << 64) - 1) for i in range(big_n)]  # all different
            if name == "reporttargetportgroups":
                for i, g in enumerate(vcpu["target_port_group_descriptors"]):
                    g["target_port_group"] = i & 0xFFFF
            vs = shrink(vcpu, big_n // 4)
        small_b, small_kw = f.encode(vs), f.decode_kwargs(vs)
        big_b, big_kw = f.encode(vcpu), f.decode_kwargs(vcpu)
        prop = len(big_b) / max(1, len(small_b))
        over = 0
        ratios = []
        for _round in range(3):
            t1 = min(cpu(small_b, small_kw), cpu(small_b, small_kw))
            t2 = cpu(big_b, big_kw)
            ratios.append(round(t2 / max(t1, 1e-6), 1))
            if t2 > 0.05 and t2 > 2.2 * prop * max(t1, 1e-4):
                over += 1
            else:
                break
        ctx.count("cpu_time_scalings_measured")
        ctx.case(("cpu-scaling", name, len(small_b), len(big_b)), True)
        ctx.maximum("cpu_time_growth_over_proportional.%s" % name, round(ratios[0] / max(prop, 1e-9), 2), {"bytes": [len(small_b), len(big_b)], "cpu_ratio": ratios})
        if over == 3:
            ctx.fail("C11:%s.superlinear_work.cpu_time" % name, "%s: decoding %d bytes costs %s times the processor time of %d bytes (proportional: %.1f times), in three measurements: work that grows faster than the size"
                     % (name, len(big_b), ratios, len(small_b), prop), {"decoder": name, "bytes": [len(small_b), len(big_b)], "cpu_ratio": ratios})
            return True
        return False


def naa_designator(i):
    return bytes([0x01, 0x03, 0x00, 0x08, 0x50 | (i >> 28 & 0xF)]) + bytes([(i >> s) & 0xFF for s in (20, 12, 4)]) + bytes([(i << 4) & 0xF0, 0xAA, 0xBB, i & 0xFF])


def vpd_structures(page, n):
    """well-formed VPD pages with n (distinct) descriptors in the list shapes SPC-4 uses, for an arbitrary page code"""
    from vmon.refcodec import be

    def page_of(body):
        body = body[:65532]
        return bytes([0x00, page]) + bytes(be(len(body), 2)) + body

    # SCSI Ports (88h) shape: port descriptors, each with a relative port, an (empty) initiator TransportID and target port designators
    ports = b"".join(bytes(2) + bytes(be(i + 1 & 0xFFFF or 1, 2)) + bytes(2) + bytes(2) + bytes(2) + bytes(be(12, 2)) + naa_designator(i) for i in range(n))
    yield "scsi_ports_shape", page_of(ports)
    # Device Identification (83h) shape: designation descriptors
    yield "designator_list_shape", page_of(b"".join(naa_designator(i) for i in range(n)))
    # Management Network Addresses (85h) / Mode Page Policy (87h) shape: 4-byte headers with a 2-byte length
    yield "length_prefixed_shape", page_of(b"".join(bytes([0x20 | (i & 3), 0]) + bytes(be(8, 2)) + b"http://%1d" % (i % 10) for i in range(n)))
    # fixed 4-byte entries (Mode Page Policy)
    yield "fixed_entries_shape", page_of(b"".join(bytes([i & 0x3F, 0xFF, 0x80 | (i & 3), 0]) for i in range(n)))


def run_vpd_any(shard, ctx, sm, rng):
    """every VPD page code, also the ones the library does not (yet) decode field by field: structurally valid pages in the list
    shapes of SPC-4 under the step budget, and twice with 16x the descriptors for proportionality"""
    from pyscsi.pyscsi.scsi_cdb_inquiry import Inquiry

    n1, n2 = (40, 640) if shard["small"] else (100, 2500)
    for page in range(256):
        if page % shard["parts"] != shard["part"]:
            continue
        sizes = {}
        for n in (n1, n2):
            for shape, m in vpd_structures(page, n):
                ctx.case(("vpd-any", page, shape, n), True, sample={"decoder": "inquiry.vpd%02x" % page, "shape": shape, "descriptors": n, "bytes": len(m)} if ctx.want_sample() else None)
                name = "inquiry.vpd_any"
                out, steps = sm.run(lambda m=m: Inquiry.unmarshall_datain(bytearray(m), evpd=1), BASE + SLOPE * len(m), opaque_cpu=0.5 + 20e-6 * len(m))
                ctx.count("monitored_calls")
                ctx.count("outcome_" + out.split(":")[0])
                ctx.add("vpd_pages_driven", "%02x" % page)
                wit = {"decoder": "inquiry.vpd%02x" % page, "kwargs": {"evpd": 1}, "shape": shape, "buffer": m if len(m) < 4000 else m[:4000], "buffer_len": len(m)}
                if out in ("budget", "opaque"):
                    ctx.fail("C11:inquiry.vpd%02x.nonterminating.%s" % (page, shape), "VPD page %02Xh (%s, %d descriptors, %d bytes) did not finish within its budget" % (page, shape, n, len(m)), wit)
                    continue
                sizes.setdefault(shape, []).append((len(m), steps))
                ctx.maximum("budget_fraction", round(steps / (BASE + SLOPE * len(m)), 4), {"decoder": "inquiry.vpd%02x" % page, "len": len(m), "steps": steps})
        # one descriptor holding a long text (a URL, a name) made to be expensive for Unicode processing: a base letter followed by
        # a long run of combining marks in alternating classes (any normalisation has to reorder them).  Processor time for 15 KiB
        # and 60 KiB of it
        import time as _time

        def text_page(nbytes):
            marks = ("\u0301\u0316" * (nbytes // 4)).encode("utf-8")
            url = b"http://a" + marks + b".example/x"
            body = bytes([0x21, 0]) + len(url).to_bytes(2, "big") + url
            return bytes([0x00, page]) + len(body).to_bytes(2, "big") + body

        def cpu_of(m):
            t0 = _time.thread_time()
            try:
                Inquiry.unmarshall_datain(bytearray(m), evpd=1)
            except Exception:  # noqa: BLE001
                pass
            return _time.thread_time() - t0

        # ... and short texts that mean something to string formatting (a device's text must never be *used* as a format): with an
        # inconsistent length byte in front, as a page of ASCII information would carry it.  The peak of memory is watched
        for txt in (b"%(page_code)150000000d", b"%150000000d", b"{0:>150000000}", b"%(x)s %n %*d", b"{page_code:150000000}"):
            for ascii_len in (len(txt), 0xFF, 1):
                body = bytes([ascii_len]) + txt + b"\0"
                m = bytes([0x00, page]) + len(body).to_bytes(2, "big") + body
                tracemalloc.start()
                try:
                    try:
                        Inquiry.unmarshall_datain(bytearray(m), evpd=1)
                    except Exception:  # noqa: BLE001
                        pass
                    peak = tracemalloc.get_traced_memory()[1]
                finally:
                    tracemalloc.stop()
                ctx.count("format_hostile_texts_decoded")
                if peak > (8 << 20):
                    ctx.fail("C11:inquiry.vpd%02x.memory.format_text" % page, "VPD page %02Xh of %d bytes carrying the text %r: %d MiB allocated while decoding" % (page, len(m), txt, peak >> 20),
                             {"decoder": "inquiry.vpd%02x" % page, "buffer": m})
                    break
        small_m, big_m = text_page(15000), text_page(60000)
        over = 0
        ratios = []
        for _round in range(3):
            t1, t2 = min(cpu_of(small_m), cpu_of(small_m)), cpu_of(big_m)
            ratios.append(round(t2 / max(t1, 1e-6), 1))
            if t2 > 0.05 and t2 > 2.2 * (len(big_m) / len(small_m)) * max(t1, 1e-4):
                over += 1
            else:
                break
        ctx.count("hostile_text_pages_timed")
        ctx.case(("vpd-any-text", page), True)
        if over == 3:
            ctx.fail("C11:inquiry.vpd%02x.superlinear_work.cpu_time" % page, "VPD page %02Xh with one long text made of combining marks: %d bytes cost %s times the processor time of %d bytes, in three measurements"
                     % (page, len(big_m), ratios, len(small_m)), {"decoder": "inquiry.vpd%02x" % page, "bytes": [len(small_m), len(big_m)], "cpu_ratio": ratios})
        for shape, res in sizes.items():
            if len(res) != 2:
                continue
            (l1, s1), (l2, s2) = res
            r1, r2 = s1 / max(1, l1), s2 / max(1, l2)
            ctx.count("scaling_measurements")
            if r2 > 2.5 * r1 + 5:
                ctx.fail("C11:inquiry.vpd%02x.superlinear_work" % page, "VPD page %02Xh (%s): %.1f steps/byte on %d bytes but %.1f steps/byte on %d bytes" % (page, shape, r1, l1, r2, l2),
                         {"decoder": "inquiry.vpd%02x" % page, "shape": shape, "bytes": [l1, l2], "steps": [s1, s2]})


def run_new_codes(shard, ctx, sm, rng):
    """page and sub-page codes, descriptor types and counts that the library's source names and the recorded baseline does not
    (vmon/srcdict.py; nothing on the unchanged tree): most likely a decoder that is new. It gets what new decoders meet -
    lists of type/length records in the header forms SPC uses (types from the new literals, lengths consistent and not), nested
    lists, and zero-filled bodies with one to three bytes set to such values, at every pair of positions"""
    import itertools

    from pyscsi.pyscsi.scsi_cdb_inquiry import Inquiry
    from pyscsi.pyscsi.scsi_cdb_modesense6 import ModeSense6
    from pyscsi.pyscsi.scsi_cdb_modesense10 import ModeSense10

    from vmon import srcdict

    nov = srcdict.novel_exact()
    if not nov:
        return
    b8 = sorted({v for v in nov if 0 <= v < 256} | {v & 0xFF for v in nov if v < 65536} | {v >> 8 for v in nov if 255 < v < 65536})
    t16 = sorted({v for v in nov if 0 <= v < 65536})[:24]
    vals = sorted(set(b8[:16]) | {1, 2, 6, 0x10, 0x80, 0xFF})
    small_lens = sorted({0, 4, 8, 12, 20, 40} | {v for v in nov if 0 < v <= 64})[:10]

    def records(n_max):
        """bodies made of type/length records"""
        for form in ("t16_l16", "t8_r8_l16", "t8_l8"):
            for _ in range(n_max):
                body = b""
                for _r in range(rng.randint(1, 4)):
                    t = rng.choice(t16 + [0, 1, 2, 3]) if t16 else rng.randrange(4)
                    ln = rng.choice(small_lens)
                    kind = rng.random()
                    if kind < 0.4:
                        payload = bytes(ln)
                    elif kind < 0.7:
                        payload = bytes(rng.choice(vals + [0, 0, 0]) for _i in range(ln))
                    else:
                        inner = b"".join(bytes([rng.choice(vals), 0, 0, rng.choice([0, 4, 8])]) for _i in range(rng.randint(0, 3)))
                        payload = (len(inner).to_bytes(2, "big") + inner + bytes(ln))[:max(ln, 2)]
                    claimed = len(payload) if rng.random() < 0.8 else rng.choice([0, 1, len(payload) + 4, 0xFFFF])
                    if form == "t16_l16":
                        body += (t & 0xFFFF).to_bytes(2, "big") + (claimed & 0xFFFF).to_bytes(2, "big") + payload
                    elif form == "t8_r8_l16":
                        body += bytes([t & 0xFF, rng.choice([0, 0, 1])]) + (claimed & 0xFFFF).to_bytes(2, "big") + payload
                    else:
                        body += bytes([t & 0xFF, claimed & 0xFF]) + payload
                yield form, body
                if len(body) > 8:
                    yield form + "_cut", body[: rng.randrange(4, len(body))]

    def sparse():
        for L in (8, 12, 16, 20, 24, 32, 48, 64):
            if L <= 24:
                for i, j in itertools.combinations(range(L), 2):
                    for a, b in ((x, y) for x in vals for y in vals):
                        body = bytearray(L)
                        body[i], body[j] = a, b
                        yield "two_bytes_set", bytes(body)
            for _ in range(400):
                body = bytearray(L)
                for pos in rng.sample(range(L), 3):
                    body[pos] = rng.choice(vals)
                yield "three_bytes_set", bytes(body)

    def drive(label, decoder, wrap, bodies, cap):
        n = 0
        for shape, body in bodies:
            n += 1
            if n > cap:
                break
            m = wrap(body)
            out, steps = sm.run(lambda m=m: decoder(bytearray(m)), BASE + SLOPE * len(m), opaque_cpu=0.5 + 20e-6 * len(m))
            ctx.count("monitored_calls")
            ctx.count("new_code_structures_decoded")
            if out in ("budget", "opaque"):
                ctx.fail("C11:%s.nonterminating.%s" % (label, shape), "%s (%s, %d bytes) did not finish within its budget" % (label, shape, len(m)), {"decoder": label, "shape": shape, "buffer": m})
                return
        ctx.case(("new-codes", label, n), True)

    cap = 6000 if shard["small"] else 60000

    def enum_values(modname, attr):
        try:
            import importlib

            e = getattr(importlib.import_module(modname), attr)
            return sorted({getattr(e, k) for k in e.keys if isinstance(getattr(e, k), int)})
        except Exception:  # noqa: BLE001
            return []

    # (the page code of a new decoder is usually not new: the enumerations list more page codes than there are decoders)
    vpd_pages = sorted(set([v for v in b8 if v >= 0x80 or v == 0][:8]) | set(enum_values("pyscsi.pyscsi.scsi_enum_inquiry", "VPD")))
    for page in vpd_pages:
        drive("inquiry.vpd%02x" % page, lambda m: Inquiry.unmarshall_datain(m, evpd=1), lambda body, page=page: bytes([0, page]) + len(body).to_bytes(2, "big") + body,
              itertools.chain(records(300), sparse()), cap)
    pages = sorted(set([v for v in b8 if 0 < v < 0x3F][:6]) | {v for v in enum_values("pyscsi.pyscsi.scsi_enum_modesense", "PAGE_CODE") if 0 < v < 0x3F})
    subs = sorted(set([v for v in b8][:4]) | {0x01, 0xFF})
    cap = cap // 3
    for page in pages:
        for sub in [None] + subs:
            if sub is None:
                wrap6 = lambda body, page=page: bytes([3 + 2 + len(body) & 0xFF, 0, 0, 0]) + bytes([page, len(body) & 0xFF]) + body  # noqa: E731
                wrap10 = lambda body, page=page: (6 + 2 + len(body)).to_bytes(2, "big") + bytes(6) + bytes([page, len(body) & 0xFF]) + body  # noqa: E731
            else:
                wrap6 = lambda body, page=page, sub=sub: bytes([3 + 4 + len(body) & 0xFF, 0, 0, 0]) + bytes([0x40 | page, sub]) + len(body).to_bytes(2, "big") + body  # noqa: E731
                wrap10 = lambda body, page=page, sub=sub: (6 + 4 + len(body)).to_bytes(2, "big") + bytes(6) + bytes([0x40 | page, sub]) + len(body).to_bytes(2, "big") + body  # noqa: E731
            tag = "%02x" % page + ("" if sub is None else "_%02x" % sub)
            drive("modesense10.page%s" % tag, ModeSense10.unmarshall_datain, wrap10, itertools.chain(records(150), sparse()), cap // 2)
            drive("modesense6.page%s" % tag, ModeSense6.unmarshall_datain, wrap6, itertools.chain(records(60), sparse()), cap // 6)


def run_retention(shard, ctx, rng):
    """'allocate without bound' over a stream of responses: after warming up, decoding N more *distinct* well-formed responses
    and dropping the results may not leave memory behind in proportion to the data decoded"""
    import gc

    import pyscsi.pyscsi.scsi_sense as sense_mod

    from vmon.spec import datain as D, sense as SR

    N = shard["n"]
    decoders = []
    for name, f in D.FORMATS.items():
        cls = f.lib_cls()
        decoders.append((name, f, cls))
    rcd = D.FORMATS["readcd"]
    streams = [d + (False,) for d in decoders + [("sense", None, None)]] + [d + (True,) for d in decoders + [("sense", None, None)]]
    # a disc read for its sub-channel (sector header + 16 bytes of formatted Q per sector, every frame with a good CRC and another content)
    streams.append(("readcd.q_subchannel_only", rcd, rcd.lib_cls(), "q"))
    for name, f, cls, hostile in streams:
        bufs = []
        for i in range(N + 60):
            if hostile == "q":
                v = f.gen(rng, ("layout", (2, 0x04, 0, 2), 40))  # (the four-byte sector header and the sixteen bytes of Q)
                bufs.append((f.encode(v), f.decode_kwargs(v)))
                continue
            if f is None:
                descs = [SR.descriptor(k, rng) for k in rng.sample(SR.DESCRIPTOR_KINDS, 3)]
                b, kw, sites = SR.build_with_descriptors(0x72, rng.randrange(16), rng.getrandbits(8), rng.getrandbits(8), descs), {}, [(7, 1)]
            else:
                v = f.gen(rng)
                b, kw = f.encode(v), f.decode_kwargs(v)
                sites = f.length_sites(v, b)
            if hostile:
                # ... and the same stream from a target whose length fields are wrong (each response different from all before)
                b = bytearray(b)
                for off, n in sites[:3] or [(0, 1)]:
                    if off + n <= len(b):
                        cur = int.from_bytes(b[off:off + n], "big")
                        b[off:off + n] = ((cur + rng.choice([1, 2, 3, 8, 16, -1, -2, -8])) % (1 << (8 * n))).to_bytes(n, "big")
                if len(b) > 8:
                    b[rng.randrange(len(b))] = rng.getrandbits(8)
                b = bytes(b)
            bufs.append((b, kw))
        if hostile is True:
            name = name + ".hostile"

        def decode(b, kw):
            try:
                if f is None:
                    str(sense_mod.SCSICheckCondition(bytearray(b)))
                else:
                    cls.unmarshall_datain(bytearray(b), **kw)
            except Exception:  # noqa: BLE001
                pass

        for b, kw in bufs[:60]:
            decode(b, kw)  # warm up: lazily built tables, interned constants
        gc.collect()
        tracemalloc.start()
        base = tracemalloc.get_traced_memory()[0]
        fed = 0
        for b, kw in bufs[60:]:
            decode(b, kw)
            fed += len(b)
        gc.collect()
        kept = tracemalloc.get_traced_memory()[0] - base
        tracemalloc.stop()
        ctx.case(("retention", name), True, sample={"decoder": name, "responses": N, "bytes_decoded": fed, "bytes_retained": kept} if ctx.want_sample() else None)
        ctx.count("retention_measurements")
        ctx.maximum("retained_fraction", round(kept / max(1, fed), 4), {"decoder": name, "bytes_decoded": fed, "bytes_retained": kept})
        if kept > 32768 + fed // 8:
            ctx.fail("C11:%s.memory_retained_across_calls" % name, "%s: %d bytes stay allocated after decoding and dropping %d distinct responses (%d bytes of device data)" % (name, kept, N, fed),
                     {"decoder": name, "responses": N, "bytes_decoded": fed, "bytes_retained": kept})


def shrink(v, n):
    """copy of value tree v whose (innermost long) descriptor list is cut to n entries"""
    import copy

    v = copy.deepcopy(v)

    def cut(x):
        if isinstance(x, dict):
            for k, y in x.items():
                if isinstance(y, (list, bytes, bytearray)) and len(y) > n and not (isinstance(y, (bytes, bytearray)) and k.endswith("tag")):
                    if isinstance(y, list) and y and isinstance(y[0], dict) and any(isinstance(z, list) and len(z) > n for z in y[0].values()):
                        cut(y[0])
                    else:
                        x[k] = y[:n]
                elif isinstance(y, (dict, list)):
                    cut(y)
        elif isinstance(x, list):
            for y in x:
                cut(y)

    cut(v)
    if "num_elements" in v and "element_status_pages" in v:
        v["num_elements"] = sum(len(p["element_descriptors"]) for p in v["element_status_pages"])
    return v


def run_readcd(shard, ctx, sm, rng, f, cls):
    for est in range(8):
        for mcsb in range(32):
            for c2 in range(4):
                for sc in (0, 1, 2, 4, 7) if shard["small"] else range(8):
                    for tl in (0, 1, 3):
                        kw = {"lba": 5, "tl": tl, "est": est, "mcsb": mcsb, "c2ei": c2, "scsb": sc}
                        n = rng.choice([0, 16, 2352, 3072 * tl])
                        m = bytes(rng.getrandbits(8) for _ in range(min(n, 3000))) + bytes(max(0, n - 3000))
                        ctx.case(("readcd", repr(sorted(kw.items())), len(m)), True)
                        call_budget(ctx, sm, "readcd", lambda: cls.unmarshall_datain(bytearray(m), **kw), m, tl * 3072,
                                    lambda: {"decoder": "readcd", "kwargs": kw, "buffer_len": len(m)}, "params")


def run_sense(shard, ctx, sm, rng):
    import pyscsi.pyscsi.scsi_sense as mod

    def go(m, klass):
        ctx.case(("sense", m), True, sample={"decoder": "sense", "class": klass, "buffer": m} if ctx.want_sample() else None)

        def fn():
            e = mod.SCSICheckCondition(bytearray(m))
            str(e)

        call_budget(ctx, sm, "sense", fn, m, 0, lambda: {"decoder": "sense", "class": klass, "buffer": m}, klass)

    for klass, m in garbage(rng, shard["small"]):
        if len(m):
            go(m, klass)
    # descriptor format with real descriptors: many side by side, and forwarded sense data nested as deep as 252 bytes allow
    from vmon.spec import sense as SR

    for depth in range(1, 21):
        for rc in (0x72, 0x73):
            inner = SR.build(0x70, 0, 5, 0x24, 0, 18) if depth % 2 else SR.build_with_descriptors(0x72, 3, 0x11, 0, [])
            while True:
                for _ in range(depth):
                    nxt = SR.build_with_descriptors(rc, 2, 0x04, 0x01, [SR.descriptor("forwarded", rng, inner=inner)])
                    if len(nxt) > 252:
                        break
                    inner = nxt
                break
            go(bytes(inner), "nested_forwarded_sense")
            ctx.add("forwarded_nesting_bytes", len(inner))
    for kind in SR.DESCRIPTOR_KINDS:
        for count in (1, 2, 5, 20, 60):
            descs = []
            while len(descs) < count and sum(map(len, descs)) < 230:
                d = SR.descriptor(kind, rng)
                if sum(map(len, descs)) + len(d) > 244:
                    break
                descs.append(d)
            full = SR.build_with_descriptors(0x72, 6, 0x29, 0x00, descs)
            go(full, "descriptors_side_by_side")
            for cut in range(8, len(full), 3):
                go(full[:cut], "descriptors_truncated")
    for j in range(shard["n"]):
        n = rng.randint(1, 252)
        m = bytearray(rng.getrandbits(8) for _ in range(n))
        m[0] = rng.choice([0x70, 0x71, 0x72, 0x73, 0xF0, 0xF2, m[0]])
        if n > 7:
            m[7] = rng.choice([0, 1, 0xFF, n - 8, m[7]])
        go(bytes(m), "random_sense")


def finalize(merged, tier):
    c = merged["counters"]
    if c.get("monitored_calls", 0) == 0:
        merged["inconclusive"].append("step monitor never ran a decoder")
    if c.get("hostile_device_calls", 0) < 400:
        merged["inconclusive"].append("hostile-device phase did not run (%d calls)" % c.get("hostile_device_calls", 0))
    if c.get("retention_measurements", 0) < 20 or len(merged["sets"].get("vpd_pages_driven", [])) < 256:
        merged["inconclusive"].append("retention / all-VPD-pages phases incomplete (%s measurements, %s pages)" % (c.get("retention_measurements", 0), len(merged["sets"].get("vpd_pages_driven", []))))
    bf = merged["maxima"].get("budget_fraction")
    if bf and bf[0] > 0.5:
        merged["inconclusive"].append("a terminating call used %.0f%% of its budget: constant too tight to separate cases (%r)" % (100 * bf[0], bf[1]))
    return {"budget": "%d + %d*max(len(buffer), alloc_len) library LINE events" % (BASE, SLOPE),
            "max_steps_per_byte": {k.split(".", 1)[1]: v[0] for k, v in merged["maxima"].items() if k.startswith("steps_per_byte.")}}


def replay(rec, ctx):
    from vmon.mon.steps import StepMonitor
    from vmon.props.c01 import decode_args
    from vmon.spec import datain as D

    w = rec["witness"]
    sm = StepMonitor()
    try:
        name = w["decoder"]
        if name == "sense" or "buffer" not in w:
            run({"id": rec.get("shard"), "fmt": name if name != "sense" else None, "n": 20, "small": True}, ctx)
            return
        m = bytes(decode_args({"b": w["buffer"]})["b"])
        cls = D.FORMATS[name].lib_cls()
        kw = w.get("kwargs") or {}
        call_budget(ctx, sm, name, lambda: cls.unmarshall_datain(bytearray(m), **kw), m, kw.get("tl", 0) * 3072, lambda: w, w.get("class", "replay"))
    finally:
        sm.close()
