"""C12 - data written through the library is read back intact from a conformant target."""
PYOPT = 2  # every second shard also runs in an interpreter started with -O
LEVEL = "exploration"
RULE = (
    "histories of 20-200 facade commands mixing WRITE(10/12/16), WRITE SAME(10/16 incl. NDOB), READ(10/12/16), SYNCHRONIZE "
    "CACHE(10/16), READ CAPACITY(10/16), INQUIRY; LBAs from a few hot blocks, the neighbourhoods of 2^16, 2^31, 2^32, 2^40 "
    "and the last LBA, uniform-in-magnitude draws and the integer literals of the library's source; block sizes {512,520,4096}; transfer lengths 0..300; all protect/DPO/FUA/RARC/group/anchor/unmap values; "
    "capacities 2^20 and 2^41 blocks.  Each history runs over init_device('/dev/...') with fake sgio and over "
    "init_device('iscsi://...') with fake iscsi against a target that decodes CDBs with the reference only and validates "
    "strictly.  Oracle: the driver's shadow disk (updated from the caller's intent; every written block carries operation id "
    "and block index) vs cmd.datain of reads; capacity/inquiry results vs the target configuration; no target anomaly; both "
    "transports produce identical results.  distinct = hash(history); non-trivial = >=1 write followed by an overlapping read"
)
ASSUMPTIONS = ["vmon/sim/target.py (reference-decoding, strict) and the binding stand-ins are the trusted base",
               "WRITE SAME with UNMAP/ANCHOR is modelled as a plain repeated write; NDOB writes zero blocks"]


def shards(tier, seed):
    n = 16
    per = 13 if tier == "quick" else 1250
    out = [{"id": "h%d" % i, "kind": "hist", "n": per} for i in range(n)]
    out += [{"id": "tour%d" % i, "kind": "tour", "n": 12 if tier == "quick" else 600} for i in range(4)]
    out += [{"id": "big%d" % i, "kind": "big", "n": 1 if tier == "quick" else 6, "i": i} for i in range(8)]
    out += [{"id": "prepared", "kind": "prepared", "n": 12 if tier == "quick" else 400}]
    out += [{"id": "congruent%d" % i, "kind": "congruent", "n": 6 if tier == "quick" else 200} for i in range(2)]
    return out


from vmon import gen  # noqa: E402


def lba_pool(nblocks, ten):
    pool = [0, 1, 2, 3, 7, 100]
    for c in (1 << 16, 1 << 31, 1 << 32, 1 << 40, nblocks):
        pool += [c - 65, c - 2, c - 1, c, c + 1]
    lim = min(nblocks, 1 << 32) if ten else nblocks
    return sorted({x for x in pool if 0 <= x < lim})


def gen_history(rng):
    bs = rng.choice([512, 520, 4096])
    nblocks = rng.choice([1 << 20, 1 << 41])
    n = rng.randint(20, 200)
    ops = []
    hot = None
    for i in range(n):
        kind = rng.choices(["write", "writesame", "read", "sync", "cap", "inq"], [30, 12, 40, 6, 6, 3])[0]
        width = rng.choice([10, 12, 16]) if kind in ("write", "read") else rng.choice([10, 16])
        ten = width in (10, 12)
        if hot is not None and rng.random() < 0.55:
            lim = min(nblocks, 1 << 32) if ten else nblocks
            lba = min(max(0, hot + rng.randint(-3, 3)), lim - 1)
        else:
            lim = min(nblocks, 1 << 32) if ten else nblocks
            sv = gen.source_value(rng, 64, hi=lim - 1)  # LBAs the library's code mentions
            if sv is not None:
                lba = sv
            elif rng.random() < 0.3:
                lba = min(rng.getrandbits(rng.randint(1, 41)), lim - 1)  # uniform in magnitude: every interior range of the address space
            else:
                lba = rng.choice(lba_pool(nblocks, ten))
        tl = rng.choice([0, 1, 1, 2, 3, 8, 17, 64])
        sv = gen.source_value(rng, 16, hi=300)
        if sv is not None:
            tl = sv
        elif rng.random() < 0.1:
            tl = rng.randint(0, 300)
        tl = max(0, min(tl, nblocks - lba))
        if kind == "writesame":
            if rng.random() < 0.12:
                tl = rng.choice([255, 256, 65535, 65536, 65537, 70000, 131072]) if width == 16 else rng.choice([255, 256, 4096, 65535])
            tl = max(1, min(tl, nblocks - lba)) if nblocks - lba >= 1 else 0
            if tl == 0:
                continue
        op = {"kind": kind, "width": width, "lba": lba, "tl": tl, "id": i}
        if kind == "write":
            op["kw"] = {"wrprotect": rng.randrange(8), "dpo": rng.getrandbits(1), "fua": rng.getrandbits(1), "group": rng.randrange(32)}
            hot = lba
        elif kind == "read":
            op["kw"] = {"rdprotect": rng.randrange(8), "dpo": rng.getrandbits(1), "fua": rng.getrandbits(1), "rarc": rng.getrandbits(1), "group": rng.randrange(32)}
        elif kind == "writesame":
            op["kw"] = {"wrprotect": rng.randrange(8), "anchor": rng.getrandbits(1), "unmap": rng.getrandbits(1), "group": rng.randrange(32)}
            if width == 16:
                op["kw"]["ndob"] = 1 if rng.random() < 0.25 else 0
            hot = lba
        elif kind == "sync":
            op["kw"] = {"immed": rng.getrandbits(1), "group": rng.randrange(32)}
            op["tl"] = min(tl, 0xFFFF)
        ops.append(op)
    return {"bs": bs, "nblocks": nblocks, "ops": ops, "devtype": rng.choice([0, 0, 4, 7]), "inquiry_length": rng.choice([36, 96, 96, 128, 260]),
            "events": rng.random() < 0.6, "events_seed": rng.getrandbits(32), "symlink": rng.random() < 0.4}


def gen_big(rng, i):
    """one rare, very large single transfer around 16 MiB (the 24-bit boundary of transport length fields) and 32 MiB"""
    bs = (512, 4096)[i % 2]
    total = [(1 << 24) - bs, 1 << 24, (1 << 24) + bs, 1 << 25][(i // 2) % 4]
    tl = total // bs
    nblocks = 1 << 41
    wide = [w for w in (10, 12, 16) if tl <= (0xFFFF if w == 10 else 0xFFFFFFFF)]
    lba = rng.choice([0, 5, (1 << 32) - 7, (1 << 40) + 3])
    ops = []
    for j, kind in enumerate(["write", "read", "read"]):
        w = rng.choice(wide if lba + tl < 1 << 32 else [16])
        op = {"kind": kind, "width": w, "lba": lba, "tl": tl, "id": j}
        op["kw"] = {"group": rng.randrange(32)}
        ops.append(op)
    # and the neighbouring small reads
    ops.append({"kind": "read", "width": 16, "lba": lba + tl - 1, "tl": 2, "id": 3, "kw": {}})
    return {"bs": bs, "nblocks": nblocks, "ops": ops, "devtype": 0, "inquiry_length": 96}


def gen_congruent(rng):
    """the largest logical unit the 16-byte commands can address (2^64 blocks); the same command with the same length and flags
    at LBAs that differ by multiples of 2^61-1 (the modulus of CPython's integer hash) and by powers of two"""
    m61 = (1 << 61) - 1
    bs = rng.choice([512, 4096])
    nblocks = 1 << 64
    base = rng.choice([0, 7, 100, (1 << 32) + 3])
    tl = rng.choice([1, 2, 8])
    lbas = [base + k * m61 for k in range(0, 8)] + [base + (1 << 61), base + (1 << 62), base + (1 << 63), nblocks - tl]
    rng.shuffle(lbas)
    ops = []
    for lba in lbas:
        ops.append({"kind": "write", "width": 16, "lba": lba, "tl": tl, "id": len(ops), "kw": {}})
    for lba in [x for x in lbas if x + 2 * tl <= nblocks][:4]:
        ops.append({"kind": "writesame", "width": 16, "lba": lba + tl, "tl": tl, "id": len(ops), "kw": {}})
    for lba in sorted(lbas):
        ops.append({"kind": "read", "width": 16, "lba": lba, "tl": tl, "id": len(ops), "kw": {}})
        ops.append({"kind": "read", "width": 16, "lba": lba + tl if lba + 2 * tl <= nblocks else lba, "tl": tl, "id": len(ops), "kw": {}})
    ops.append({"kind": "cap", "width": 16, "lba": 0, "tl": 0, "id": len(ops)})
    ops.append({"kind": "cap", "width": 10, "lba": 0, "tl": 0, "id": len(ops)})
    return {"bs": bs, "nblocks": nblocks, "ops": ops, "devtype": 0, "inquiry_length": 96}


def run_tour(ctx, rng, world):
    """one facade object visits 2-5 logical units in turn through s(dev) (both transports, different geometries; some units
    do not implement READ CAPACITY(16), as SBC-2 allows); on every visit capacity, inquiry and a write/read round trip
    must describe the unit being visited"""
    from pyscsi.pyscsi.scsi import SCSI
    from pyscsi.utils import init_device

    from vmon.sim import devnode
    from vmon.sim.target import Target

    units = []
    route = {}

    def dispatch(ev):
        key = ("is", ev["lun"]) if ev.get("transport") == "iscsi" else ("sg", ev["file"].name)
        if key not in route:
            return 2, Target().sense(5, 0x25)  # LOGICAL UNIT NOT SUPPORTED
        return route[key].handle(ev)

    for i in range(rng.randint(2, 5)):
        bs = rng.choice([512, 520, 4096])
        nblocks = rng.choice([1 << 20, (1 << 21) + 5, (1 << 32) + 0x3039, 1 << 41])
        tgt = Target(rng.choice([0, 0, 4, 7] + ([0x0E, 0x14] if i == 0 else [])), 0, bs, nblocks, product=b"UNIT %-11d" % i)
        tgt.inquiry_length = rng.choice([36, 96, 96, 97, 200, 260])
        if rng.random() < 0.4:
            tgt.unsupported = {"ReadCapacity16", "GetLBAStatus"}
        transport = rng.choice(["sgio", "iscsi"])
        if transport == "sgio":
            node = devnode.new_node()
            dev = init_device(node, read_write=True)
            route[("sg", node)] = tgt
        else:
            # the logical units of one array: same portal, target and initiator, different LUNs, all open at the same time
            lun = 300 * i + i
            dev = init_device("iscsi://192.0.2.1:3260/iqn.2003-01.org.example:array/%d" % lun, initiator_name="iqn.2003-01.org.example:me")
            route[("is", lun)] = tgt
        units.append((tgt, transport, dev, {}))
    world["sg"].log = []
    world["is"].log = []
    s = None
    visits = []
    try:
        order = list(range(len(units))) + [rng.randrange(len(units)) for _ in range(rng.randint(1, 6))]
        for step, u in enumerate(order):
            tgt, transport, dev, shadow = units[u]
            world["sg"].handler = world["is"].handler = dispatch
            if s is None and tgt.devtype in (0x0E, 0x14):
                # a block device type the facade has no table for: the user assigns the block command set to the device himself
                import pyscsi.pyscsi.scsi_enum_command as _E

                dev.opcodes = _E.sbc
                ctx.count("tour_units_of_unmapped_block_type")
            visits.append((u, transport, hex(tgt.nblocks), sorted(tgt.unsupported)))
            wit = {"visits": visits[-6:], "unit": u, "transport": transport, "bs": tgt.bs, "nblocks": tgt.nblocks, "unsupported": sorted(tgt.unsupported)}
            try:
                if s is None:
                    s = SCSI(dev, tgt.bs)
                else:
                    s(dev)
                    s.blocksize = tgt.bs
            except Exception as e:  # noqa: BLE001
                ctx.fail("C12:tour.attach_raises.%s" % type(e).__name__, "attaching the facade to unit %d raised %s: %s" % (u, type(e).__name__, e), wit, exc=e)
                continue
            ctx.count("tour_visits")
            for w in rng.sample([10, 16, 16], 2):
                want_lba = tgt.nblocks - 1 if w == 16 else min(tgt.nblocks - 1, 0xFFFFFFFF)
                try:
                    r = getattr(s, "readcapacity%d" % w)().result
                except Exception as e:  # noqa: BLE001
                    if w == 16 and "ReadCapacity16" in tgt.unsupported and type(e).__name__ == "CheckCondition":
                        ctx.count("tour_capacity16_refused_by_unit")
                        continue
                    ctx.fail("C12:tour.readcapacity%d_raises.%s" % (w, type(e).__name__), "READ CAPACITY(%d) on unit %d raised %s: %s" % (w, u, type(e).__name__, str(e)[:100]), wit, exc=e)
                    continue
                ctx.count("tour_capacities_compared")
                if r.get("returned_lba") != want_lba or r.get("block_length") != tgt.bs:
                    ctx.fail("C12:tour.readcapacity%d_result" % w, "READ CAPACITY(%d) on unit %d reports %r, the unit has last lba %#x bs %d (earlier visits: %r)"
                             % (w, u, {k: r.get(k) for k in ("returned_lba", "block_length")}, want_lba, tgt.bs, visits[-4:-1]), wit)
                # the result is the caller's: he turns the last LBA into a block count, clamps it to a quota, empties the dictionary
                if isinstance(r.get("returned_lba"), int):
                    r["returned_lba"] = (r["returned_lba"] + 1) if step % 3 else min(r["returned_lba"], 1000)
                    r["block_length"] = 1
                    if step % 2:
                        r.clear()
            try:
                r = s.inquiry().result
                if bytes(r.get("product_identification", b"")) != tgt.product or r.get("peripheral_device_type") != tgt.devtype:
                    ctx.fail("C12:tour.inquiry_result", "INQUIRY on unit %d reports %r" % (u, bytes(r.get("product_identification", b""))), wit)
                lba = rng.choice([x for x in (0, 3, (1 << 32) - 1, (1 << 32) + 5, tgt.nblocks - 2) if 0 <= x < tgt.nblocks - 1])
                w = 16 if lba >= (1 << 32) - 2 else rng.choice([10, 12, 16])
                data = bytearray(b"".join(payload(step * 100 + u, i, tgt.bs) for i in range(2)))
                getattr(s, "write%d" % w)(lba, 2, data)
                shadow[lba], shadow[lba + 1] = bytes(data[:tgt.bs]), bytes(data[tgt.bs:])
                for pl in list(shadow)[-4:]:
                    meth = getattr(s, "read%d" % (16 if pl >= 1 << 32 else rng.choice([10, 12, 16])))
                    if rng.random() < 0.4:
                        # the read-back of an error path: issued while another exception is being handled (inside an except block,
                        # or in a finally clause during unwinding)
                        ctx.count("reads_inside_exception_handlers")
                        try:
                            try:
                                raise KeyError("journal entry missing")
                            finally:
                                got_f = bytes(meth(pl, 1).datain)
                        except KeyError:
                            got = bytes(meth(pl, 1).datain)
                        if got_f != got:
                            got = got_f if got_f != shadow[pl] else got
                    else:
                        got = bytes(meth(pl, 1).datain)
                    ctx.count("reads_compared")
                    if got != shadow[pl]:
                        ctx.fail("C12:tour.read_returns_wrong_data", "unit %d block %#x holds %r, last written %r" % (u, pl, got[:24], shadow[pl][:24]), wit)
            except Exception as e:  # noqa: BLE001
                ctx.fail("C12:tour.command_rejected.%s" % type(e).__name__, "valid command on unit %d failed: %s: %s" % (u, type(e).__name__, str(e)[:120]), wit, exc=e)
            if tgt.anomalies:
                ctx.fail("C12:tour.target_anomaly", "unit %d: %s" % (u, tgt.anomalies[0]), wit)
                del tgt.anomalies[:]
    finally:
        for tgt, transport, dev, shadow in units:
            try:
                dev.close()
            except Exception:  # noqa: BLE001
                pass
    return visits


def run_prepared(ctx, rng, world):
    """command objects prepared ahead of time for windows of a buffer pool (memoryview slices, arrays, an anonymous mmap, plain
    bytearrays), the pool filled afterwards, the commands issued then -- and one of them issued again after its window was
    updated: what the target stores is what the window held when the command was issued"""
    import array
    import mmap

    import pyscsi.pyscsi.scsi_enum_command as E
    from pyscsi.pyscsi.scsi import SCSI
    from pyscsi.pyscsi.scsi_cdb_write10 import Write10
    from pyscsi.pyscsi.scsi_cdb_write12 import Write12
    from pyscsi.pyscsi.scsi_cdb_write16 import Write16
    from pyscsi.pyscsi.scsi_cdb_writesame16 import WriteSame16
    from pyscsi.utils import init_device

    from vmon.sim import devnode
    from vmon.sim.target import Target

    for transport in ("sgio", "iscsi"):
        bs = rng.choice([512, 520, 4096])
        tgt = Target(0, 0, bs, 1 << 20)
        if transport == "sgio":
            dev = init_device(devnode.new_node(), read_write=True)
            world["sg"].handler = tgt.handle
        else:
            dev = init_device("iscsi://192.0.2.1:3260/iqn.2003-01.org.example:disk/4", initiator_name="iqn.2003-01.org.example:me")
            world["is"].handler = tgt.handle
        world["sg"].log = []
        world["is"].log = []
        try:
            s = SCSI(dev, bs)
            nslots = 6
            kinds = [rng.choice(["memoryview", "memoryview", "array", "mmap", "bytearray", "memoryview_of_mmap"]) for _ in range(nslots)]
            pool = bytearray(nslots * 2 * bs)
            big = mmap.mmap(-1, nslots * 2 * bs)
            prepared = []
            for i, kind in enumerate(kinds):
                tl = rng.choice([1, 2])
                lo = i * 2 * bs
                if kind == "memoryview":
                    win = memoryview(pool)[lo:lo + tl * bs]
                elif kind == "memoryview_of_mmap":
                    win = memoryview(big)[lo:lo + tl * bs]
                elif kind == "array":
                    win = array.array("B", bytes(tl * bs))
                elif kind == "mmap":
                    win = mmap.mmap(-1, tl * bs)
                else:
                    win = bytearray(tl * bs)
                lba = 100 * (i + 1)
                w = rng.choice([10, 12, 16, "same16"])
                if w == "same16":
                    win = win[:bs] if kind != "mmap" else win
                    if kind == "mmap":
                        win = mmap.mmap(-1, bs)
                    cmd = WriteSame16(E.sbc.WRITE_SAME_16, bs, lba, tl, win)
                else:
                    cls = {10: Write10, 12: Write12, 16: Write16}[w]
                    cmd = cls(getattr(E.sbc, "WRITE_%d" % w), bs, lba, tl, win)
                prepared.append((cmd, win, lba, tl, w, kind))
            # the producer fills the windows after the commands were prepared
            def fill(win, gen):
                for j in range(len(win)):
                    win[j] = (gen * 31 + j * 7 + 1) & 0xFF

            wit0 = {"transport": transport, "bs": bs}
            for round_ in range(2):
                for i, (cmd, win, lba, tl, w, kind) in enumerate(prepared):
                    if round_ == 1 and i % 2:
                        continue  # every other command is issued a second time with new contents
                    fill(win, i + 10 * round_ + 1)
                    at_issue = bytes(win)
                    wit = dict(wit0, payload_object=kind, command="write%s" % w, lba=lba, blocks=tl, issued=round_ + 1)
                    ctx.case(("prepared", transport, kind, w, round_), True)
                    ctx.count("prepared_commands_issued")
                    ctx.add("payload_objects", kind)
                    try:
                        if rng.random() < 0.5:
                            dev.execute(cmd)
                        else:
                            s.execute(cmd)
                    except Exception as e:  # noqa: BLE001
                        ctx.fail("C12:prepared.command_rejected.%s" % type(e).__name__, "a prepared WRITE with a %s payload failed over %s: %s: %s" % (kind, transport, type(e).__name__, str(e)[:120]), wit, exc=e)
                        continue
                    want = at_issue if w != "same16" else at_issue[:bs] * tl
                    got = bytes(s.read16(lba, tl).datain)
                    ctx.count("reads_compared")
                    if got != want:
                        ctx.fail("C12:prepared.read_returns_other_data_than_issued", "blocks %#x+%d hold %r..., the %s payload held %r... when the command was issued (over %s, issue %d)"
                                 % (lba, tl, got[:12], kind, want[:12], transport, round_ + 1), wit)
            # an inventory: one prepared READ CAPACITY(16) / READ CAPACITY(10) / INQUIRY object sent again and again while the unit
            # grows (and its product string changes), the caller noting cmd.result after every decode - what was noted about an
            # earlier answer is that answer
            from pyscsi.pyscsi.scsi_cdb_inquiry import Inquiry
            from pyscsi.pyscsi.scsi_cdb_readcapacity10 import ReadCapacity10
            from pyscsi.pyscsi.scsi_cdb_readcapacity16 import ReadCapacity16

            rc16 = ReadCapacity16(next(getattr(E.sbc, k) for k in E.sbc.keys if getattr(E.sbc, k).value == 0x9E), alloclen=32)
            rc10 = ReadCapacity10(E.sbc.READ_CAPACITY_10)
            inq = Inquiry(E.sbc.INQUIRY, alloclen=96)
            noted = []
            sizes = [1 << 20, (1 << 20) + 4096, 3 << 20, (1 << 32) + 17]
            for gen_no, nb in enumerate(sizes):
                tgt.nblocks = nb
                tgt.product = b"GENERATION %-5d" % gen_no
                for cmd, what in ((rc16, "rc16"), (rc10, "rc10"), (inq, "inq")):
                    try:
                        (dev if gen_no % 2 else s).execute(cmd)
                        cmd.unmarshall()
                    except Exception as e:  # noqa: BLE001
                        ctx.fail("C12:prepared.command_rejected.%s" % type(e).__name__, "a prepared %s failed over %s: %s" % (what, transport, str(e)[:120]), wit0, exc=e)
                        continue
                    r = cmd.result
                    if what == "inq":
                        want_now = ("product", bytes(tgt.product))
                        got_now = ("product", bytes(r.get("product_identification", b"")))
                    else:
                        want_now = (min(nb - 1, 0xFFFFFFFF) if what == "rc10" else nb - 1, bs)
                        got_now = (r.get("returned_lba"), r.get("block_length"))
                    ctx.count("prepared_inventory_answers")
                    if got_now != want_now:
                        ctx.fail("C12:prepared.inventory.%s_result" % what, "generation %d over %s: the prepared command reports %r, the unit has %r" % (gen_no, transport, got_now, want_now), wit0)
                    noted.append((what, gen_no, r, want_now))
            for what, gen_no, r, want in noted:
                got = ("product", bytes(r.get("product_identification", b""))) if what == "inq" else (r.get("returned_lba"), r.get("block_length"))
                if got != want:
                    ctx.fail("C12:prepared.inventory.noted_result_changed", "what the caller noted from the %s of generation %d (%r) reads %r after the command was sent again (over %s)" % (what, gen_no, want, got, transport), wit0)
                    break
            tgt.nblocks = 1 << 20
            if tgt.anomalies:
                ctx.fail("C12:prepared.target_anomaly", tgt.anomalies[0], wit0)
            for _c, win, *_r in prepared:
                if isinstance(win, memoryview):
                    win.release()
        finally:
            try:
                dev.close()
            except Exception:  # noqa: BLE001
                pass


def payload(op_id, idx, bs):
    """every written block carries (operation id, block index); every 5th operation writes all-zero blocks and every
    7th all-FF blocks (payload *content* must not matter to the transport)"""
    if op_id % 5 == 4:
        return bytes(bs)
    if op_id % 7 == 6:
        return b"\xff" * bs
    head = b"OP%08d.BLK%06d." % (op_id, idx)
    return (head * (bs // len(head) + 1))[:bs]


def run_history(ctx, hist, transport, world):
    """returns list of per-op observable results"""
    from pyscsi.pyscsi.scsi import SCSI
    from pyscsi.utils import init_device

    from vmon.sim import devnode
    from vmon.sim.target import Target

    bs, nblocks = hist["bs"], hist["nblocks"]
    tgt = Target(hist.get("devtype", 0), 0, bs, nblocks)
    tgt.inquiry_length = hist.get("inquiry_length", 96)
    node = None
    if transport == "sgio":
        # a plain node, or a persistent name (symlink) as under /dev/disk/by-id
        node = devnode.new_node(link=bool(hist.get("symlink")))
        dev = init_device(node, read_write=True)

        def sg_handler(ev):
            import os

            try:
                if os.fstat(ev["file"].fileno()).st_ino != os.stat(node).st_ino:
                    tgt.anomalies.append("the command went through a handle to a node that is no longer the one at the device path")
            except OSError as e:
                tgt.anomalies.append("handle unusable: %s" % e)
            return tgt.handle(ev)

        world["sg"].handler = sg_handler
    else:
        dev = init_device("iscsi://192.0.2.1:3260/iqn.2003-01.org.example:disk/3", initiator_name="iqn.2003-01.org.example:me")
        world["is"].handler = tgt.handle
    world["sg"].log = []  # the stand-ins keep every event (and its buffers) alive: start each history afresh
    world["is"].log = []
    results = []
    shadow = {}
    wit0 = {"transport": transport, "bs": bs, "nblocks": nblocks}
    try:
        if type(dev).__name__ != ("SCSIDevice" if transport == "sgio" else "ISCSIDevice"):
            ctx.fail("C12:init_device_wrong_class", "init_device returned %s" % type(dev).__name__, wit0)
        s = SCSI(dev, bs)
        if name_of_set(dev) != "sbc":
            ctx.fail("C12:attach_not_sbc", "block target attached with %s" % name_of_set(dev), wit0)
        overlap = False
        written = set()
        held = []  # data-in buffers of earlier reads whose command object was dropped: (buffer, content when read)
        erng = __import__("random").Random("c12events:%r:%s" % (hist.get("events_seed", 0), transport))
        for op in hist["ops"]:
            k, w, lba, tl = op["kind"], op["width"], op["lba"], op["tl"]
            wit = dict(wit0, op=op, recent=[o["kind"] + str(o["width"]) for o in hist["ops"][max(0, op["id"] - 5): op["id"]]])
            # events between two commands: the node is re-plugged (SG_IO), the unit queues 1-3 unit attention conditions
            if hist.get("events") and node is not None and erng.random() < 0.04:
                devnode.replug(node)
                ctx.count("replugs_in_histories")
                wit["node_replaced_before"] = True
            pending_ua = 0
            if hist.get("events") and erng.random() < 0.06:
                pending_ua = erng.choice([1, 2, 2, 3])
                for i in range(pending_ua):
                    tgt.faults[tgt.n + i] = (2, tgt.sense(6, erng.choice([0x29, 0x2A, 0x28, 0x3F]), i))
                ctx.count("unit_attentions_queued", pending_ua)
                wit["unit_attentions_queued"] = pending_ua
            seen_ua = 0
            while pending_ua and seen_ua < pending_ua:
                # the application's part: a command answered with UNIT ATTENTION is issued again
                try:
                    s.testunitready() if k in ("cap", "inq", "sync") else getattr(s, "read16" if lba >= 1 << 32 else "read10")(min(lba, nblocks - 1), 0)
                    break  # came back without error although the unit still had a unit attention to report
                except Exception as e:  # noqa: BLE001
                    if type(e).__name__ == "CheckCondition" and e.data.get("sense_key") == 6:
                        seen_ua += 1
                        continue
                    ctx.fail("C12:unit_attention_reported_as.%s" % type(e).__name__, "a queued UNIT ATTENTION surfaced as %s: %s" % (type(e).__name__, str(e)[:80]), wit, exc=e)
                    seen_ua = pending_ua
            if pending_ua and seen_ua < pending_ua:
                ctx.fail("C12:unit_attention_swallowed", "the unit answered CHECK CONDITION / UNIT ATTENTION %d times, the caller saw %d of them: a command came back as if it had been carried out"
                         % (pending_ua, seen_ua), wit)
                for i in list(tgt.faults):
                    del tgt.faults[i]
            n_before = tgt.n
            try:
                if k == "write":
                    data = bytearray(b"".join(payload(op["id"], i, bs) for i in range(tl)))
                    getattr(s, "write%d" % w)(lba, tl, data, **op["kw"])
                    for i in range(tl):
                        shadow[lba + i] = payload(op["id"], i, bs)
                        written.add(lba + i)
                    results.append(("write", lba, tl))
                elif k == "writesame":
                    ndob = op["kw"].get("ndob", 0)
                    block = bytearray(payload(op["id"], 0, bs))
                    getattr(s, "writesame%d" % w)(lba, tl, None if ndob and op["id"] % 2 else block, **op["kw"])
                    blk = bytes(bs) if ndob else bytes(block)  # one object for the whole run
                    for i in range(tl):
                        shadow[lba + i] = blk
                        written.add(lba + i)
                    results.append(("writesame", lba, tl, ndob))
                    if tl > 64:
                        # probe both ends of a long run right away (16-byte reads work for every LBA)
                        for pl in (lba, lba + tl - 1, lba + tl):
                            if pl < nblocks:
                                got = bytes(s.read16(pl, 1).datain)
                                want = shadow.get(pl, bytes(bs))
                                ctx.count("reads_compared")
                                if got != want:
                                    ctx.fail("C12:writesame%d_long_run_boundary" % w, "after WRITE SAME(%d) lba=%#x nb=%d block %#x holds %r, expected %r"
                                             % (w, lba, tl, pl, got[:24], want[:24]), wit)
                        n_before = tgt.n - 1
                elif k == "read":
                    cmd = getattr(s, "read%d" % w)(lba, tl, **op["kw"])
                    got = bytes(cmd.datain)
                    want = b"".join(shadow.get(lba + i, bytes(bs)) for i in range(tl))
                    if any((lba + i) in written for i in range(tl)):
                        overlap = True
                    if got != want:
                        bad = next((i for i in range(tl) if got[i * bs:(i + 1) * bs] != want[i * bs:(i + 1) * bs]), None)
                        ctx.fail("C12:read%d_returns_wrong_data" % w, "READ(%d) lba=%#x tl=%d: block %s holds %r, last written %r"
                                 % (w, lba, tl, bad, got[(bad or 0) * bs:(bad or 0) * bs + 24], want[(bad or 0) * bs:(bad or 0) * bs + 24]), wit)
                    results.append(("read", lba, tl, hash(got)))
                    ctx.count("reads_compared")
                    held.append((cmd.datain, got))
                    del cmd
                    if len(held) > 6:
                        held.pop(0)
                elif k == "sync":
                    getattr(s, "synchronizecache%d" % w)(lba, op["tl"], **op["kw"])
                    results.append(("sync",))
                elif k == "cap":
                    r = getattr(s, "readcapacity%d" % w)().result
                    want_lba = nblocks - 1 if w == 16 else min(nblocks - 1, 0xFFFFFFFF)
                    if r.get("returned_lba") != want_lba or r.get("block_length") != bs:
                        ctx.fail("C12:readcapacity%d_result" % w, "READ CAPACITY(%d) reports %r, target has last lba %#x bs %d" % (w, r, want_lba, bs), wit)
                    results.append(("cap", r.get("returned_lba"), r.get("block_length")))
                elif k == "inq":
                    r = s.inquiry().result
                    if (r.get("peripheral_device_type") != tgt.devtype or bytes(r.get("t10_vendor_identification", b"")) != tgt.vendor
                            or bytes(r.get("product_identification", b"")) != tgt.product or bytes(r.get("product_revision_level", b"")) != tgt.rev):
                        ctx.fail("C12:inquiry_result", "INQUIRY reports %r" % {k2: r.get(k2) for k2 in ("peripheral_device_type", "t10_vendor_identification")}, wit)
                    results.append(("inq",))
            except Exception as e:  # noqa: BLE001
                ctx.fail("C12:%s%d_rejected.%s" % (k, w, type(e).__name__), "valid %s(%d) lba=%#x tl=%d failed: %s: %s" % (k, w, lba, tl, type(e).__name__, str(e)[:120]), wit, exc=e)
                results.append(("error", type(e).__name__))
            if tgt.anomalies:
                ctx.fail("C12:target_anomaly.%s%d" % (k, w), "target: %s" % tgt.anomalies[0], wit)
                del tgt.anomalies[:]
            for buf, content in held:
                if bytes(buf) != content:
                    ctx.fail("C12:earlier_read_data_changed", "data returned by an earlier READ changed when a later command (%s%d) ran" % (k, w), wit)
                    del held[:]
                    break
            ctx.count("held_buffers_rechecked", len(held))
            if tgt.n - n_before != 1:
                ctx.fail("C12:commands_per_call_%d" % (tgt.n - n_before), "%s(%d) reached the target %d times" % (k, w, tgt.n - n_before), wit)
            ctx.count("commands")
        return results, overlap
    finally:
        try:
            dev.close()
        except Exception:  # noqa: BLE001
            pass


def name_of_set(dev):
    import pyscsi.pyscsi.scsi_enum_command as E

    for n in ("spc", "sbc", "ssc", "smc", "mmc"):
        if dev.opcodes is getattr(E, n):
            return n
    return "?"


def run(shard, ctx):
    import sys

    from vmon.sim import install

    install.install_fakes()
    world = {"sg": sys.modules["sgio"], "is": sys.modules["iscsi"]}
    rng = ctx.rng()
    if shard.get("kind") == "prepared":
        for h in range(shard["n"]):
            run_prepared(ctx, rng, world)
        return
    if shard.get("kind") == "tour":
        for h in range(shard["n"]):
            visits = run_tour(ctx, rng, world)
            ctx.case(("tour", repr(visits)), len(visits) > 2, sample={"tour": visits[:6]} if ctx.want_sample() else None)
            ctx.count("tours")
        return
    for h in range(shard["n"]):
        hist = gen_big(rng, shard["i"] + 8 * h) if shard.get("kind") == "big" else gen_congruent(rng) if shard.get("kind") == "congruent" else gen_history(rng)
        if shard.get("kind") == "congruent":
            ctx.count("congruent_lba_histories")
        if shard.get("kind") == "big":
            ctx.add("big_transfer_bytes", hist["ops"][0]["tl"] * hist["bs"])
        r1, ov1 = run_history(ctx, hist, "sgio", world)
        r2, ov2 = run_history(ctx, hist, "iscsi", world)
        ctx.case(repr(hist), ov1, sample={"bs": hist["bs"], "nblocks": hist["nblocks"], "ops": [(o["kind"], o["width"], hex(o["lba"]), o["tl"]) for o in hist["ops"][:10]]} if ctx.want_sample() else None)
        ctx.count("histories")
        ctx.add("block_sizes", hist["bs"])
        for o in hist["ops"]:
            ctx.add("op_kinds", "%s%d" % (o["kind"], o["width"]))
            if o["lba"] >= 1 << 32:
                ctx.count("ops_above_2^32")
        if r1 != r2:
            i = next((i for i, (a, b) in enumerate(zip(r1, r2)) if a != b), None)
            ctx.fail("C12:transports_differ", "same history gives different results on SG_IO and iSCSI at step %r: %r vs %r"
                     % (i, r1[i] if i is not None else None, r2[i] if i is not None else None), {"history": hist})


def finalize(merged, tier):
    c = merged["counters"]
    if c.get("reads_compared", 0) == 0:
        merged["inconclusive"].append("no read was compared with the shadow disk")
    if c.get("tour_capacities_compared", 0) == 0 or c.get("tour_capacity16_refused_by_unit", 0) == 0:
        merged["inconclusive"].append("the facade tour never compared a capacity / never met a unit without READ CAPACITY(16)")
    return {}


def replay(rec, ctx):
    sh = rec.get("shard") or "h0"
    kind = "prepared" if sh.startswith("prepared") else "tour" if sh.startswith("tour") else "big" if sh.startswith("big") else "congruent" if sh.startswith("congruent") else "hist"
    run({"id": sh, "kind": kind, "n": 13 if kind == "hist" else 12 if kind == "tour" else 1, "i": int(sh[3:]) if kind == "big" else 0}, ctx)
