"""C12 - data written through the library is read back intact from a conformant target."""
LEVEL = "exploration"
RULE = (
    "histories of 20-200 facade commands mixing WRITE(10/12/16), WRITE SAME(10/16 incl. NDOB), READ(10/12/16), SYNCHRONIZE "
    "CACHE(10/16), READ CAPACITY(10/16), INQUIRY; LBAs from a few hot blocks plus the neighbourhoods of 2^16, 2^31, 2^32, 2^40 "
    "and the last LBA; block sizes {512,520,4096}; transfer lengths 0..64; all protect/DPO/FUA/RARC/group/anchor/unmap values; "
    "capacities 2^20 and 2^41 blocks.  Each history runs over init_device('/dev/...') with fake sgio and over "
    "init_device('iscsi://...') with fake iscsi against a target that decodes CDBs with the reference only and validates "
    "strictly.  Oracle: the driver's shadow disk (updated from the caller's intent; every written block carries operation id "
    "and block index) vs cmd.datain of reads; capacity/inquiry results vs the target configuration; no target anomaly; both "
    "transports produce identical results.  distinct = hash(history); non-trivial = >=1 write followed by an overlapping read"
)
ASSUMPTIONS = ["vmon/sim/target.py (reference-decoding, strict) and the binding stand-ins are the trusted base",
               "WRITE SAME with UNMAP/ANCHOR is modelled as a plain repeated write; NDOB writes zero blocks"]


def shards(tier, seed):
    n = 16
    per = 13 if tier == "quick" else 1250
    return [{"id": "h%d" % i, "n": per} for i in range(n)]


def lba_pool(nblocks, ten):
    pool = [0, 1, 2, 3, 7, 100]
    for c in (1 << 16, 1 << 31, 1 << 32, 1 << 40, nblocks):
        pool += [c - 65, c - 2, c - 1, c, c + 1]
    lim = min(nblocks, 1 << 32) if ten else nblocks
    return sorted({x for x in pool if 0 <= x < lim})


def gen_history(rng):
    bs = rng.choice([512, 520, 4096])
    nblocks = rng.choice([1 << 20, 1 << 41])
    n = rng.randint(20, 200)
    ops = []
    hot = None
    for i in range(n):
        kind = rng.choices(["write", "writesame", "read", "sync", "cap", "inq"], [30, 12, 40, 6, 6, 3])[0]
        width = rng.choice([10, 12, 16]) if kind in ("write", "read") else rng.choice([10, 16])
        ten = width in (10, 12)
        if hot is not None and rng.random() < 0.55:
            lim = min(nblocks, 1 << 32) if ten else nblocks
            lba = min(max(0, hot + rng.randint(-3, 3)), lim - 1)
        else:
            lba = rng.choice(lba_pool(nblocks, ten))
        tl = rng.choice([0, 1, 1, 2, 3, 8, 17, 64])
        tl = max(0, min(tl, nblocks - lba))
        if kind == "writesame":
            if rng.random() < 0.12:
                tl = rng.choice([255, 256, 65535, 65536, 65537, 70000, 131072]) if width == 16 else rng.choice([255, 256, 4096, 65535])
            tl = max(1, min(tl, nblocks - lba)) if nblocks - lba >= 1 else 0
            if tl == 0:
                continue
        op = {"kind": kind, "width": width, "lba": lba, "tl": tl, "id": i}
        if kind == "write":
            op["kw"] = {"wrprotect": rng.randrange(8), "dpo": rng.getrandbits(1), "fua": rng.getrandbits(1), "group": rng.randrange(32)}
            hot = lba
        elif kind == "read":
            op["kw"] = {"rdprotect": rng.randrange(8), "dpo": rng.getrandbits(1), "fua": rng.getrandbits(1), "rarc": rng.getrandbits(1), "group": rng.randrange(32)}
        elif kind == "writesame":
            op["kw"] = {"wrprotect": rng.randrange(8), "anchor": rng.getrandbits(1), "unmap": rng.getrandbits(1), "group": rng.randrange(32)}
            if width == 16:
                op["kw"]["ndob"] = 1 if rng.random() < 0.25 else 0
            hot = lba
        elif kind == "sync":
            op["kw"] = {"immed": rng.getrandbits(1), "group": rng.randrange(32)}
            op["tl"] = min(tl, 0xFFFF)
        ops.append(op)
    return {"bs": bs, "nblocks": nblocks, "ops": ops, "devtype": rng.choice([0, 0, 4, 7]), "inquiry_length": rng.choice([36, 96, 96])}


def payload(op_id, idx, bs):
    """every written block carries (operation id, block index); every 5th operation writes all-zero blocks and every
    7th all-FF blocks (payload *content* must not matter to the transport)"""
    if op_id % 5 == 4:
        return bytes(bs)
    if op_id % 7 == 6:
        return b"\xff" * bs
    head = b"OP%08d.BLK%06d." % (op_id, idx)
    return (head * (bs // len(head) + 1))[:bs]


def run_history(ctx, hist, transport, world):
    """returns list of per-op observable results"""
    from pyscsi.pyscsi.scsi import SCSI
    from pyscsi.utils import init_device

    from vmon.sim import devnode
    from vmon.sim.target import Target

    bs, nblocks = hist["bs"], hist["nblocks"]
    tgt = Target(hist.get("devtype", 0), 0, bs, nblocks)
    tgt.inquiry_length = hist.get("inquiry_length", 96)
    if transport == "sgio":
        node = devnode.new_node()
        dev = init_device(node, read_write=True)
        world["sg"].handler = tgt.handle
    else:
        dev = init_device("iscsi://192.0.2.1:3260/iqn.2003-01.org.example:disk/3", initiator_name="iqn.2003-01.org.example:me")
        world["is"].handler = tgt.handle
    world["sg"].log = []  # the stand-ins keep every event (and its buffers) alive: start each history afresh
    world["is"].log = []
    results = []
    shadow = {}
    wit0 = {"transport": transport, "bs": bs, "nblocks": nblocks}
    try:
        if type(dev).__name__ != ("SCSIDevice" if transport == "sgio" else "ISCSIDevice"):
            ctx.fail("C12:init_device_wrong_class", "init_device returned %s" % type(dev).__name__, wit0)
        s = SCSI(dev, bs)
        if name_of_set(dev) != "sbc":
            ctx.fail("C12:attach_not_sbc", "block target attached with %s" % name_of_set(dev), wit0)
        overlap = False
        written = set()
        held = []  # data-in buffers of earlier reads whose command object was dropped: (buffer, content when read)
        for op in hist["ops"]:
            k, w, lba, tl = op["kind"], op["width"], op["lba"], op["tl"]
            wit = dict(wit0, op=op, recent=[o["kind"] + str(o["width"]) for o in hist["ops"][max(0, op["id"] - 5): op["id"]]])
            n_before = tgt.n
            try:
                if k == "write":
                    data = bytearray(b"".join(payload(op["id"], i, bs) for i in range(tl)))
                    getattr(s, "write%d" % w)(lba, tl, data, **op["kw"])
                    for i in range(tl):
                        shadow[lba + i] = payload(op["id"], i, bs)
                        written.add(lba + i)
                    results.append(("write", lba, tl))
                elif k == "writesame":
                    ndob = op["kw"].get("ndob", 0)
                    block = bytearray(payload(op["id"], 0, bs))
                    getattr(s, "writesame%d" % w)(lba, tl, None if ndob and op["id"] % 2 else block, **op["kw"])
                    blk = bytes(bs) if ndob else bytes(block)  # one object for the whole run
                    for i in range(tl):
                        shadow[lba + i] = blk
                        written.add(lba + i)
                    results.append(("writesame", lba, tl, ndob))
                    if tl > 64:
                        # probe both ends of a long run right away (16-byte reads work for every LBA)
                        for pl in (lba, lba + tl - 1, lba + tl):
                            if pl < nblocks:
                                got = bytes(s.read16(pl, 1).datain)
                                want = shadow.get(pl, bytes(bs))
                                ctx.count("reads_compared")
                                if got != want:
                                    ctx.fail("C12:writesame%d_long_run_boundary" % w, "after WRITE SAME(%d) lba=%#x nb=%d block %#x holds %r, expected %r"
                                             % (w, lba, tl, pl, got[:24], want[:24]), wit)
                        n_before = tgt.n - 1
                elif k == "read":
                    cmd = getattr(s, "read%d" % w)(lba, tl, **op["kw"])
                    got = bytes(cmd.datain)
                    want = b"".join(shadow.get(lba + i, bytes(bs)) for i in range(tl))
                    if any((lba + i) in written for i in range(tl)):
                        overlap = True
                    if got != want:
                        bad = next((i for i in range(tl) if got[i * bs:(i + 1) * bs] != want[i * bs:(i + 1) * bs]), None)
                        ctx.fail("C12:read%d_returns_wrong_data" % w, "READ(%d) lba=%#x tl=%d: block %s holds %r, last written %r"
                                 % (w, lba, tl, bad, got[(bad or 0) * bs:(bad or 0) * bs + 24], want[(bad or 0) * bs:(bad or 0) * bs + 24]), wit)
                    results.append(("read", lba, tl, hash(got)))
                    ctx.count("reads_compared")
                    held.append((cmd.datain, got))
                    del cmd
                    if len(held) > 6:
                        held.pop(0)
                elif k == "sync":
                    getattr(s, "synchronizecache%d" % w)(lba, op["tl"], **op["kw"])
                    results.append(("sync",))
                elif k == "cap":
                    r = getattr(s, "readcapacity%d" % w)().result
                    want_lba = nblocks - 1 if w == 16 else min(nblocks - 1, 0xFFFFFFFF)
                    if r.get("returned_lba") != want_lba or r.get("block_length") != bs:
                        ctx.fail("C12:readcapacity%d_result" % w, "READ CAPACITY(%d) reports %r, target has last lba %#x bs %d" % (w, r, want_lba, bs), wit)
                    results.append(("cap", r.get("returned_lba"), r.get("block_length")))
                elif k == "inq":
                    r = s.inquiry().result
                    if (r.get("peripheral_device_type") != tgt.devtype or bytes(r.get("t10_vendor_identification", b"")) != tgt.vendor
                            or bytes(r.get("product_identification", b"")) != tgt.product or bytes(r.get("product_revision_level", b"")) != tgt.rev):
                        ctx.fail("C12:inquiry_result", "INQUIRY reports %r" % {k2: r.get(k2) for k2 in ("peripheral_device_type", "t10_vendor_identification")}, wit)
                    results.append(("inq",))
            except Exception as e:  # noqa: BLE001
                ctx.fail("C12:%s%d_rejected.%s" % (k, w, type(e).__name__), "valid %s(%d) lba=%#x tl=%d failed: %s: %s" % (k, w, lba, tl, type(e).__name__, str(e)[:120]), wit, exc=e)
                results.append(("error", type(e).__name__))
            if tgt.anomalies:
                ctx.fail("C12:target_anomaly.%s%d" % (k, w), "target: %s" % tgt.anomalies[0], wit)
                del tgt.anomalies[:]
            for buf, content in held:
                if bytes(buf) != content:
                    ctx.fail("C12:earlier_read_data_changed", "data returned by an earlier READ changed when a later command (%s%d) ran" % (k, w), wit)
                    del held[:]
                    break
            ctx.count("held_buffers_rechecked", len(held))
            if tgt.n - n_before != 1:
                ctx.fail("C12:commands_per_call_%d" % (tgt.n - n_before), "%s(%d) reached the target %d times" % (k, w, tgt.n - n_before), wit)
            ctx.count("commands")
        return results, overlap
    finally:
        try:
            dev.close()
        except Exception:  # noqa: BLE001
            pass


def name_of_set(dev):
    import pyscsi.pyscsi.scsi_enum_command as E

    for n in ("spc", "sbc", "ssc", "smc", "mmc"):
        if dev.opcodes is getattr(E, n):
            return n
    return "?"


def run(shard, ctx):
    import sys

    from vmon.sim import install

    install.install_fakes()
    world = {"sg": sys.modules["sgio"], "is": sys.modules["iscsi"]}
    rng = ctx.rng()
    for h in range(shard["n"]):
        hist = gen_history(rng)
        r1, ov1 = run_history(ctx, hist, "sgio", world)
        r2, ov2 = run_history(ctx, hist, "iscsi", world)
        ctx.case(repr(hist), ov1, sample={"bs": hist["bs"], "nblocks": hist["nblocks"], "ops": [(o["kind"], o["width"], hex(o["lba"]), o["tl"]) for o in hist["ops"][:10]]} if ctx.want_sample() else None)
        ctx.count("histories")
        ctx.add("block_sizes", hist["bs"])
        for o in hist["ops"]:
            ctx.add("op_kinds", "%s%d" % (o["kind"], o["width"]))
            if o["lba"] >= 1 << 32:
                ctx.count("ops_above_2^32")
        if r1 != r2:
            i = next((i for i, (a, b) in enumerate(zip(r1, r2)) if a != b), None)
            ctx.fail("C12:transports_differ", "same history gives different results on SG_IO and iSCSI at step %r: %r vs %r"
                     % (i, r1[i] if i is not None else None, r2[i] if i is not None else None), {"history": hist})


def finalize(merged, tier):
    c = merged["counters"]
    if c.get("reads_compared", 0) == 0:
        merged["inconclusive"].append("no read was compared with the shadow disk")
    return {}


def replay(rec, ctx):
    run({"id": rec.get("shard") or "h0", "n": 13}, ctx)
