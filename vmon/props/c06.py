"""C06 - parameter data survives a build/parse round trip and read-modify-write."""
LEVEL = "exploration"
RULE = (
    "structures with both directions (standard INQUIRY, VPD 80/83/86/B2/B3 incl. 15 designator kinds, mode parameter lists "
    "6/10 x 4 pages, READ CAPACITY 10/16, GET LBA STATUS, REPORT LUNS, REPORT TARGET PORT GROUPS, READ ELEMENT STATUS, "
    "TransportIDs x 7 kinds): (1) dictionaries in the vocabulary the library's own parser returns -> marshall -> unmarshall "
    "must contain the original values; (2) canonical reference-encoded responses -> unmarshall -> marshall must be byte "
    "identical; (3) read-modify-write: one field of unmarshall(b) changed, the re-marshalled bytes may differ from b only "
    "inside that field's reference bit set.  Field values from boundary sets and seeded random trees, 0..3+ descriptors.  "
    "distinct = hash(structure, step, bytes/dictionary); non-trivial = >=1 non-zero field"
)
ASSUMPTIONS = [
    "canonical byte strings come from the C04 reference encoders (exact lengths, reserved bits zero, no block descriptors, one mode page, 4-byte element descriptor tail as the builder documents)",
]


def subclass_with_own_table(ctx, f, rng):
    """an application's subclass of a response class that extends the class's field table (a second name for the bits of an
    existing field, as a site-specific alias): the subclass's parser works with the subclass's table -- wherever the original
    field is reported, the added one is, with the same value"""
    cls = f.lib_cls()
    table = getattr(cls, "_datain_bits", None)
    if not isinstance(table, dict) or not table:
        return
    key = sorted(table)[0]
    Sub = type("Site" + cls.__name__, (cls,), {"_datain_bits": dict(table, site_alias=table[key])})
    v = f.gen(rng)
    b = f.encode(v)
    ctx.case((f.name, "subclass-table"), True)
    ctx.count("subclass_table_decodes")
    try:
        kw = f.decode_kwargs(v)
        base = cls.unmarshall_datain(bytearray(b), **kw)
        sub = Sub.unmarshall_datain(bytearray(b), **kw)
    except Exception as e:  # noqa: BLE001
        ctx.fail("C06:%s.subclass_table_raises.%s" % (f.name, type(e).__name__), "decoding with a subclass that adds an alias for %r raised %s" % (key, e), {"format": f.name}, exc=e)
        return

    def values_of(x, name, out):
        if isinstance(x, dict):
            for k, y in x.items():
                if k == name:
                    out.append(repr(y))
                values_of(y, name, out)
        elif isinstance(x, (list, tuple)):
            for y in x:
                values_of(y, name, out)
        return out

    orig, alias = values_of(base, key, []), values_of(sub, "site_alias", [])
    if orig and alias != orig:
        ctx.fail("C06:%s.subclass_table_ignored_by_parser" % f.name, "a subclass whose field table has an alias for %r: the parser reports the alias %d times (%s...), the field itself %d times"
                 % (key, len(alias), alias[:2], len(orig)), {"format": f.name})


def lists_as_other_iterables(ctx, f, d, built, rng, wit):
    """the lists of a dictionary handed over as tuples or as one-shot iterables (generator, iter(), map()): a builder that accepts
    them builds the same bytes as from lists; one that needs a real list refuses -- it does not silently build something else"""
    import copy

    def convert(x, how, depth=0):
        if isinstance(x, dict):
            return {k: convert(v, how, depth + 1) for k, v in x.items()}
        if isinstance(x, list) and x and all(isinstance(e, dict) for e in x):
            inner = [convert(e, how, depth + 1) for e in x]
            found[0] += 1
            if how == "tuple":
                return tuple(inner)
            if how == "iter":
                return iter(inner)
            if how == "map":
                return map(lambda e: e, inner)
            return (e for e in inner)
        return x

    how = rng.choice(["tuple", "iter", "generator", "map"])
    found = [0]
    d2 = convert(copy.deepcopy(d), how)
    if not found[0]:
        return
    ctx.count("builds_from_other_iterables")
    try:
        got = bytes(f.lib_build(d2))
    except Exception:  # noqa: BLE001
        ctx.count("other_iterables_refused")
        return
    if got != bytes(built):
        ctx.fail("C06:%s.lists_given_as_%s_build_other_bytes" % (f.name, how), "%s: descriptor lists given as %s build %d bytes that differ from the %d bytes built from lists (first difference at %d)"
                 % (f.name, how, len(got), len(built), next((i for i in range(min(len(got), len(built))) if got[i] != built[i]), min(len(got), len(built)))), wit)


def shards(tier, seed):
    from vmon.spec import datain as D

    out = [{"id": n, "fmt": n, "n": 120 if tier == "quick" else 5000, "small": tier == "quick"} for n, f in D.FORMATS.items() if f.builder]
    out.append({"id": "designators", "fmt": None, "n": 60 if tier == "quick" else 3000, "small": tier == "quick"})
    out.append({"id": "transportids", "fmt": None, "n": 60 if tier == "quick" else 3000, "small": tier == "quick"})
    # ... and in an interpreter whose locale is not UTF-8 (names are UTF-8 on the wire wherever the program runs)
    out.append({"id": "transportids@C-locale", "fmt": None, "n": 60 if tier == "quick" else 1000, "small": tier == "quick",
                "env": {"LC_ALL": "C", "LANG": "C", "PYTHONCOERCECLOCALE": "0", "PYTHONUTF8": "0"}})
    return out


def modes(f, shard):
    from vmon.spec import datain as D

    if hasattr(f, "walk_modes"):
        for m in f.walk_modes(small=shard["small"]):
            if f.name.startswith("modesense") and (m[3] if m[0] == "page" else m[2]) != 0:
                continue  # the library's dictionaries have no place for block descriptors
            yield m
    if f.name in ("getlbastatus", "reportluns", "reporttargetportgroups", "readelementstatus", "inquiry.vpd83"):
        for n in (0, 1, 2, 3, 5, 15, 16, 17, 31, 32, 33, 255, 256, 257, 511, 512, 513, 1024):
            if n > 33 and f.name == "readelementstatus":
                continue
            if n > 257 and f.name not in ("reportluns", "getlbastatus"):
                continue
            yield ("count", n, 0) if f.name == "reporttargetportgroups" else ("count", n)
            if f.name == "reporttargetportgroups":
                yield ("count", n, 1)
    if f.name == "inquiry.vpd83":
        for k in D.DESIGNATOR_KINDS:
            for _ in range(3 if shard["small"] else 30):
                yield ("kind", k)
    for _ in range(shard["n"]):
        yield "rand"


def canonical(f, v):
    """force the canonical shape the builder documents"""
    if f.name.startswith("modesense"):
        v["_block_descriptors"] = []
        # pages without a field table cannot be built by the library (it raises): outside "structures with both directions"
        v["mode_pages"] = [p for p in v["mode_pages"] if "_raw" not in p]
        if "longlba" in v:
            v["longlba"] = 0
    if f.name == "inquiry.standard":
        # any legal ADDITIONAL LENGTH; the canonical response is what a 96-byte allocation holds afterwards (see pad())
        pass
    if getattr(f, "SHORT_REVISIONS", None) and f.name != "inquiry.standard":
        v.pop("_total", None)  # the builder writes the page at the full length of the current revision
    if f.name == "readelementstatus":
        for p in v["element_status_pages"]:
            p["_tail"] = 4
        # the builder derives num_elements from nothing: keep the header value as generated
    return v


def rmw_sites(f, v, b):
    """[(path tuple into the library dict, frozenset(absolute bit numbers), width)]"""
    from vmon.spec import datain as D

    out = []

    def st_sites(st, prefix, base, skip=()):
        for name, byte, a, w in st.fields:
            if a == "b" or name in skip or name.startswith("_"):
                continue
            out.append((prefix + (name,), frozenset(st.bits_of(name, base)), w))

    if isinstance(f, D.StructFormat):
        st_sites(f.st, (), 0, skip=("additional_length",))
    elif isinstance(f, D.VpdStruct):
        st_sites(f.body, (), 0)
    elif isinstance(f, D.ModeSense):
        base = 8 if f.ten else 4
        for i, p in enumerate(v["mode_pages"]):
            key = (p["page_code"], p.get("sub_page_code") if p["spf"] else None)
            st_sites(D.MODE_PAGES[key], ("mode_pages", i), base)
            base += D.MODE_PAGES[key].size
        hdr = D.MODE_HDR10 if f.ten else D.MODE_HDR6
        st_sites(hdr, (), 0, skip=("mode_data_length", "block_descriptor_length", "longlba"))
    elif f.name == "getlbastatus":
        for i in range(len(v["lbas"])):
            st_sites(f.D, ("lbas", i), 8 + 16 * i)
    elif f.name == "reporttargetportgroups":
        off = 8 if v["format_type"] else 4
        for i, d in enumerate(v["target_port_group_descriptors"]):
            st_sites(f.D, ("target_port_group_descriptors", i), off, skip=("target_port_count",))
            off += 8 + 4 * d["target_port_count"]
    elif f.name == "readelementstatus":
        off = 8
        for i, p in enumerate(v["element_status_pages"]):
            off += 8
            for j, d in enumerate(p["element_descriptors"]):
                st_sites(f.BYTYPE[p["element_type"]], ("element_status_pages", i, "element_descriptors", j), off)
                off += f.desc_len(p)
    return out


HELD = []


def scribble_all(x):
    """like scribble(), and integer leaves too (a caller editing the result it was given)"""
    n = scribble(x)
    if isinstance(x, dict):
        for k, v in list(x.items()):
            if isinstance(v, int) and not isinstance(v, bool):
                x[k] = v ^ 1
                n += 1
            elif isinstance(v, (dict, list)):
                n += scribble_all(v)
    elif isinstance(x, list):
        for v in x:
            if isinstance(v, (dict, list)):
                n += scribble_all(v)
    return n


def break_dictionary(d, rng):
    """a copy of d that a builder is likely to reject part-way: a nested key removed, or a value of the wrong kind"""
    import copy

    d = copy.deepcopy(d)
    spots = []

    def walk(x):
        if isinstance(x, dict):
            for k, v in x.items():
                spots.append((x, k))
                walk(v)
        elif isinstance(x, list):
            for v in x:
                walk(v)

    walk(d)
    if not spots:
        return None
    for _ in range(rng.choice([1, 1, 2])):
        holder, k = rng.choice(spots)
        if k not in holder:
            continue
        how = rng.choice(["delete", "none", "text", "object"])
        if how == "delete":
            del holder[k]
        else:
            holder[k] = {"none": None, "text": "not a number", "object": object()}[how]
    return d


def rejected_builds_in_between(ctx, f, d, rng, wit):
    """builds that the library rejects part-way (a group without its ports, a value that is no number) leave nothing behind
    for the next, valid build"""
    import copy

    try:
        want = bytes(f.lib_build(copy.deepcopy(d)))
    except Exception:  # noqa: BLE001
        return
    rejected = 0
    for _ in range(3):
        bad = break_dictionary(d, rng)
        if bad is None:
            return
        try:
            f.lib_build(bad)
        except Exception:  # noqa: BLE001
            rejected += 1
    if not rejected:
        return
    ctx.count("valid_builds_after_rejected_ones")
    try:
        got = bytes(f.lib_build(copy.deepcopy(d)))
    except Exception as e:  # noqa: BLE001
        ctx.fail("C06:%s.build_after_rejected_build_raises.%s" % (f.name, type(e).__name__), "a valid build raised after %d rejected ones" % rejected, wit, exc=e)
        return
    if got != want:
        ctx.fail("C06:%s.build_depends_on_rejected_build" % f.name, "%s: the same valid dictionary builds %s... after %d rejected builds, %s... before (%s)"
                 % (f.name, got[:16].hex(), rejected, want[:16].hex(), diff_hex(got, want)), wit)


def resized_designator(ctx, f, v, b, rng, wit):
    """read the page, give one designator another size (a longer vendor-specific id, another name string), write it back, read
    it again: exactly that designator changed"""
    import copy

    from vmon.spec import datain as D

    try:
        parsed = f.lib_decode(b, v)
    except Exception:  # noqa: BLE001
        return
    descs = parsed.get("designator_descriptors") or []
    idx = [i for i, x in enumerate(descs) if x.get("designator_type") in (0, 1, 8)]
    if not idx:
        return
    i = rng.choice(idx)
    kind = {0: "vendor", 1: "t10", 8: "name"}[descs[i]["designator_type"]]
    for _ in range(6):
        dtype, new = D.gen_designator(rng, kind)
        if len(D.encode_designator(dtype, new)) != len(D.encode_designator(dtype, descs[i]["designator"])):
            break
    else:
        return
    want = [copy.deepcopy(x["designator"]) for x in descs]
    want[i] = new
    descs[i]["designator"] = copy.deepcopy(new)  # every other key (also the stale designator_length) as the parser returned it
    ctx.count("designators_resized")
    try:
        back = f.lib_decode(f.lib_build(parsed), v)
    except Exception as e:  # noqa: BLE001
        ctx.fail("C06:inquiry.vpd83.resize_rmw_raises.%s" % type(e).__name__, "write-back after giving a designator another size raised %s" % e, wit, exc=e)
        return
    got = [x.get("designator") for x in back.get("designator_descriptors", [])]
    if len(got) != len(want) or any(D.subset_diff(w, g) for w, g in zip(want, got)):
        ctx.fail("C06:inquiry.vpd83.resize_rmw", "after one designator (%s) was given another size and the page written back, the page reads as %d designators, expected %d with only that one changed"
                 % (kind, len(got), len(want)), wit)


def built_bytes_are_private(ctx, f, d, wit):
    """what a builder returned is the caller's: padding / patching it in place must not show up in a later build"""
    import copy

    d1, d2 = copy.deepcopy(d), copy.deepcopy(d)
    try:
        first = f.lib_build(d1)
    except Exception:  # noqa: BLE001
        ctx.count("builder_refuses_dictionary")
        return
    snap = bytes(first)
    if isinstance(first, bytearray):
        first += b"\xAA\xBB\xCC\xDD" * 4
        for i in range(min(len(first), 8)):
            first[i] ^= 0xFF
    try:
        second = f.lib_build(d2)
    except Exception as e:  # noqa: BLE001
        ctx.fail("C06:%s.second_build_raises.%s" % (f.name, type(e).__name__), "building again after the first result was edited in place raised %s" % e, wit, exc=e)
        return
    ctx.count("builds_after_edit_of_earlier_output")
    if bytes(second) != snap:
        ctx.fail("C06:%s.build_depends_on_earlier_output" % f.name, "%s: a later build from an equal dictionary returns %s..., the first returned %s... (its output was edited in place in between)"
                 % (f.name, bytes(second)[:16].hex(), snap[:16].hex()), wit)


def scribble(x):
    """change every bytearray leaf of a parsed result in place (the caller owns what a parser returned)"""
    n = 0
    if isinstance(x, bytearray):
        for i in range(len(x)):
            x[i] ^= 0xA5
        x += b"\x00scribble"
        return 1
    if isinstance(x, dict):
        for v in x.values():
            n += scribble(v)
    elif isinstance(x, list):
        for v in x:
            n += scribble(v)
    return n


def dig(d, path):
    for k in path:
        d = d[k]
    return d


def put_path(d, path, val):
    for k in path[:-1]:
        d = d[k]
    d[path[-1]] = val


def run(shard, ctx):
    import copy

    from vmon import gen
    from vmon.spec import datain as D

    rng = ctx.rng()
    if shard["id"] == "designators":
        return run_designators(shard, ctx, rng)
    if shard["id"].split("@")[0] == "transportids":
        if shard.get("env"):
            import sys as _sys

            ctx.add("filesystem_encodings", _sys.getfilesystemencoding())
            if _sys.getfilesystemencoding().lower().replace("-", "") == "utf8":
                ctx.inconclusive_because("shard %s was to run in a non-UTF-8 locale, the interpreter uses %s" % (shard["id"], _sys.getfilesystemencoding()))
                return
            ctx.count("shards_run_in_c_locale")
        return run_tids(shard, ctx, rng)
    f = D.FORMATS[shard["fmt"]]
    # minimal dictionaries (optional lists left out): whatever the builder makes of them, it makes it every time
    probe = D.strip_private(f.expect(canonical(f, f.gen(rng))))
    minimal = [{}, {k: v for k, v in probe.items() if not isinstance(v, (list, dict))}, {k: ([] if isinstance(v, list) else v) for k, v in probe.items()}]
    for d0 in minimal:
        ctx.case((f.name, "minimal", repr(sorted(d0))), False)
        built_bytes_are_private(ctx, f, d0, {"format": f.name, "dictionary": d0})
    for _i in range(5):
        subclass_with_own_table(ctx, f, rng)
    for mode in modes(f, shard):
        v = canonical(f, f.gen(rng, mode))
        b = f.encode(v)
        if f.name == "inquiry.standard":
            # the builder always produces the full 96-byte standard INQUIRY buffer: a shorter response is canonical as the
            # zero-initialised 96-byte allocation it was received into
            b = bytes(b) + bytes(96 - len(b))
            ctx.add("inquiry_lengths", v["_total"])
        nt = gen.nonzero(D.strip_private(f.expect(v)))
        wit = {"format": f.name, "mode": mode, "value": D.strip_private(v), "canonical": bytes(b)}
        # (1) parser vocabulary -> build -> parse
        d = copy.deepcopy(f.expect(v))
        ctx.case((f.name, "build-parse", bytes(b)), nt, sample={"format": f.name, "dictionary": d} if ctx.want_sample() else None)
        ctx.count("marshall_calls")
        try:
            built = f.lib_build(copy.deepcopy(d))
        except Exception as e:  # noqa: BLE001
            ctx.fail("C06:%s.build_raises.%s" % (f.name, type(e).__name__), "%s.marshall_datain(parser-vocabulary dict) raised %s: %s" % (f.name, type(e).__name__, e), wit, exc=e)
            built = None
        if built is not None and f.name.startswith("modesense"):
            # optional keys present with neutral values (sub_page_code 0 on a page_0 page): the same bytes
            from vmon.props.c05 import add_neutral_keys

            padded = copy.deepcopy(d)
            if add_neutral_keys(padded, rng):
                ctx.count("neutral_optional_keys_builds")
                try:
                    if bytes(f.lib_build(padded)) != bytes(built):
                        ctx.fail("C06:%s.neutral_optional_keys_change_the_build" % f.name, "%s: a page_0 page that also carries sub_page_code 0 builds other bytes" % f.name, wit)
                except Exception as e:  # noqa: BLE001
                    ctx.fail("C06:%s.build_raises.%s" % (f.name, type(e).__name__), "%s with neutral optional keys raised %s" % (f.name, e), wit, exc=e)
        if built is not None and f.name == "inquiry.vpd83" and d.get("designator_descriptors"):
            resized_designator(ctx, f, v, b, rng, wit)
        if built is not None and rng.random() < 0.5:
            # the same values in dictionaries whose keys come in another order (reversed, sorted, shuffled - at every level): the
            # same bytes
            def reordered(x, how):
                if isinstance(x, dict):
                    ks = list(x)
                    if how == "reversed":
                        ks.reverse()
                    elif how == "sorted":
                        ks.sort(key=str)
                    else:
                        rng.shuffle(ks)
                    return {k: reordered(x[k], how) for k in ks}
                if isinstance(x, list):
                    return [reordered(e, how) for e in x]
                return copy.deepcopy(x)

            how = rng.choice(["reversed", "sorted", "shuffled", "reversed"])
            try:
                got_ro = bytes(f.lib_build(reordered(d, how)))
                ctx.count("builds_from_reordered_dictionaries")
                if got_ro != bytes(built):
                    ctx.fail("C06:%s.build_depends_on_key_order" % f.name, "%s: the same values with the keys %s build %s..., in the parser's order %s..." % (f.name, how, got_ro[:40].hex(), bytes(built)[:40].hex()), dict(wit, key_order=how))
            except Exception as e:  # noqa: BLE001
                ctx.fail("C06:%s.build_raises.%s" % (f.name, type(e).__name__), "%s with the keys %s raised %s" % (f.name, how, e), wit, exc=e)
        if built is not None:
            lists_as_other_iterables(ctx, f, d, built, rng, wit)
            # the same dictionary held in a mapping that makes up values for missing keys (a defaultdict, a Counter-like record): keys
            # that are absent are absent
            if rng.random() < 0.15:
                import collections

                try:
                    dd = collections.defaultdict(int, copy.deepcopy(d))
                    keys_before = set(dd)
                    got_dd = bytes(f.lib_build(dd))
                    ctx.count("builds_from_default_factory_dictionaries")
                    if got_dd != bytes(built):
                        ctx.fail("C06:%s.default_factory_dictionary_builds_other_bytes" % f.name, "%s: the same values held in a defaultdict build %d bytes that differ from the %d bytes built from a dict"
                                 % (f.name, len(got_dd), len(built)), wit)
                    elif set(dd) != keys_before:
                        ctx.count("default_factory_dictionaries_gained_keys")
                except Exception:  # noqa: BLE001
                    ctx.count("default_factory_dictionaries_refused")
            built_bytes_are_private(ctx, f, d, wit)
            rejected_builds_in_between(ctx, f, d, rng, wit)
            try:
                back = f.lib_decode(built, v)
                seen = set()
                import re

                for p, msg in D.subset_diff(d, back):
                    p = re.sub(r"lun\d+", "lun<i>", p)
                    if p not in seen:
                        seen.add(p)
                        ctx.fail("C06:%s.parse_of_build%s" % (f.name, p), "%s: unmarshall(marshall(d)) %s %s" % (f.name, p, msg), dict(wit, built=bytes(built)))
            except Exception as e:  # noqa: BLE001
                ctx.fail("C06:%s.parse_of_build_raises.%s" % (f.name, type(e).__name__), "parse of built bytes raised", dict(wit, built=bytes(built)), exc=e)
        # (2) canonical bytes -> parse -> build
        ctx.case((f.name, "parse-build", bytes(b)), nt)
        try:
            parsed = f.lib_decode(b, v)
            # what the previous parses returned is still what it was
            for old, was in HELD:
                if repr(old) != was:
                    ctx.fail("C06:%s.earlier_parse_result_changed" % f.name, "%s: the dictionary an earlier parse returned changed when another response was parsed" % f.name, wit)
                    del HELD[:]
                    break
            HELD.append((parsed, repr(parsed)))
            del HELD[:-3]
            rebuilt = f.lib_build(copy.deepcopy(parsed))
        except Exception as e:  # noqa: BLE001
            ctx.fail("C06:%s.build_of_parse_raises.%s" % (f.name, type(e).__name__), "%s: marshall(unmarshall(b)) raised %s: %s" % (f.name, type(e).__name__, e), wit, exc=e)
            continue
        ctx.count("rebuilds")
        # building twice from the very object the parser returned must give the same bytes (no growth of the caller's values)
        try:
            first = bytes(f.lib_build(parsed))
            second = bytes(f.lib_build(parsed))
            if first != second or first != bytes(rebuilt):
                ctx.fail("C06:%s.build_not_repeatable" % f.name, "%s: marshalling the same parsed dictionary twice gives different bytes (%s)" % (f.name, diff_hex(second, first)), wit)
        except Exception as e:  # noqa: BLE001
            ctx.fail("C06:%s.build_of_parse_raises.%s" % (f.name, type(e).__name__), "second build raised", wit, exc=e)
        # parsing the same response again after the caller edited an earlier result in place must not be influenced
        try:
            p_first = f.lib_decode(b, v)
            if scribble(p_first):
                p_again = f.lib_decode(b, v)
                ctx.count("reparse_after_scribble")
                if D.subset_diff(f.expect(v), p_again):
                    pth = D.subset_diff(f.expect(v), p_again)[0][0]
                    ctx.fail("C06:%s.parse_depends_on_earlier_result" % f.name, "%s: a second parse of the same bytes differs after the first result was edited in place (%s)" % (f.name, pth), wit)
        except Exception as e:  # noqa: BLE001
            ctx.fail("C06:%s.reparse_raises.%s" % (f.name, type(e).__name__), "re-parse raised", wit, exc=e)
        if bytes(rebuilt) != bytes(b):
            ctx.fail("C06:%s.build_of_parse" % f.name, "%s: marshall(unmarshall(b)) = %s..., b = %s..." % (f.name, diff_hex(rebuilt, b), bytes(b)[:24].hex()),
                     dict(wit, rebuilt=bytes(rebuilt)))
            continue
        # (3) read-modify-write on one field
        sites = rmw_sites(f, v, b)
        if not sites:
            continue
        for path, bits, w in (rng.sample(sites, min(len(sites), 4)) if len(sites) > 4 else sites):
            d2 = copy.deepcopy(parsed)
            try:
                old = dig(d2, path)
            except (KeyError, IndexError):
                ctx.fail("C06:%s.rmw_field_missing.%s" % (f.name, path[-1]), "parsed dictionary lacks %s" % (path,), wit)
                continue
            new = old ^ (1 << rng.randrange(w))
            put_path(d2, path, new)
            ctx.case((f.name, "rmw", bytes(b), path, new), True)
            ctx.count("rmw_cases")
            try:
                b3 = f.lib_build(d2)
            except Exception as e:  # noqa: BLE001
                ctx.fail("C06:%s.rmw_raises.%s" % (f.name, type(e).__name__), "rebuild after changing %s raised" % (path,), wit, exc=e)
                continue
            if len(b3) != len(b):
                ctx.fail("C06:%s.rmw_length.%s" % (f.name, path[-1]), "length changed %d -> %d" % (len(b), len(b3)), wit)
                continue
            changed = {8 * i + k for i in range(len(b)) for k in range(8) if (b[i] ^ b3[i]) & (0x80 >> k)}
            if not changed <= bits:
                ctx.fail("C06:%s.rmw_outside_field.%s" % (f.name, path[-1]), "changing %s altered bits %s outside the field" % (path, sorted(changed - bits)[:8]),
                         dict(wit, after=bytes(b3)))
            elif not changed:
                ctx.fail("C06:%s.rmw_lost.%s" % (f.name, path[-1]), "changing %s changed nothing" % (path,), wit)


def diff_hex(a, b):
    a, b = bytes(a), bytes(b)
    for i in range(min(len(a), len(b))):
        if a[i] != b[i]:
            return "differs at byte %d (%02x vs %02x), len %d vs %d" % (i, a[i], b[i], len(a), len(b))
    return "length %d vs %d" % (len(a), len(b))


def run_designators(shard, ctx, rng):
    from pyscsi.pyscsi.scsi_cdb_inquiry import Inquiry

    from vmon import gen
    from vmon.spec import datain as D

    for kind in D.DESIGNATOR_KINDS:
        for _ in range(shard["n"]):
            dtype, v = D.gen_designator(rng, kind)
            b = D.encode_designator(dtype, v)
            ctx.case(("desig", kind, b), gen.nonzero(v), sample={"kind": kind, "value": v, "bytes": b} if ctx.want_sample() else None)
            wit = {"kind": kind, "type": dtype, "value": v, "canonical": b}
            try:
                built = Inquiry.marshall_designator(dtype, dict(v))
                back = Inquiry.unmarshall_designator(dtype, bytearray(built))
            except Exception as e:  # noqa: BLE001
                ctx.fail("C06:designator.%s.raises.%s" % (kind, type(e).__name__), "designator %s round trip raised %s" % (kind, e), wit, exc=e)
                continue
            ctx.count("designator_roundtrips")
            for p, msg in D.subset_diff(v, back):
                ctx.fail("C06:designator.%s.parse_of_build%s" % (kind, p), "designator %s: %s %s" % (kind, p, msg), wit)
            try:
                parsed = Inquiry.unmarshall_designator(dtype, bytearray(b))
                rebuilt = bytes(Inquiry.marshall_designator(dtype, parsed))
                if bytes(rebuilt) != bytes(b):
                    ctx.fail("C06:designator.%s.build_of_parse" % kind, "designator %s: %s" % (kind, diff_hex(rebuilt, b)), wit)
                again = bytes(Inquiry.marshall_designator(dtype, parsed))
                if again != rebuilt:
                    ctx.fail("C06:designator.%s.build_not_repeatable" % kind, "designator %s: second build from the same dictionary differs (%s)" % (kind, diff_hex(again, rebuilt)), wit)
                p1 = Inquiry.unmarshall_designator(dtype, bytearray(b))
                if scribble(p1):
                    p2 = Inquiry.unmarshall_designator(dtype, bytearray(b))
                    if D.subset_diff(v, p2):
                        ctx.fail("C06:designator.%s.parse_depends_on_earlier_result" % kind, "designator %s: re-parse differs after an earlier result was edited in place" % kind, wit)
            except Exception as e:  # noqa: BLE001
                ctx.fail("C06:designator.%s.raises.%s" % (kind, type(e).__name__), "designator %s parse/build raised" % kind, wit, exc=e)


def run_tids(shard, ctx, rng):
    from pyscsi.pyscsi.scsi_cdb_persistentreservein import PersistentReserveInReadFullStatus as P

    from vmon import gen
    from vmon.spec import datain as D

    for kind in D.TID_KINDS:
        lens = list(range(17, 224)) if kind.startswith("iscsi") else [None]
        for n in lens:
            for _ in range(max(1, shard["n"] // (20 if n else 1))):
                v = D.gen_transport_id(rng, kind, n)
                b = D.encode_transport_id(v)
                d = D.strip_private(v)
                ctx.case(("tid", kind, b), True, sample={"kind": kind, "value": d, "bytes": b} if ctx.want_sample() else None)
                wit = {"kind": kind, "value": d, "canonical": b}
                try:
                    built = P.marshall_transport_id(dict(d))
                    back = P.unmarshall_transport_id(bytearray(built))
                except Exception as e:  # noqa: BLE001
                    ctx.fail("C06:transportid.%s.raises.%s" % (kind, type(e).__name__), "TransportID %s round trip raised %s" % (kind, e), wit, exc=e)
                    continue
                ctx.count("transportid_roundtrips")
                for p, msg in D.subset_diff(d, back):
                    ctx.fail("C06:transportid.%s.parse_of_build%s" % (kind, p), "TransportID %s: %s %s" % (kind, p, msg), wit)
                try:
                    parsed = P.unmarshall_transport_id(bytearray(b))
                    rebuilt = P.marshall_transport_id(parsed)
                    if bytes(rebuilt) != bytes(b):
                        ctx.fail("C06:transportid.%s.build_of_parse" % kind, "TransportID %s: %s" % (kind, diff_hex(rebuilt, b)), wit)
                except Exception as e:  # noqa: BLE001
                    ctx.fail("C06:transportid.%s.raises.%s" % (kind, type(e).__name__), "TransportID %s parse/build raised" % kind, wit, exc=e)


def finalize(merged, tier):
    if merged["counters"].get("builds_after_edit_of_earlier_output", 0) < 100:
        merged["inconclusive"].append("the build / edit output / build again monitor hardly ran (%d)" % merged["counters"].get("builds_after_edit_of_earlier_output", 0))
    c = merged["counters"]
    for k in ("marshall_calls", "rebuilds", "rmw_cases", "designator_roundtrips", "transportid_roundtrips"):
        if c.get(k, 0) == 0:
            merged["inconclusive"].append("monitor never reached: %s" % k)
    return {}


def replay(rec, ctx):
    sid = rec.get("shard")
    run({"id": sid, "fmt": sid if sid.split("@")[0] not in ("designators", "transportids") else None, "n": 40, "small": True}, ctx)
