"""C17 - invalid requests are refused before anything is sent."""
LEVEL = "exploration"
RULE = (
    "invalid classes of the statement, each x boundary values of the other arguments, through the constructor and through the "
    "facade over a recording device: (1) READ/WRITE(10/12/16), WRITE SAME(10/16, NDOB=0), ATA PASS-THROUGH 12/16 with "
    "byte_block&t_type&t_length!=0, all with block size 0 -> MissingBlocksizeException; (2) all 256 opcode values through "
    "init_cdb and a constructor -> OpcodeException exactly for the groups without fixed length; (3) PERSISTENT RESERVE IN "
    "service actions 0..31 and boundary integers -> ValueError outside {0,1,2,3}; (4) EXTENDED COPY CSCD/segment dictionaries "
    "with an unknown key, a type code outside the table, a known-but-unimplemented code, a non-zero lu_id_type -> ValueError / "
    "NotImplementedError; (5) iSCSI TransportIDs with ISID but no format flag and vice versa x name lengths -> ValueError.  "
    "Monitors: exception class name, execute counter of the recording device == 0, nothing returned.  The valid neighbours "
    "(NDOB=1 with block size 0, byte_block=0, valid codes) must not be refused.  distinct = hash(class, path, arguments); "
    "non-trivial = an invalid-class input (valid neighbours are counted as trivial)"
)
ASSUMPTIONS = ["exception classes are matched by name: the metaclass creates distinct same-named classes per command class"]


def shards(tier, seed):
    if tier == "quick":
        return [{"id": k, "kind": k, "n": 40} for k in ("blocksize", "opcode", "prin", "xcopy", "transportid")]
    # thorough: four independently seeded parts per kind
    return [{"id": "%s.%d" % (k, i), "kind": k, "n": 1500} for k in ("blocksize", "opcode", "prin", "xcopy", "transportid") for i in range(4)]


def attempt(ctx, label, klass, want, thunk, dev, wit, valid=False):
    """run thunk; want = tuple of acceptable exception class names (invalid input) or () for a valid neighbour"""
    before = len(dev.calls) if dev is not None else 0
    try:
        ret = thunk()
        exc = None
    except Exception as e:  # noqa: BLE001
        ret, exc = None, e
    sent = (len(dev.calls) - before) if dev is not None else 0
    ctx.count("attempts")
    if valid:
        if exc is not None and type(exc).__name__ in ("MissingBlocksizeException", "OpcodeException", "ValueError", "NotImplementedError"):
            ctx.fail("C17:%s.valid_input_refused.%s" % (klass, type(exc).__name__), "%s: valid request refused with %s: %s" % (label, type(exc).__name__, exc), wit, exc=exc)
        return
    if exc is None:
        ctx.fail("C17:%s.not_refused" % klass, "%s: accepted (returned %s)" % (label, type(ret).__name__), wit)
    elif type(exc).__name__ not in want:
        ctx.fail("C17:%s.wrong_error.%s" % (klass, type(exc).__name__), "%s: refused with %s (%s), expected %s" % (label, type(exc).__name__, exc, "/".join(want)), wit, exc=exc)
    if sent:
        ctx.fail("C17:%s.command_was_sent" % klass, "%s: %d command(s) reached the device" % (label, sent), wit)
    if exc is None and ret is not None and dev is None:
        pass


def run(shard, ctx):
    import pyscsi.pyscsi.scsi_enum_command as E

    from vmon import gen, harness
    from vmon.spec import cdb as S, dataout as DO, datain as D

    rng = ctx.rng()
    kind = shard["kind"]
    n = shard["n"]
    if kind == "blocksize":
        names = ["Read10", "Read12", "Read16", "Write10", "Write12", "Write16", "WriteSame10", "WriteSame16", "ATAPassThrough12", "ATAPassThrough16"]
        for name in names:
            c = S.COMMANDS[name]
            cases = list(harness.walking_cases(c, rng, small=True)) + [harness.random_args(c, rng, cap=4096) for _ in range(n)]
            for a in cases:
                a = dict(a)
                if c.xfer == "ata":
                    invalid = rng.random() < 0.6
                    if invalid:
                        a.update({"byte_block": 1, "t_type": 1, "t_length": rng.choice([1, 2, 3]), "blocksize": 0})
                        # with and without a caller-provided buffer
                        a["data"] = rng.choice([None, None, bytearray(0), bytearray(512), bytearray(b"\x01" * 7), bytearray(4096)])
                        ctx.add("ata_invalid_data_argument", "none" if a["data"] is None else len(a["data"]))
                    else:
                        a.update({"byte_block": rng.choice([0, 1]), "t_type": 0, "blocksize": 0})
                        a["fetures"] &= 0x1F
                        a["count"] &= 0x1F
                else:
                    a["blocksize"] = 0
                    invalid = not a.get("ndob")
                    if name == "WriteSame16" and rng.random() < 0.4:
                        a["ndob"] = 1
                        invalid = False
                wit = {"cmd": name, "args": a}
                for setname in c.sets[:1]:
                    ctx.case((name, "ctor", harness.args_repr(a)), invalid, sample={"cmd": name, "args": a, "invalid": invalid} if ctx.want_sample() else None)
                    attempt(ctx, name, "blocksize.%s" % name, ("MissingBlocksizeException",), lambda: harness.construct(c, setname, a), None, wit, valid=not invalid)
                    dev = harness.Recorder(getattr(E, setname))
                    s = harness.make_facade(dev)
                    ctx.case((name, "facade", harness.args_repr(a)), invalid)
                    attempt(ctx, c.facade, "blocksize.%s" % name, ("MissingBlocksizeException",), lambda: harness.facade_call(c, s, dict(a)), dev, wit, valid=not invalid)
                    if not invalid and len(dev.calls) != 1:
                        ctx.fail("C17:blocksize.%s.valid_neighbour_not_sent" % name, "valid request sent %d commands" % len(dev.calls), wit)
        # arguments a wrapper passes on as "not given": no transfer length (None), no block for WRITE SAME (None, NDOB left out):
        # without a block size the request is refused like any other, with the same error
        for name in ("Write10", "Write12", "Write16", "WriteSame10", "WriteSame16"):
            c = S.COMMANDS[name]
            for i in range(12):
                a = dict(harness.random_args(c, rng, cap=4096), blocksize=0)
                if c.xfer == "write":
                    a["tl"] = None if i % 2 else a["tl"]
                    if i % 4 == 3:
                        a["data"] = harness.pattern_bytes(rng.choice([512, 4096, 1000]), i)
                else:
                    a["data"] = None
                    if "ndob" in c.args:
                        a["ndob"] = 0
                dev = harness.Recorder(getattr(E, c.sets[0]))
                s0 = harness.make_facade(dev)
                kw = harness.call_kwargs(c, a)
                kw.pop("blocksize", None)
                if name == "WriteSame16" and i % 2:
                    kw.pop("ndob", None)  # left out, not given as 0
                wit = {"cmd": name, "args": a, "ndob_left_out": "ndob" not in kw}
                ctx.case((name, "facade-none", i), True)
                ctx.count("not_given_arguments_without_blocksize")
                attempt(ctx, c.facade, "blocksize.%s" % name, ("MissingBlocksizeException",), lambda: getattr(s0, c.facade)(**kw), dev, wit)
        attached_without_blocksize(ctx, rng, names)
        # application subclasses of the command classes (plain, twice derived, with a mix-in before or after the command class): the
        # refusal is the error callers are told to catch, SCSICommand.MissingBlocksizeException, for them as well
        from pyscsi.pyscsi.scsi_command import SCSICommand

        class Audited:
            audit_log = []

            def note(self, what):
                self.audit_log.append(what)

        for name in names:
            c = S.COMMANDS[name]
            cls = c.load()
            oc = c.opcode_obj(c.sets[0])
            plain = type("App" + name, (cls,), {})
            shapes = {"subclass": plain, "subclass_of_subclass": type("App2" + name, (plain,), {}), "mixin_first": type("Audited" + name, (Audited, cls), {}),
                      "mixin_last": type(name + "Audited", (cls, Audited), {}), "object_first_is_refused_by_python": None}
            for shape, k in shapes.items():
                if k is None:
                    continue
                a = dict(harness.random_args(c, rng, cap=4096), blocksize=0)
                if c.xfer == "ata":
                    a.update({"byte_block": 1, "t_type": 1, "t_length": 2, "count": 1})
                elif "ndob" in a:
                    a["ndob"] = 0
                kw = harness.call_kwargs(c, a)
                ctx.case((name, "app-class", shape), True)
                ctx.count("attempts")
                ctx.count("application_subclasses_without_blocksize")
                try:
                    k(oc, **kw)
                    ctx.fail("C17:blocksize.%s.not_refused.%s" % (name, shape), "an application class (%s) of %s without a block size was accepted" % (shape, name), {"cmd": name, "args": a, "class_shape": shape})
                except SCSICommand.MissingBlocksizeException:
                    pass
                except Exception as e:  # noqa: BLE001
                    ctx.fail("C17:blocksize.%s.wrong_error.%s.%s" % (name, shape, type(e).__name__), "an application class (%s) of %s without a block size raised %s.%s, which is not a SCSICommand.MissingBlocksizeException"
                             % (shape, name, type(e).__module__, type(e).__qualname__), {"cmd": name, "args": a, "class_shape": shape}, exc=e)
        # ATA: whatever the ATA command and its FEATURES are, sectors without a sector size are refused (all 65536 pairs, both CDB sizes)
        for name in ("ATAPassThrough12", "ATAPassThrough16"):
            c = S.COMMANDS[name]
            base = dict(harness.random_args(c, rng, cap=4096))
            base.update({"byte_block": 1, "t_type": 1, "t_length": 2, "blocksize": 0, "count": 1})
            cls = c.load()
            oc = c.opcode_obj(c.sets[0])
            kw0 = harness.call_kwargs(c, base)
            n_bad = 0
            for command in range(256):
                for fet in range(256):
                    kw = dict(kw0, command=command, fetures=fet)
                    try:
                        cls(oc, **kw)
                        n_bad += 1
                        if n_bad <= 3:
                            ctx.fail("C17:blocksize.%s.not_refused" % name, "%s(command=%02Xh, features=%02Xh) in ATA logical sectors without a sector size was accepted" % (name, command, fet),
                                     {"cmd": name, "args": dict(base, command=command, fetures=fet)})
                    except Exception as e:  # noqa: BLE001
                        if type(e).__name__ != "MissingBlocksizeException":
                            ctx.fail("C17:blocksize.%s.wrong_error.%s" % (name, type(e).__name__), "%s(command=%02Xh, features=%02Xh): %s" % (name, command, fet, type(e).__name__),
                                     {"cmd": name, "args": dict(base, command=command, fetures=fet)}, exc=e)
            ctx.count("attempts", 65536)
            ctx.count("ata_command_feature_pairs", 65536)
            ctx.case((name, "command x features", "all"), True)
        return
    if kind == "opcode":
        from pyscsi.pyscsi.scsi_cdb_testunitready import TestUnitReady
        from pyscsi.pyscsi.scsi_command import SCSICommand
        from pyscsi.pyscsi.scsi_opcode import OpCode

        from vmon.spec import opcodes as O

        for v in range(256):
            invalid = O.group_length(v) is None
            oc = OpCode("X", v, {})
            ctx.case(("opcode", v), invalid, sample={"opcode": v, "invalid": invalid} if v % 37 == 0 else None)
            attempt(ctx, "init_cdb(%02Xh)" % v, "opcode.init_cdb", ("OpcodeException",), lambda: SCSICommand.init_cdb(oc), None, {"opcode": v}, valid=not invalid)
            attempt(ctx, "TestUnitReady(%02Xh)" % v, "opcode.constructor", ("OpcodeException",), lambda: TestUnitReady(oc), None, {"opcode": v}, valid=not invalid)
        ctx.count("opcode_values", 256)
        # every command class (its constructor, its class-level encoder, and its facade method on a caller-built table that
        # assigns the code) with every operation code that has no fixed CDB length
        from pyscsi.utils.enum import Enum

        bad_values = [v for v in range(256) if O.group_length(v) is None]
        for c in S.COMMANDS.values():
            cls = c.load()
            std = c.opcode_obj(c.sets[0])
            sa = {k: getattr(std.serviceaction, k) for k in std.serviceaction.keys}
            a = DO.GEN[c.custom](rng)[0] if c.custom else harness.random_args(c, rng, cap=2048)
            kwc = harness.call_kwargs(c, DO.fresh(a) if c.custom else a)
            tblkey = next(k for k in getattr(E, c.sets[0]).keys if getattr(getattr(E, c.sets[0]), k) is std)
            for v in bad_values:
                oc = OpCode(std.name, v, sa)
                wit = {"cmd": c.name, "opcode": v}
                ctx.case(("opcode-class", c.name, v), True)
                attempt(ctx, "%s(%02Xh)" % (c.name, v), "opcode.class_constructor.%s" % c.name, ("OpcodeException",), lambda: cls(oc, **(DO.fresh(kwc) if c.custom else dict(kwc))), None, wit)
                attempt(ctx, "%s.marshall_cdb(opcode=%02Xh)" % (c.name, v), "opcode.class_encoder.%s" % c.name, ("OpcodeException",), lambda: cls.marshall_cdb({"opcode": v}), None, wit)
                if c.facade and v % 4 == 0:
                    tbl = Enum({k: (oc if k == tblkey else getattr(getattr(E, c.sets[0]), k)) for k in getattr(E, c.sets[0]).keys})
                    dev = harness.Recorder(tbl)
                    sfac = harness.make_facade(dev, 512)
                    attempt(ctx, "%s on a table assigning %02Xh" % (c.facade, v), "opcode.facade.%s" % c.name, ("OpcodeException",), lambda: harness.facade_call(c, sfac, DO.fresh(a) if c.custom else dict(a)), dev, wit)
            ctx.count("classes_tried_with_every_lengthless_opcode")
        # one OpCode object whose value is changed between uses (OpCode.value has a public setter)
        for v1 in (0x00, 0x28, 0x88, 0xA8, 0x12):
            for v2 in range(256):
                invalid = O.group_length(v2) is None
                oc = OpCode("X", v1, {})
                try:
                    TestUnitReady(oc)
                    SCSICommand.init_cdb(oc)
                except Exception:  # noqa: BLE001
                    pass
                oc.value = v2
                ctx.case(("opcode-reused", v1, v2), invalid)
                attempt(ctx, "init_cdb(%02Xh) on an OpCode object used before with %02Xh" % (v2, v1), "opcode.reused_object.init_cdb", ("OpcodeException",),
                        lambda: SCSICommand.init_cdb(oc), None, {"opcode": v2, "earlier_value": v1}, valid=not invalid)
                oc2 = OpCode("X", v1, {})
                try:
                    TestUnitReady(oc2)
                except Exception:  # noqa: BLE001
                    pass
                oc2.value = v2
                attempt(ctx, "TestUnitReady(%02Xh) on an OpCode object used before with %02Xh" % (v2, v1), "opcode.reused_object.constructor", ("OpcodeException",),
                        lambda: TestUnitReady(oc2), None, {"opcode": v2, "earlier_value": v1}, valid=not invalid)
        return
    if kind == "prin":
        vals = list(range(32)) + list(range(-70, 0)) + [255, 256, 1 << 16, 1 << 31, 1 << 64, -(1 << 31), -(1 << 64), 2.0, 1.5, "1", None, True] + [rng.getrandbits(16) for _ in range(n)]
        for setname in ("spc", "sbc", "ssc", "smc"):
            for v in vals:
                dev = harness.Recorder(getattr(E, setname))
                s = harness.make_facade(dev)
                invalid = not (isinstance(v, int) and v in (0, 1, 2, 3)) and v != 2.0
                ctx.case(("prin", setname, v), invalid, sample={"service_action": v, "table": setname} if ctx.want_sample() else None)
                attempt(ctx, "persistentreservein(%r)" % v, "prin_service_action", ("ValueError",), lambda: s.persistentreservein(v), dev, {"service_action": v, "table": setname}, valid=not invalid)
        return
    if kind == "xcopy":
        for spc, cname in ((4, "ExtendedCopy4"), (5, "ExtendedCopy5")):
            c = S.COMMANDS[cname]
            lk = "target_descriptor_list" if spc == 4 else "cscd_descriptor_list"
            tabl = c.load()
            cscd_codes = tabl._target_descriptor_type_codes if spc == 4 else tabl._cscd_descriptor_type_codes
            seg_codes = tabl._segment_descriptor_type_codes
            names_ = ["bogus_key", "_", "_comment", "_dc", "__doc__", "__class__", "Cat", "cat ", "descriptor_type_code_", "x", "0", "",
                      None, 0, 1, -1, 2.5, False, (), ("cat",), b"cat", frozenset()]  # keys need not be strings (csv / yaml readers produce None)
            values_ = [1, 0, None, False, True, "", "text", {}, [], b"", 3.5]
            def near_names(table):
                """strings that are close to an entry of the table without being one: its leading words, a cut inside a word, another
                case, surrounding blanks"""
                out = set()
                full = set()
                for v in table.values():
                    for t in v.values() if isinstance(v, dict) else [v]:
                        if isinstance(t, str) and t:
                            full.add(t)
                for t in full:
                    words = t.split(" ")
                    for i in range(1, len(words)):
                        out.add(" ".join(words[:i]))
                    out.update([t[: max(1, len(t) // 2)], t.lower(), t.upper(), " " + t, t + " ", t.replace(" ", "  ", 1)])
                return sorted(x for x in out if x and x not in full)

            near_cscd, near_seg, near_dev = near_names(cscd_codes), near_names(seg_codes), near_names(tabl._device_type_codes)
            forced = [(m, nm, vl) for m in (0, 1) for nm in names_ for vl in values_]
            # names that belong one level further down (device type specific parameters), given beside the descriptor's own keys
            forced += [(0, nm, vl) for nm in ("pad", "disk_block_length", "fixed", "stream_block_length") for vl in (0, 1, 512, None)] * 2
            for i in range(n * 3 + len(forced)):
                a, _exp = DO.GEN[c.custom](rng, ("counts", rng.choice([1, 2]), rng.choice([1, 2]), 0))
                kw = a["_kwargs"]
                mut = i % 11
                want = ("ValueError",)
                # unknown keys of every look (plain, underscored, dunder, near-misses) holding every kind of value
                bogus_name = rng.choice(names_)
                bogus_value = rng.choice(values_)
                if i >= n * 3:
                    mut, bogus_name, bogus_value = forced[i - n * 3]  # every look of key x every kind of value, once each
                if bogus_name == "bogus_key":
                    bogus_name = "bogus_key_%d" % i
                if rng.random() < 0.5 and not isinstance(bogus_name, str):
                    # ... listed *before* the legitimate keys
                    pass
                if mut == 0:
                    rng.choice(kw[lk])[bogus_name] = bogus_value
                    klass = "xcopy%d.cscd_unknown_key" % spc
                elif mut == 1:
                    rng.choice(kw["segment_descriptor_list"])[bogus_name] = bogus_value
                    klass = "xcopy%d.segment_unknown_key" % spc
                elif mut == 2:
                    code = rng.choice([x for x in range(256) if x not in cscd_codes] + ["no such descriptor"]) if rng.random() < 0.6 or not near_cscd else rng.choice(near_cscd)
                    rng.choice(kw[lk])["descriptor_type_code"] = code
                    klass = "xcopy%d.cscd_code_outside_table" % spc
                elif mut == 3:
                    code = rng.choice([x for x in range(256) if x not in seg_codes] + ["no such segment"]) if rng.random() < 0.6 or not near_seg else rng.choice(near_seg)
                    rng.choice(kw["segment_descriptor_list"])["descriptor_type_code"] = code
                    klass = "xcopy%d.segment_code_outside_table" % spc
                elif mut == 10:
                    # a peripheral device type outside the table of the standard the class implements, with the optional device
                    # type specific parameters given, empty, or left out
                    known = set(tabl._device_type_codes)
                    code = rng.choice([x for x in range(32) if x not in known] * 3 + [32, 0x7F, 255, 256, -1, "no such device", "block device", 2.5] + near_dev[:40])
                    d = rng.choice(kw[lk])
                    d["peripheral_device_type"] = code
                    how = rng.choice(["given", "empty", "absent"])
                    if how == "empty":
                        d["device_type_specific_parameters"] = {}
                    elif how == "absent":
                        d.pop("device_type_specific_parameters", None)
                    ctx.add("device_type_outside_table", "%s:%s" % (code if not isinstance(code, int) or code > 31 or code < 0 else "0..31", how))
                    klass = "xcopy%d.cscd_device_type_outside_table" % spc
                elif mut == 4:
                    rng.choice(kw[lk])["lu_id_type"] = rng.choice([1, 2, 3])
                    klass = "xcopy%d.lu_id_type" % spc
                elif mut == 7:
                    # a key that is legitimate for another kind of segment descriptor, not for this one
                    d = rng.choice(kw["segment_descriptor_list"])
                    code = d["descriptor_type_code"]
                    code = code if isinstance(code, int) else next(k for k, v in DO.SEG_NAMES.items() if code in v)
                    if code in (0x02, 0x0D):
                        d[rng.choice(["stream_device_transfer_length", "block_device_logical_block_address"])] = rng.choice([0, 1, 77])
                    else:
                        d[rng.choice(["dc", "source_block_device_logical_block_address", "destination_block_device_logical_block_address"] + (["fco"] if spc == 5 else []))] = rng.choice([0, 1])
                    klass = "xcopy%d.segment_key_of_another_kind" % spc
                elif mut == 8:
                    d = rng.choice(kw[lk])
                    d[rng.choice(["cat", "dc", "descriptor_length", "block_device_number_of_blocks", "designator_type", "code_set"])] = 1
                    klass = "xcopy%d.cscd_key_of_another_structure" % spc
                elif mut == 9:
                    # a complete, well-formed descriptor of one kind that carries the type code of another kind
                    fam = [(0x00, 0x01, 0x0B, 0x0C), (0x02, 0x0D)]
                    src_f = rng.randrange(2)
                    d, _e = DO.gen_segment(rng, spc, rng.choice(fam[src_f]))
                    other = rng.choice(fam[1 - src_f])
                    d["descriptor_type_code"] = rng.choice([other, DO.SEG_NAMES[other][0]])
                    lst = kw["segment_descriptor_list"]
                    lst[rng.randrange(len(lst))] = d
                    if rng.random() < 0.5:
                        # ... listed right after a valid descriptor of the kind it looks like
                        lst.insert(lst.index(d), DO.gen_segment(rng, spc, rng.choice(fam[src_f]))[0])
                    klass = "xcopy%d.segment_of_one_kind_typed_as_another" % spc
                elif mut == 5:
                    code = rng.choice([x for x in cscd_codes if x != 0xE4])
                    rng.choice(kw[lk])["descriptor_type_code"] = code
                    klass = "xcopy%d.cscd_code_unimplemented" % spc
                    want = ("NotImplementedError", "ValueError")  # refusal either way; the statement does not separate the two
                else:
                    code = rng.choice([x for x in seg_codes if x not in (0, 1, 2, 0xB, 0xC, 0xD)])
                    d = rng.choice(kw["segment_descriptor_list"])
                    d["descriptor_type_code"] = code
                    klass = "xcopy%d.segment_code_unimplemented" % spc
                    want = ("NotImplementedError", "ValueError")  # refusal either way; the statement does not separate the two
                wit = {"cmd": cname, "mutation": klass, "args": a}
                if mut in (0, 1):
                    wit["unknown_key"] = [bogus_name, repr(bogus_value)]
                    ctx.add("unknown_key_forms", "%r=%s" % (bogus_name if not str(bogus_name).startswith("bogus") else "bogus_key_N", type(bogus_value).__name__))
                ctx.case((cname, klass, repr(a)), True, sample={"cmd": cname, "mutation": klass} if ctx.want_sample() else None)
                ctx.add("invalid_classes", klass)
                attempt(ctx, cname, klass, want, lambda: harness.construct(c, "spc", DO.fresh(a)), None, wit)
                dev = harness.Recorder(E.spc)
                s = harness.make_facade(dev)
                attempt(ctx, c.facade, klass, want, lambda: harness.facade_call(c, s, DO.fresh(a)), dev, wit)
                # valid neighbour
                a2, _ = DO.GEN[c.custom](rng, ("counts", 1, 1, 0))
                ctx.case((cname, "valid", repr(a2)), False)
                attempt(ctx, cname, "xcopy%d" % spc, (), lambda: harness.construct(c, "spc", DO.fresh(a2)), None, {"cmd": cname, "args": a2}, valid=True)
            # names and descriptions of one table (CSCD types, segment types, peripheral device types) used for a field of another
            # one, *after* the same text was accepted where it belongs (in an earlier request, or earlier in the same request:
            # targets are built before segments): each field knows the entries of its own table only
            def texts(table):
                out = {}
                for code, v in table.items():
                    for t in (v.values() if isinstance(v, dict) else [v]):
                        if isinstance(t, str) and t:
                            out.setdefault(t, code)
                return out

            tabs = {"cscd": texts(cscd_codes), "segment": texts(seg_codes), "device_type": texts(tabl._device_type_codes)}

            def put(kw, field, value, want_code=None):
                """set the field of the first descriptor that may carry it; False when no descriptor of the wanted kind is there"""
                lst = kw["segment_descriptor_list"] if field == "segment" else kw[lk]
                key = "peripheral_device_type" if field == "device_type" else "descriptor_type_code"
                for d in lst:
                    if want_code is None or d.get(key) == want_code:
                        d[key] = value
                        return True
                return False

            for own, entries in tabs.items():
                for text, code in sorted(entries.items()):
                    for other in tabs:
                        if other == own or text in tabs[other]:
                            continue
                        # 1. the text where it belongs
                        warmed = False
                        for _try in range(40):
                            a1, _ = DO.GEN[c.custom](rng, ("counts", rng.choice([1, 2]), rng.choice([1, 2]), 0))
                            if put(a1["_kwargs"], own, text, want_code=code):
                                try:
                                    harness.construct(c, "spc", DO.fresh(a1))
                                    warmed = True
                                except Exception:  # noqa: BLE001
                                    pass
                                break
                        # 2. the same text in a field of another table, in a fresh request
                        a3, _ = DO.GEN[c.custom](rng, ("counts", 1, 1, 0))
                        if not put(a3["_kwargs"], other, text):
                            continue
                        klass = "xcopy%d.%s_text_as_%s" % (spc, own, other)
                        wit = {"cmd": cname, "mutation": klass, "text": text, "accepted_before_where_it_belongs": warmed, "args": a3}
                        ctx.case((cname, klass, text), True)
                        ctx.add("invalid_classes", klass)
                        ctx.count("texts_of_another_table")
                        attempt(ctx, cname, klass, ("ValueError", "NotImplementedError") if other == "segment" else ("ValueError",), lambda: harness.construct(c, "spc", DO.fresh(a3)), None, wit)
        return
    if kind == "transportid":
        c = S.COMMANDS["PersistentReserveOut"]
        lens = list(range(17, 224, 5)) + [17, 18, 19, 20, 223]
        for i in range(n * 4):
            nl = rng.choice(lens)
            t = D.strip_private(D.gen_transport_id(rng, "iscsi1", nl))
            mode = i % 3
            if mode != 1 and rng.random() < 0.3:
                # ... also a session id that is all zeros (a number that is false, a string that is not)
                t["iscsi_initiator_session_id"] = rng.choice(["0", "00", "0000", "000000000000", "0x0"])
                ctx.count("transportid_zero_session_ids")
            if mode == 0:
                t["tpid_format"] = rng.choice([0, 0, False])  # session id without the format flag
                klass = "transportid.isid_without_format_flag"
            elif mode == 1:
                del t["iscsi_initiator_session_id"]  # flag without session id
                klass = "transportid.format_flag_without_isid"
                r = rng.random()
                if r < 0.3:
                    # ... also when the name looks as if it carried one (as sg_persist prints initiator ports)
                    t["iscsi_name"] = rng.choice([t["iscsi_name"][:40] + ",i,0x", t["iscsi_name"][:40] + ",i,0x%012x" % rng.getrandbits(48), ",i,0x", "iqn.1993-08.org.debian:01:ab,i,0x23d000000,i,0x"])
                    ctx.count("transportid_names_with_separator")
                elif r < 0.5:
                    t["iscsi_initiator_session_id"] = rng.choice([None, "", 0])  # given, but empty
                if rng.random() < 0.3:
                    t["tpid_format"] = rng.choice([True, 1, harness.IntSub(1)])
            else:
                del t["tpid_format"]
                klass = "transportid.isid_without_format_flag"
            sa = rng.choice([0, 7])
            kw = {"reservation_key": rng.getrandbits(64), "service_action_reservation_key": rng.getrandbits(64)}
            if sa == 0:
                others = []
                for _k in range(rng.choice([0, 0, 1, 2, 3])):
                    o = D.strip_private(D.gen_transport_id(rng, rng.choice(D.TID_KINDS), nl))
                    if o.get("iscsi_name") and rng.random() < 0.6:
                        o["iscsi_name"] = t["iscsi_name"]  # the same initiator listed again, consistently
                    others.append(o)
                pos = rng.randint(0, len(others))
                kw.update({"spec_i_pt": 1, "transport_ids": others[:pos] + [t] + others[pos:]})
                klass += ".in_list" if others else ""
            else:
                kw.update({"relative_target_port_id": 1, "transport_id": t})
            a = {"service_action": sa, "scope": 0, "pr_type": 1, "_kwargs": kw}
            wit = {"args": a, "class": klass}
            ctx.case(("tid", klass, sa, repr(t)), True, sample={"class": klass, "transport_id": t, "service_action": sa} if ctx.want_sample() else None)
            ctx.add("invalid_classes", klass)
            attempt(ctx, "PersistentReserveOut", klass, ("ValueError",), lambda: harness.construct(c, "spc", DO.fresh(a)), None, wit)
            dev = harness.Recorder(E.sbc)
            s = harness.make_facade(dev)
            attempt(ctx, "persistentreserveout", klass, ("ValueError",), lambda: harness.facade_call(c, s, DO.fresh(a)), dev, wit)
            if i % 3 == 0:
                # the same request with the service action in another spelling (its name in the operation code's table, the number
                # as text, a member of an int subclass): whether or not the spelling is understood, an inconsistent TransportID does
                # not get through - refused with some error, nothing sent
                sa_name = {0: "REGISTER", 7: "REGISTER_AND_MOVE"}[sa]
                for spelled in (sa_name, sa_name.lower(), str(sa), harness.IntSub(sa), float(sa)):
                    a3 = dict(a, service_action=spelled)
                    dev3 = harness.Recorder(E.sbc)
                    s3 = harness.make_facade(dev3)
                    wit3 = {"args": a3, "class": klass, "service_action_spelled": repr(spelled)}
                    ctx.count("service_actions_in_other_spellings")
                    attempt(ctx, "persistentreserveout", klass + ".service_action_spelled_%s" % type(spelled).__name__, ("ValueError", "TypeError", "KeyError", "AttributeError"),
                            lambda: harness.facade_call(c, s3, DO.fresh(a3)), dev3, wit3)
                    attempt(ctx, "PersistentReserveOut", klass + ".service_action_spelled_%s" % type(spelled).__name__, ("ValueError", "TypeError", "KeyError", "AttributeError"),
                            lambda: harness.construct(c, "spc", DO.fresh(a3)), None, wit3)
            # valid neighbour
            tv = D.strip_private(D.gen_transport_id(rng, rng.choice(["iscsi0", "iscsi1"]), nl))
            kw2 = dict(kw)
            if sa == 0:
                kw2["transport_ids"] = [tv]
            else:
                kw2["transport_id"] = tv
            a2 = {"service_action": sa, "scope": 0, "pr_type": 1, "_kwargs": kw2}
            ctx.case(("tid", "valid", sa, repr(tv)), False)
            attempt(ctx, "PersistentReserveOut", "transportid", (), lambda: harness.construct(c, "spc", DO.fresh(a2)), None, {"args": a2}, valid=True)


def attached_without_blocksize(ctx, rng, names):
    """the facade attached through the real SCSI(dev) / s(dev) (an INQUIRY answered with every peripheral device type), no block
    size given: block transfers are refused and nothing but the INQUIRYs reaches the device"""
    import pyscsi.pyscsi.scsi_enum_command as E
    from pyscsi.pyscsi.scsi import SCSI

    from vmon import harness
    from vmon.spec import cdb as S

    def device(devtype):
        bl = rng.choice([512, 4096])

        def fill(cmd):
            if cmd.cdb[0] == 0x12 and len(cmd.datain):
                cmd.datain[0] = devtype
            elif cmd.cdb[0] == 0x25 and len(cmd.datain) >= 8:  # READ CAPACITY(10): last LBA, block length
                cmd.datain[0:8] = (0x003FFFFF).to_bytes(4, "big") + bl.to_bytes(4, "big")
            elif cmd.cdb[0] == 0x9E and len(cmd.datain) >= 12:  # READ CAPACITY(16)
                cmd.datain[0:12] = (0x003FFFFF).to_bytes(8, "big") + bl.to_bytes(4, "big")
            elif cmd.cdb[0] == 0x1A and len(cmd.datain) >= 16:  # MODE SENSE(6): one block descriptor announcing the block length
                cmd.datain[0:12] = bytes([23, 0, 0, 8, 0, 0, 0, 0, 0]) + bl.to_bytes(3, "big")
                cmd.datain[12:14] = bytes([0x0A, 0x0A])
        return harness.Recorder(E.spc, fill)

    def set_of(dev):
        return next((n for n in ("spc", "sbc", "ssc", "smc", "mmc") if dev.opcodes is getattr(E, n)), "?")

    for devtype in range(32):
        for how in ("SCSI(dev)", "SCSI(dev, 0)", "re-attached", "second facade", "second facade, first one used"):
            dev = device(devtype)
            try:
                if how.startswith("second facade"):
                    # another user of the same device object has a block size of his own (given at attach, or set later)
                    other = SCSI(dev, rng.choice([512, 4096])) if rng.random() < 0.5 else SCSI(dev)
                    other.blocksize = rng.choice([512, 520, 4096])
                    if how.endswith("used"):
                        try:
                            dev.opcodes = E.sbc
                            other.read10(0, 1)
                            other.write16(8, 1, bytearray(other.blocksize))
                        except Exception:  # noqa: BLE001
                            pass
                    s = SCSI(dev) if rng.random() < 0.5 else SCSI(dev, 0)
                    ctx.count("second_facades_without_blocksize")
                elif how == "SCSI(dev)":
                    s = SCSI(dev)
                elif how == "SCSI(dev, 0)":
                    s = SCSI(dev, 0)
                else:
                    s = SCSI(device(rng.randrange(32)))
                    s(dev)
            except Exception as e:  # noqa: BLE001
                ctx.fail("C17:blocksize.attach_raises.%s" % type(e).__name__, "%s with device type %02Xh raised %s" % (how, devtype, e), {"devtype": devtype, "how": how}, exc=e)
                continue
            setname = set_of(dev)
            for name in names:
                c = S.COMMANDS[name]
                if setname not in c.sets:
                    continue  # this table does not offer the command at all: another matter
                a = dict(harness.random_args(c, rng, cap=4096))
                if c.xfer == "ata":
                    a.update({"byte_block": 1, "t_type": 1, "t_length": 2, "blocksize": 0})
                elif a.get("ndob"):
                    a["ndob"] = 0
                kw = harness.call_kwargs(c, a)
                if c.xfer != "ata":
                    kw.pop("blocksize", None)
                kw.update(c.facade_fixed)
                # what the facade did before must not supply the missing block size: capacity, mode and identity queries answered
                # with plausible data (a 512- or 4096-byte-block disk), also after moving the facade to another device and back
                before = rng.choice([(), ("readcapacity10",), ("readcapacity16",), ("readcapacity16", "readcapacity10", "inquiry"), ("inquiry", "modesense6"), ("testunitready",)])
                for m in before:
                    try:
                        if m == "modesense6":
                            s.modesense6(page_code=0x0A)
                        else:
                            getattr(s, m)()
                        ctx.count("attached_facade_history_calls")
                    except Exception:  # noqa: BLE001
                        pass  # e.g. the table of this device type has no such command
                wit = {"cmd": name, "devtype": devtype, "attached": how, "table": setname, "called_before": list(before), "args": a}
                ctx.case((name, how, devtype, before), True, sample={"cmd": name, "devtype": devtype, "attached": how, "called_before": list(before)} if ctx.want_sample() else None)
                ctx.count("attached_facade_attempts")
                attempt(ctx, "%s after %s to device type %02Xh" % (c.facade, how, devtype), "blocksize.attached_facade.%s" % name, ("MissingBlocksizeException",),
                        lambda: getattr(s, c.facade)(**kw), dev, wit)


def finalize(merged, tier):
    if merged["counters"].get("attempts", 0) == 0:
        merged["inconclusive"].append("no refusal attempted")
    return {}


def replay(rec, ctx):
    sh = rec.get("shard") or ""
    run({"id": sh, "kind": sh.split(".")[0].split("@")[0], "n": 1500 if "." in sh else 40}, ctx)
