"""C05 - parameter lists sent to the device have the standard layout and honest lengths."""
LEVEL = "exploration"
RULE = (
    "MODE SELECT 6/10: every marshallable mode page x every field through its boundary set (others 0 / all-ones) + random; "
    "PERSISTENT RESERVE OUT: 9 service actions x scope x type x 64-bit keys x flag combinations x 0..3 TransportIDs of every "
    "kind, iSCSI names of every length 16..223 (all residues mod 4) with and without ISID; EXTENDED COPY LID1/LID4: 0..3 "
    "identification CSCD descriptors (15 designator kinds, block/sequential/processor device types) x 0..3 segments of each "
    "implemented type (00,01,02,0B,0C,0D) x inline data 0..64 bytes x header flags.  Built through the constructor and the "
    "facade on every opcode table; cmd.dataout is walked by a reference parser that fails on any length that over/under-runs, "
    "and the CDB parameter list length is read with the reference CDB decoder.  distinct = hash(generator, table, dictionary); "
    "non-trivial = list longer than its fixed header"
)
ASSUMPTIONS = [
    "vmon/spec/dataout.py parsers follow SPC-4 (Appendix B); MODE DATA LENGTH may be honest or 0 (reserved in MODE SELECT)",
    "valid dictionaries = the key vocabulary the library documents/parses; designators <= 20 bytes in CSCD descriptors",
]

HDR = {"mode6": 4, "mode10": 8, "prout": 24, "xcopy4": 16, "xcopy5": 48}


def shards(tier, seed):
    from vmon.spec import cdb as S

    out = []
    for c in S.COMMANDS.values():
        if c.custom:
            parts = 1 if tier == "quick" else 4
            for i in range(parts):
                out.append({"id": "%s.%d" % (c.name, i), "cmd": c.name, "part": i, "parts": parts,
                            "n": 250 if tier == "quick" else 12000, "small": tier == "quick"})
    # the parameter lists that carry text (iSCSI names) once more in an interpreter whose locale is not UTF-8: what is sent is the
    # UTF-8 encoding of the name wherever the program runs
    out += [dict(s, id=s["id"] + "@C-locale", env=C_LOCALE) for s in out if s["cmd"] == "PersistentReserveOut"]
    return out


C_LOCALE = {"LC_ALL": "C", "LANG": "C", "PYTHONCOERCECLOCALE": "0", "PYTHONUTF8": "0"}


def modes(c, shard):
    from vmon.spec import datain as D, dataout as DO

    g = c.custom
    if g in ("mode6", "mode10"):
        for m in D.ModeSense(g == "mode10", opaque_pages=False).walk_modes(small=shard["small"]):
            if m[2] != "rand":
                yield m
    elif g == "prout":
        for sa in range(9):
            for _ in range(4):
                yield ("sa", sa)
        for kind in D.TID_KINDS:
            for sa in (0, 7):
                lens = range(16, 224) if kind.startswith("iscsi") else [None]
                for n in lens:
                    yield ("sa", sa, kind, n)
    else:
        for nc in range(4):
            for ns in range(4):
                for ni in (0, 1, 7, 64):
                    yield ("counts", nc, ns, ni)
        for code in (0x00, 0x01, 0x02, 0x0B, 0x0C, 0x0D):
            for ns in (1, 2, 3):
                yield ("counts", 2, ns, 0, code)
        if g == "xcopy4":
            # LID1 has a four-byte SEGMENT DESCRIPTOR LIST LENGTH and INLINE DATA LENGTH: lists and data beyond 65535 bytes
            yield ("counts", 1, 2341, 0, 0x02)
            yield ("counts", 2, 2400, 0)
            yield ("counts", 1, 1, 70000)
            if not shard["small"]:
                yield ("counts", 3, 5000, 300)
    for _ in range(shard["n"]):
        yield "rand"


def judge(ctx, c, setname, path, a, exp, cmd):
    import re

    from vmon import refcodec as R
    from vmon.spec import datain as D, dataout as DO

    g = c.custom
    wit = {"gen": g, "cmd": c.name, "table": setname, "path": path, "args": a, "dataout": bytes(cmd.dataout) if cmd.dataout is not None else None,
           "cdb": bytes(cmd.cdb)}
    out = cmd.dataout
    if not isinstance(out, (bytes, bytearray)):
        ctx.fail("C05:%s.dataout_type" % g, "dataout is %s" % type(out).__name__, wit)
        return False
    pll = R.get(cmd.cdb, *c.fields["pll"])
    if pll != len(out):
        ctx.fail("C05:%s.cdb_parameter_list_length" % g, "CDB announces %d bytes, list is %d bytes" % (pll, len(out)), wit)
    try:
        parsed = DO.parse(g, out, a)
    except DO.RefParseError as e:
        ctx.fail("C05:%s.%s" % (g, e.mech), "%s: %s" % (c.name, e), wit)
        return len(out) > HDR[g]
    seen = set()
    for p, msg in D.subset_diff(exp, parsed):
        key = "C05:%s%s" % (g, p)
        if key not in seen:
            seen.add(key)
            ctx.fail(key, "%s via %s: %s %s" % (c.name, path, p, msg), wit)
    if g.startswith("xcopy"):
        # designators: reference parse of the embedded bytes must equal the supplied designator
        for ce, cp in zip(exp["cscds"], parsed["cscds"]):
            if "ident" in cp and bytes(cp["ident"]["designator_bytes"]) != bytes(ce["ident"]["designator_bytes"]):
                ctx.fail("C05:%s/cscds/[]/ident/designator" % g, "designator bytes differ", wit)
    return len(out) > HDR[g]


def run(shard, ctx):
    if shard.get("env"):
        import sys as _sys

        ctx.add("filesystem_encodings", _sys.getfilesystemencoding())
        if _sys.getfilesystemencoding().lower().replace("-", "") == "utf8":
            ctx.inconclusive_because("shard %s was to run in a non-UTF-8 locale, the interpreter uses %s" % (shard["id"], _sys.getfilesystemencoding()))
            return
        ctx.count("shards_run_in_c_locale")
    import pyscsi.pyscsi.scsi_enum_command as E

    from vmon import harness
    from vmon.spec import cdb as S, dataout as DO

    c = S.COMMANDS[shard["cmd"]]
    rng = ctx.rng()
    if c.custom in ("mode6", "mode10") and shard["part"] == 0:
        sensed_flow(ctx, c, shard)
    i = -1
    for mode in modes(c, shard):
        i += 1
        if i % shard["parts"] != shard["part"]:
            continue
        a, exp = DO.GEN[c.custom](rng, mode)
        for setname in c.sets:
            rep = (c.name, setname, repr(a))
            ctx.add("modes", "%s:%s" % (c.custom, mode[0] if isinstance(mode, tuple) else mode))
            try:
                cmd = harness.construct(c, setname, DO.fresh(a))
            except Exception as e:  # noqa: BLE001
                ctx.case(("ctor",) + rep, True)
                ctx.fail("C05:%s.constructor_raises.%s" % (c.custom, type(e).__name__), "%s on %s raised %s: %s" % (c.name, setname, type(e).__name__, e),
                         {"gen": c.custom, "cmd": c.name, "table": setname, "args": a, "mode": mode}, exc=e)
                continue
            nt = judge(ctx, c, setname, "ctor", a, exp, cmd)
            # the list-valued arguments as other iterables (a tuple, an iterator, a generator): the same list goes out
            if setname == c.sets[0] and i % 3 == 0 and "_kwargs" in a:
                how = ("tuple", "iterator", "generator")[(i // 3) % 3]
                alt = DO.fresh(a)
                n_lists = 0
                for k, v in list(alt["_kwargs"].items()):
                    if isinstance(v, list):
                        alt["_kwargs"][k] = tuple(v) if how == "tuple" else iter(v) if how == "iterator" else (x for x in v)
                        n_lists += 1
                if n_lists:
                    try:
                        judge(ctx, c, setname, "lists_as_%s" % how, a, exp, harness.construct(c, setname, alt))
                        ctx.count("lists_given_as_other_iterables")
                    except Exception as e:  # noqa: BLE001
                        ctx.fail("C05:%s.list_as_%s_raises.%s" % (c.custom, how, type(e).__name__), "%s with its descriptor lists given as %s raised %s: %s" % (c.name, how, type(e).__name__, e),
                                 {"gen": c.custom, "cmd": c.name, "args": a}, exc=e)
            # the dictionaries of the request as other mappings (a read-only view, a UserDict, a ChainMap over defaults, an
            # OrderedDict): every level below the keyword arguments, the same list goes out
            if setname == c.sets[0] and i % 3 == 1 and ("_kwargs" in a or isinstance(a.get("data"), dict)):
                import collections
                import types

                how = ("MappingProxyType", "UserDict", "ChainMap", "OrderedDict")[(i // 3) % 4]
                if how == "MappingProxyType" and c.custom.startswith("xcopy"):
                    how = "UserDict"  # (the copy commands write bookkeeping into the caller's descriptors: a read-only view cannot serve)
                wrap = {"MappingProxyType": types.MappingProxyType, "UserDict": collections.UserDict, "ChainMap": lambda d: collections.ChainMap(d, {}),
                        "OrderedDict": collections.OrderedDict}[how]

                def remap(x, depth=0):
                    if isinstance(x, dict):
                        inner = {k: remap(v, depth + 1) for k, v in x.items()}
                        return wrap(inner) if depth > 0 else inner
                    if isinstance(x, list):
                        return [remap(v, depth + 1) for v in x]
                    return x

                alt = DO.fresh(a)
                if "_kwargs" in alt:
                    alt["_kwargs"] = {k: remap(v, 1) if isinstance(v, (list, dict)) else v for k, v in alt["_kwargs"].items()}
                else:
                    alt["data"] = remap(alt["data"], 0)  # the pages of a mode parameter list (the outer dictionary stays a dict)
                try:
                    judge(ctx, c, setname, "dictionaries_as_%s" % how, a, exp, harness.construct(c, setname, alt))
                    ctx.count("dictionaries_given_as_other_mappings")
                except Exception as e:  # noqa: BLE001
                    ctx.fail("C05:%s.dictionaries_as_%s_raise.%s" % (c.custom, how, type(e).__name__), "%s with its dictionaries given as %s raised %s: %s" % (c.name, how, type(e).__name__, e),
                             {"gen": c.custom, "cmd": c.name, "args": a}, exc=e)
            # the same dictionary as uniform records have it: optional keys present but neutral (sub_page_code 0 on a page_0 page, an
            # empty session id on a format-00b TransportID, a zero extension on an 8-byte NAA designator)
            if setname == c.sets[0] and i % 2 == 0:
                padded = DO.fresh(a)
                if add_neutral_keys(padded, rng):
                    try:
                        judge(ctx, c, setname, "neutral_optional_keys", a, exp, harness.construct(c, setname, padded))
                        ctx.count("dictionaries_with_neutral_optional_keys")
                    except Exception as e:  # noqa: BLE001
                        ctx.fail("C05:%s.neutral_optional_keys_raise.%s" % (c.custom, type(e).__name__), "%s from a dictionary whose optional keys are present with neutral values raised %s: %s"
                                 % (c.name, type(e).__name__, e), {"gen": c.custom, "cmd": c.name, "args": padded}, exc=e)
            # a copy job is looped: the caller's very dictionaries are handed to the library again (their byte strings mutable,
            # as the library's own parsers return them, in every other case)
            if setname == c.sets[0]:
                shared = DO.fresh(a)
                if i % 2:
                    from vmon.props.c09 import to_bytearrays

                    shared = to_bytearrays(shared)
                try:
                    harness.construct(c, setname, shared)
                    again = harness.construct(c, setname, shared)
                    third = harness.construct(c, setname, shared)
                    judge(ctx, c, setname, "reused_dictionaries", a, exp, again)
                    judge(ctx, c, setname, "reused_dictionaries", a, exp, third)
                    ctx.count("reused_dictionary_builds")
                except Exception as e:  # noqa: BLE001
                    ctx.fail("C05:%s.reused_dictionaries_raise.%s" % (c.custom, type(e).__name__),
                             "%s cannot be constructed a second time from the same (valid) dictionary objects: %s: %s" % (c.name, type(e).__name__, e),
                             {"gen": c.custom, "cmd": c.name, "args": a}, exc=e)
            ctx.case(("ctor",) + rep, nt, sample={"cmd": c.name, "table": setname, "args": a, "dataout": bytes(cmd.dataout)} if ctx.want_sample() else None)
            ctx.count("lists_parsed")
            dev = harness.Recorder(getattr(E, setname))
            # (the facade with and without a block size of its own: the parameter list is the caller's, whatever the facade knows)
            s = harness.make_facade(dev, (0, 512, 4096)[i % 3])
            try:
                harness.facade_call(c, s, DO.fresh(a))
            except Exception as e:  # noqa: BLE001
                if not dev.calls:
                    ctx.fail("C05:%s.facade_raises.%s" % (c.custom, type(e).__name__), "facade %s raised %s: %s" % (c.facade, type(e).__name__, e),
                             {"gen": c.custom, "cmd": c.name, "table": setname, "args": a}, exc=e)
            if dev.calls:
                nt = judge(ctx, c, setname, "facade", a, exp, dev.calls[0][0])
                ctx.case(("facade",) + rep, nt)
                ctx.count("facade_lists_parsed")


def add_neutral_keys(x, rng):
    """in place; returns how many keys were added / removed"""
    n = 0
    if isinstance(x, dict):
        if "page_code" in x and "spf" in x and not x["spf"] and "sub_page_code" not in x:
            x["sub_page_code"] = 0
            n += 1
        if x.get("protocol_id") == 5 and not x.get("tpid_format") and "iscsi_initiator_session_id" not in x:
            x["iscsi_initiator_session_id"] = rng.choice([None, ""])
            n += 1
        if x.get("naa") in (2, 3, 5) and "vendor_specific_identifier_extension" not in x:
            x["vendor_specific_identifier_extension"] = 0
            n += 1
        for v in list(x.values()):
            n += add_neutral_keys(v, rng)
    elif isinstance(x, (list, tuple)):
        for v in x:
            n += add_neutral_keys(v, rng)
    return n


def sensed_flow(ctx, c, shard):
    """the read-modify-write flow of tools/swp.py: the dictionary handed to MODE SELECT is what MODE SENSE decoded from a
    device response that may carry block descriptors; the produced list must still parse and carry the page"""
    import pyscsi.pyscsi.scsi_enum_command as E

    from vmon import harness
    from vmon.spec import datain as D, dataout as DO

    ten = c.custom == "mode10"
    f = D.ModeSense(ten, opaque_pages=False)
    rng = ctx.rng("sensed")
    for key in D.MODE_PAGES:
        for nbd in (0, 1, 2, 3):
            for _ in range(4 if shard["small"] else 60):
                v = f.gen(rng, ("page", key, "rand", nbd))
                resp = f.encode(v)
                try:
                    d = f.lib_decode(resp, v)
                except Exception:  # noqa: BLE001
                    continue  # C04's business
                fld = rng.choice([n for n in D.MODE_PAGES[key].names()])
                w = D.MODE_PAGES[key].width(fld)[1]
                d["mode_pages"][0][fld] = d["mode_pages"][0].get(fld, 0) ^ (1 << rng.randrange(w))
                exp = {"pages": [{k: x for k, x in d["mode_pages"][0].items()}]}
                a = {"data": d, "pf": 1, "sp": 0}
                setname = c.sets[0]
                ctx.case((c.name, "sensed", bytes(resp), fld), True, sample={"cmd": c.name, "flow": "modesense->edit->modeselect", "block_descriptors": nbd} if ctx.want_sample() else None)
                ctx.count("sensed_flow_cases")
                try:
                    cmd = harness.construct(c, setname, DO.fresh(a))
                except Exception as e:  # noqa: BLE001
                    ctx.fail("C05:%s.sensed_flow.constructor_raises.%s" % (c.custom, type(e).__name__), "MODE SELECT from a sensed dictionary raised %s: %s" % (type(e).__name__, e),
                             {"gen": c.custom, "cmd": c.name, "sensed_response": resp}, exc=e)
                    continue
                judge(ctx, c, setname, "sensed_flow", a, exp, cmd)


def finalize(merged, tier):
    c = merged["counters"]
    if c.get("lists_parsed", 0) == 0 or c.get("facade_lists_parsed", 0) == 0:
        merged["inconclusive"].append("no parameter list reached the reference parser")
    return {}


def replay(rec, ctx):
    w = rec["witness"]
    run({"id": w["cmd"], "cmd": w["cmd"], "part": 0, "parts": 1, "n": 50, "small": True}, ctx)
