"""Real files under /dev/shm/vmon-<pid>/ standing in for /dev nodes.

SCSIDevice insists on a path starting with "/dev/" and really open()s it, so
the nodes are real (tmpfs) files.  replug = create a new file and rename it
over the path: the path now names a new inode while the old handle stays open.
"""
import atexit
import os
import shutil

_dir = None
_n = 0
_CHARDEVS = set()  # paths whose node is a character special file (re-plugging keeps the kind, also after an unplug)


def chardev_possible():
    import stat

    p = os.path.join(base(), "mknod-probe")
    try:
        os.mknod(p, 0o600 | stat.S_IFCHR, os.makedev(1, 3))
        os.unlink(p)
        return True
    except OSError:
        return False


def base():
    global _dir
    if _dir is None:
        _dir = "/dev/shm/vmon-%d" % os.getpid()
        os.makedirs(_dir, exist_ok=True)
        atexit.register(cleanup)
    return _dir


def cleanup():
    global _dir
    if _dir and os.path.isdir(_dir):
        shutil.rmtree(_dir, ignore_errors=True)
    _dir = None


def new_node(name=None, link=False, own_dir=False):
    """a regular file, or (link=True) a symlink to one, as /dev/disk/by-id/... names are; own_dir: in a directory of its own
    (so that the directory can go away with the node)"""
    global _n
    _n += 1
    p = os.path.join(base(), name or "sg%d" % _n)
    if own_dir:
        os.mkdir(os.path.join(base(), "d%d" % _n))
        p = os.path.join(base(), "d%d" % _n, name or "sg%d" % _n)
    if link == "chardev":
        # a real character special file (what /dev/sg* are); every node made for this path has the same device number,
        # as the replacement of a re-plugged unit usually has
        import stat

        os.mknod(p, 0o600 | stat.S_IFCHR, os.makedev(1, 3))
        return p
    if link:
        t = p + ".t%d" % _n
        with open(t, "wb") as f:
            f.write(b"node")
        os.symlink(t, p)
        return p
    with open(p, "wb") as f:
        f.write(b"node")
    return p


REPLUG_KINDS = ("rename-over", "moved-aside", "second-name")


def replug(path, kind="rename-over"):
    """the path now names another node (new inode) while handles to the old one stay valid.  Regular file: create +
    rename over it.  Symlink: create a new target and atomically re-point the link; the old target keeps existing.
    kind (regular files): "moved-aside": the old node is renamed to another name first (mv sg3 sg3.old) and lives on there;
    "second-name": the old node has a second hard link (a container's /dev) when it is replaced."""
    global _n
    _n += 1
    import stat

    # whatever an unplug left behind at the path or in place of its directory goes first
    d = os.path.dirname(path)
    if os.path.lexists(d) and not os.path.isdir(d):
        os.unlink(d)
    if not os.path.lexists(d):
        os.makedirs(d)
    if os.path.islink(path) and not os.path.exists(path):
        os.unlink(path)
    if os.path.exists(path) and stat.S_ISCHR(os.lstat(path).st_mode) or path in _CHARDEVS:
        _CHARDEVS.add(path)
        tmp = path + ".new%d" % _n
        os.mknod(tmp, 0o600 | stat.S_IFCHR, os.makedev(1, 3))
        os.rename(tmp, path)
        return os.stat(path).st_ino
    if os.path.islink(path):
        t = path + ".t%d" % _n
        with open(t, "wb") as f:
            f.write(b"node%d" % _n)
        tmp = path + ".l%d" % _n
        os.symlink(t, tmp)
        os.rename(tmp, path)
        return os.stat(path).st_ino
    if kind == "moved-aside" and os.path.exists(path):
        os.rename(path, path + ".old%d" % _n)
    elif kind == "second-name" and os.path.exists(path):
        os.link(path, path + ".hl%d" % _n)
    tmp = path + ".new%d" % _n
    with open(tmp, "wb") as f:
        f.write(b"node%d" % _n)
    os.rename(tmp, path)
    return os.stat(path).st_ino


def flip_back(path):
    """the node that was at the path before (moved aside by the last 'moved-aside' replug, still alive, same inode) returns to
    the path; the current one is moved aside in turn (a by-id link that flips between two live nodes; mv a a.tmp; mv a.old a).
    Returns False when there is no such earlier node"""
    global _n
    d, b = os.path.dirname(path), os.path.basename(path)
    olds = sorted((fn for fn in os.listdir(d) if fn.startswith(b + ".old")), key=lambda fn: int(fn.rsplit(".old", 1)[1]))
    if not olds or os.path.islink(path) or not os.path.exists(path):
        return False
    _n += 1
    os.rename(path, path + ".old%d" % _n)
    os.rename(os.path.join(d, olds[-1]), path)
    return True


def remove_all(path):
    """remove the node and every file created for it"""
    d = os.path.dirname(path)
    b = os.path.basename(path)
    if d != base():
        # a node with a directory of its own
        if os.path.isdir(d) and not os.path.islink(d):
            shutil.rmtree(d, ignore_errors=True)
        elif os.path.lexists(d):
            os.unlink(d)
        return
    for fn in os.listdir(d):
        if fn == b or fn.startswith(b + "."):
            try:
                os.unlink(os.path.join(d, fn))
            except OSError:
                pass


UNPLUG_KINDS = ("unlink", "dangling", "selfloop", "notdir")


def unplug(path, kind="unlink"):
    """the node goes away.  unlink: the name is gone (ENOENT).  dangling: the name is a symlink whose target is gone (ENOENT).
    selfloop: the name is a symlink that resolves to itself (ELOOP).  notdir: the directory that held the node is gone and a
    plain file has its name (ENOTDIR; only for nodes created with own_dir)"""
    if kind == "notdir" and os.path.dirname(path) != base():
        d = os.path.dirname(path)
        shutil.rmtree(d)
        with open(d, "wb"):
            pass
        return kind
    os.unlink(path)
    if kind == "dangling":
        os.symlink(path + ".nowhere", path)
    elif kind == "selfloop":
        os.symlink(path, path)
    else:
        kind = "unlink"
    return kind


def open_fds_on(path_prefix):
    """descriptors of this process that point below path_prefix (incl. deleted)"""
    out = []
    for fd in os.listdir("/proc/self/fd"):
        try:
            t = os.readlink("/proc/self/fd/" + fd)
        except OSError:
            continue
        if t.startswith(path_prefix):
            out.append((int(fd), t))
    return out
