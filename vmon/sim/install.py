"""Put the binding stand-ins into sys.modules *before* pyscsi is imported
(_has_sgio/_has_iscsi are evaluated at import time)."""
import sys

from . import devnode, fake_iscsi, fake_sgio

_cache = {}


def install_fakes(sgio=True, iscsi=True, raw_sense=True):
    if "pyscsi.pyscsi.scsi_device" in sys.modules or "pyscsi.pyiscsi.iscsi_device" in sys.modules:
        if "sgio" not in sys.modules and sgio:
            raise RuntimeError("pyscsi device modules imported before the stand-ins were installed")
    if sgio and "sgio" not in sys.modules:
        sys.modules["sgio"] = fake_sgio.make_module()
    if iscsi and "iscsi" not in sys.modules:
        sys.modules["iscsi"] = fake_iscsi.make_module(raw_sense)
    return sys.modules.get("sgio"), sys.modules.get("iscsi")


def sgio_device(readwrite=True, detect_replugged=True):
    from pyscsi.pyscsi.scsi_device import SCSIDevice

    node = devnode.new_node()
    return SCSIDevice(node, readwrite, detect_replugged), node


def iscsi_device(url="iscsi://127.0.0.1:3260/iqn.2003-01.org.example:target0/0", initiator="iqn.2003-01.org.example:init"):
    from pyscsi.pyiscsi.iscsi_device import ISCSIDevice

    return ISCSIDevice(url, initiator)


def transport_factories():
    """[(name, mk)] with mk(setname) -> (device with that opcode table, fresh log list)"""
    import pyscsi.pyscsi.scsi_enum_command as E

    sg, isc = sys.modules["sgio"], sys.modules["iscsi"]

    def mk_sg(setname):
        if "sg" not in _cache:
            _cache["sg"] = sgio_device()[0]
        dev = _cache["sg"]
        dev.opcodes = getattr(E, setname)
        sg.handler = None
        sg.log = []
        return dev, sg.log

    def mk_is(setname):
        if "is" not in _cache:
            _cache["is"] = iscsi_device()
        dev = _cache["is"]
        dev.opcodes = getattr(E, setname)
        isc.handler = None
        isc.log = []
        return dev, isc.log

    return [("sgio", mk_sg), ("iscsi", mk_is)]
